"""C13, the environment BUILDER as a state machine (part of checks/c13.py).

Sequences of `env` / `envs` (iterators of 0, 1, n items) / `arg` / `args` / `cwd` calls and spawns on ONE real
`Command`, in both feature settings of tiny-std:
  * WITHOUT `start`: the std-hosted harness `harness/c13 --envseq` (default environment None);
  * WITH `start`:    the no-libc probe `harness-nolibc/c13probe` (started through tiny-std's own `_start`; default
                     environment Inherit = the probe's own envp, which this check chooses when it launches the probe);
  * WITH `start`, WITHOUT `alloc`: `harness-nolibc/c13free`, the free function `process::spawn` with an explicit
                     `Environment::Inherit` / `Environment::None`.
Both harnesses include the same source (harness/c13/src/envseq.rs).  The child is `cat /proc/self/environ`: the
kernel's own copy of the envp strings the image was started with (entries, order, duplicates).
Judge (`spec_env`): the property itself, written without the model — nothing given: the default environment (the
caller's own with `start`, empty without); otherwise exactly the given strings in call order.
Model: `envRounds` of Model/SpawnEnv.lean through drv_c13 `envseq` (Props: builder_env_exact, respawn_env_exact,
envs_nil_identity, envs_eq_foldl_env, envs_append, envs_nil_anywhere).
"""
import os
import subprocess

from . import common as C

NL = os.path.join(C.VERIF, "harness-nolibc")
NOSTARTFILES = "-C link-arg=-nostartfiles"

# caller environments of the `start` builds (dict order = envp order)
CALLER_ENVS = {
    "P0": {},
    "P1": {"C13_MARKER": "present"},
    "P5": {"C13_MARKER": "present", "HOME": "/nonexistent", "PATH": "/usr/bin:/bin", "EMPTY": "", "A": "0"},
}

CORE = ["e0", "e1", "E", "E7", "E2.0.1", "a1", "S"]
TARGETED = [
    "S", "E S", "E E S", "E S E S", "E S S", "E e0 S", "e0 E S", "e0 S E S", "E S e0 S E S", "A E S", "E a1 E S", "cwd E S", "E cwd S",
    "a1 S E S", "E A S", "A1.2 E A S", "E0 E S", "E E0 S", "E0 S E S", "E0.0 S", "E0.7 S", "e0 e7 S", "e0 e1 S", "e1 e0 S", "E1.0 S", "E8 S",
    "e8 e8 S", "e5 S", "E5 S", "E3.4 S", "e4 S", "e3 E S", "E0.1.2.3.4.5.6.7.8.9 S", "E9.8.7.6.5.4.3.2.1.0 S", "e0 E1 e2 E3.4 e5 E6.7.8 e9 S",
    "E0.1 E E2.3 E E4 S", "e0 S e1 S e2 S e3 S", "E S E0 S E S E1 S E S", "e9 a1 e9 A1.2 e9 cwd e9 S", "E2 S", "e2 S", "E6 S",
    "E0.1.2 S E S E3 S", "a1 a2 a3 E S", "e0 a1 S a2 e1 S", "E S a1 S A S cwd S",
]


def toks_of(line):
    return line.split()


def spec_env(start, penv, line):
    """THE PROPERTY, per spawn: [list of byte strings the image must find as its environment]"""
    given = []
    out = []
    for t in toks_of(line):
        if t == "S":
            out.append(list(given) if given else (list(penv) if start else []))
        elif t[0] == "e":
            given.append(("v", int(t[1:])))
        elif t[0] == "E":
            given += [("v", int(x)) for x in t[1:].split(".") if x]
    return out


def resolve(spec_rounds, vars_):
    return [[vars_[x[1]] if isinstance(x, tuple) else x for x in r] for r in spec_rounds]


def parse_record(rec):
    """-> (list of byte strings | None, reason)"""
    if not rec.startswith("ok:"):
        return None, rec
    parts = rec.split(":")
    if len(parts) != 3:
        return None, "malformed " + rec[:60]
    if parts[2] != "0":
        return None, "child exit status " + parts[2]
    data = b"" if parts[1] == "-" else bytes.fromhex(parts[1])
    if data and not data.endswith(b"\0"):
        return None, "environment area not NUL-terminated"
    return data.split(b"\0")[:-1], None


def shape(line):
    out = []
    for t in toks_of(line):
        if t == "S" or t == "cwd":
            out.append(t)
        elif t[0] in "eE" + "aA":
            n = len([x for x in t[1:].split(".") if x])
            out.append(t[0] if t[0] in "ea" else t[0] + ("0" if n == 0 else "1" if n == 1 else "n"))
    return " ".join(out)


def gen_random(rng, n, maxlen):
    out = []
    for _ in range(n):
        k = rng.range(3, maxlen)
        toks = []
        for _ in range(k):
            r = rng.below(100)
            if r < 22:
                toks.append("e%d" % rng.below(10))
            elif r < 40:
                toks.append("E")
            elif r < 52:
                toks.append("E%d" % rng.below(10))
            elif r < 66:
                toks.append("E" + ".".join(str(rng.below(10)) for _ in range(rng.range(2, 5))))
            elif r < 74:
                toks.append("a%d" % rng.range(1, 9))
            elif r < 80:
                toks.append("A" + ".".join(str(rng.range(1, 9)) for _ in range(rng.below(3))))
            elif r < 84:
                toks.append("cwd")
            else:
                toks.append("S")
        toks.append("S")
        out.append(" ".join(toks))
    return out


def build_nolibc(ctx, pkg, tdir, release=False, rustflags=NOSTARTFILES):
    cmd = ["cargo", "build", "--offline", "-q", "--target-dir", os.path.join(NL, tdir)] + (["--release"] if release else [])
    import time
    t = time.time()
    rc, out = 1, ""
    for _ in range(3):
        rc, out = C.sh(cmd, cwd=os.path.join(NL, pkg), env={"RUSTFLAGS": rustflags}, timeout=3000)
        if rc == 0 or "error[" in out or "error: linking" in out or "could not compile" in out:
            break
        time.sleep(5)
    ctx.extra.setdefault("cargo_build_s", {})["%s%s" % (pkg, "-release" if release else "")] = round(time.time() - t, 1)
    if rc != 0:
        return None, "\n".join([l for l in out.splitlines() if l.strip() and "warning" not in l][-25:])
    return os.path.join(NL, tdir, "release" if release else "debug", pkg), ""


def run_exact_env(cmd, lines, penv, timeout=900):
    """the probe's own environment is EXACTLY penv (nothing of this process's environment is passed on)"""
    p = subprocess.run(cmd, input=("\n".join(lines) + "\n").encode(), stdout=subprocess.PIPE, stderr=subprocess.PIPE, env=dict(penv), timeout=timeout)
    return p.returncode, p.stdout.decode("latin-1").splitlines(), p.stderr.decode("latin-1")


def penv_list(penv):
    return [("%s=%s" % kv).encode() for kv in penv.items()]


def replay_cmd(feat, exe, pname, line):
    envs = " ".join("'%s=%s'" % kv for kv in CALLER_ENVS[pname].items())
    return "echo '%s' | env -i %s %s%s" % (line, envs, exe, " --envseq" if feat == "no-start" else "")


def judge_lines(feat, start, pname, lines, outs, vars_):
    """-> [(line, round index | None, kind, why, got, want)] for every line that fails the property"""
    penv = penv_list(CALLER_ENVS[pname])
    bad = []
    for line, o in zip(lines, outs):
        want = resolve(spec_env(start, penv, line), vars_)
        recs = o.split(" ")
        if o in ("panic", "bad-op") or len(recs) != len(want):
            bad.append((line, None, "crash", "the harness answered %r for %d spawns" % (o[:80], len(want)), o[:200], None))
            continue
        for k, (rec, w) in enumerate(zip(recs, want)):
            got, why = parse_record(rec)
            if got is None:
                bad.append((line, k, "spawn-failed", "spawn %d: %s (nothing was made to fail)" % (k + 1, why), rec[:200], w))
                break
            if got != w:
                kind = "env-lost" if len(got) < len(w) else "env-extra" if len(got) > len(w) else "env-differs"
                bad.append((line, k, kind, "spawn %d of %d: the image's environment is %s, the builder calls so far ask for %s"
                            % (k + 1, len(want), [g.decode("latin-1")[:40] for g in got], [g.decode("latin-1")[:40] for g in w]), got, w))
                break
    return bad


def model_rounds(drv, start, pname, lines, vars_):
    penv = penv_list(CALLER_ENVS[pname])
    rc, mo, err = C.run_filter(drv, ["envseq start=%d penv=%d %s" % (1 if start else 0, len(penv), l) for l in lines])
    if len(mo) != len(lines):
        return None
    out = []
    for x in mo:
        if x in ("panic", "bad-op"):
            out.append(x)
            continue
        rounds = []
        for r in x.split(" / "):
            if r == "noimage":
                rounds.append(None)
            else:
                ids = [] if r == "." else [int(i) for i in r.split(".")]
                rounds.append([vars_[i] if i < 1000 else penv[i - 1000] for i in ids])
        out.append(rounds)
    return out


def run_env_builder(ctx, drv, exe_nostart):
    thorough = ctx.tier == "thorough"
    import itertools
    exhaustive = [" ".join(s) + " S" for n in (1, 2, 3) for s in itertools.product(CORE, repeat=n)]
    if thorough:
        exhaustive += [" ".join(s) + " S" for s in itertools.product(CORE, repeat=4)]
    rnd = gen_random(ctx.rng, 1500 if thorough else 260, 14 if thorough else 11)
    builds = [("no-start", False, exe_nostart, ["--envseq"], ["P5"])]
    probe, err = build_nolibc(ctx, "c13probe", "target-c13-dyn")
    if probe is None:
        ctx.broken.append({"probe_build_failed": err})
        ctx.violation({"stream": "env-builder", "kind": "probe-build-failed"}, {"error": err}, no_input=True)
    else:
        builds.append(("start", True, probe, [], ["P5", "P1", "P0"]))
    if thorough and probe is not None:
        p2, err = build_nolibc(ctx, "c13probe", "target-c13-dyn", release=True)
        if p2:
            builds.append(("start,release", True, p2, [], ["P5", "P0"]))
        p3, err = build_nolibc(ctx, "c13probe", "target-c13-static", rustflags="-C target-feature=+crt-static -C relocation-model=static " + NOSTARTFILES)
        if p3:
            builds.append(("start,static", True, p3, [], ["P5"]))
    st = ctx.extra.setdefault("streams", {}).setdefault("env-builder", {"cases": 0, "spawns": 0, "disagreements": 0, "spec_failures": 0})
    vars_ = None
    for feat, start, exe, extra, pnames in builds:
        for pi, pname in enumerate(pnames):
            lines = TARGETED + rnd + (exhaustive if pi == 0 else [])
            rc, outs, err = run_exact_env([exe] + extra, ["vars"] + lines, CALLER_ENVS[pname])
            ctx.evaluations += len(lines)
            st["cases"] += len(lines)
            if len(outs) != len(lines) + 1 or not outs[0].startswith("vars "):
                idx = max(0, len(outs) - 1)
                ctx.violation({"stream": "env-builder", "kind": "harness-died", "features": feat},
                              {"stream": "env-builder", "features": feat, "caller_env": pname, "rc": rc, "stderr": err[-300:],
                               "case": lines[idx] if idx < len(lines) else None,
                               "how_to_replay": replay_cmd(feat, exe, pname, lines[idx]) if idx < len(lines) else None})
                continue
            v = [bytes.fromhex(h) for h in outs[0].split()[1:]]
            if vars_ is not None and v != vars_:
                ctx.violation({"stream": "env-builder", "kind": "variable-tables-differ"}, {"a": str(vars_), "b": str(v)}, no_input=True)
            vars_ = v
            outs = outs[1:]
            # ---- the property ----
            bad = judge_lines(feat, start, pname, lines, outs, vars_)
            st["spec_failures"] += len(bad)
            by_kind = {}
            for b in bad:
                by_kind.setdefault(b[2], []).append(b)
            for kind, bs in by_kind.items():
                bs.sort(key=lambda b: (len(toks_of(b[0])), b[0]))
                line, k, _, why, got, want = bs[0]
                ctx.violation({"stream": "env-builder", "kind": kind, "features": feat, "caller_env": pname},
                              {"stream": "env-builder", "features": feat, "caller_env": pname, "caller_environment": CALLER_ENVS[pname],
                               "case": line, "spawn": k, "why": why,
                               "builder_calls": "Command::new(/bin/cat).arg(/proc/self/environ).stdout(MakePipe) then: " + line
                                                + "   (e<i> = env(VAR[i]), E<i.j> = envs(iterator over VAR[i],VAR[j]), E = envs(<iterator without items>), "
                                                  "a/A = arg/args, S = spawn)",
                               "image_environment": [g.decode("latin-1") for g in got] if isinstance(got, list) else got,
                               "required_environment": [g.decode("latin-1") for g in want] if want is not None else None,
                               "failing_sequences_of_this_kind": len(bs), "others": [b[0] for b in bs[1:6]],
                               "how_to_replay": replay_cmd(feat, exe, pname, line)})
            # ---- the model ----
            mo = model_rounds(drv, start, pname, lines, vars_)
            if mo is None:
                ctx.violation({"stream": "env-builder", "kind": "driver-failed"}, {}, no_input=True)
                continue
            badset = set(b[0] for b in bad)
            for line, o, m in zip(lines, outs, mo):
                got = [parse_record(r)[0] for r in o.split(" ")] if o not in ("panic", "bad-op") else o
                if got != m:
                    st["disagreements"] += 1
                    if line not in badset:
                        ctx.extra.setdefault("disagreements", []).append(
                            {"stream": "env-builder", "features": feat, "caller_env": pname, "case": line, "implementation": o[:300], "model": str(m)[:300]})
            # ---- coverage ----
            for line in lines:
                ctx.count(("env-builder", feat.split(",")[0], pname if start else "-", shape(line)))
                mode = "default(Inherit)" if start else "default(None)"
                nsp = 0
                for t in toks_of(line):
                    if t == "S":
                        nsp += 1
                        ctx.hist("env_builder_mode_at_spawn", mode)
                        continue
                    n = len([x for x in t[1:].split(".") if x])
                    op = {"e": "env", "a": "arg", "c": "cwd"}.get(t[0]) or ("envs" if t[0] == "E" else "args") + ("(0 items)" if n == 0 else "(1 item)" if n == 1 else "(n items)")
                    ctx.hist("env_builder_ops", op)
                    if t[0] in "eE":
                        ctx.hist("env_builder_mode_at_env_call", "%s on %s" % (op, mode))
                        if t[0] == "e" or n:
                            mode = "Provided"
                st["spawns"] += nsp
                ctx.hist("env_builder_spawns_per_command", nsp)
                ctx.hist("env_builder_features", feat)
            ctx.hist("env_builder_caller_env", "%s:%s(%d entries)" % (feat, pname, len(CALLER_ENVS[pname])), len(lines))
    # ---- the no-alloc front end: Environment passed directly ----
    free, err = build_nolibc(ctx, "c13free", "target-c13-free")
    if free is None:
        ctx.broken.append({"probe_build_failed": err})
        ctx.violation({"stream": "env-free-spawn", "kind": "probe-build-failed"}, {"error": err}, no_input=True)
    else:
        for pname, pe in CALLER_ENVS.items():
            penv = penv_list(pe)
            p = subprocess.run([free], stdin=subprocess.DEVNULL, stdout=subprocess.PIPE, stderr=subprocess.PIPE, env=dict(pe), timeout=60)
            ctx.evaluations += 2
            o = p.stdout
            ok = o.startswith(b"<inherit>") and b"<none>" in o and o.endswith(b"<end>")
            want = b"<inherit>" + b"".join(x + b"\0" for x in penv) + b"<status 000><none><status 000><end>"
            rc, mo, _ = C.run_filter(drv, ["freeenv start=1 penv=%d mode=inherit" % len(penv), "freeenv start=1 penv=%d mode=none" % len(penv)])
            mwant = None
            if len(mo) == 2 and "bad-op" not in mo:
                f = lambda r: b"".join(penv[int(i) - 1000] + b"\0" for i in ([] if r == "." else r.split(".")))
                mwant = b"<inherit>" + f(mo[0]) + b"<status 000><none>" + f(mo[1]) + b"<status 000><end>"
            for mode in ("Inherit", "None"):
                ctx.hist("env_builder_mode_at_spawn", "explicit %s (process::spawn, no alloc)" % mode)
                ctx.count(("env-free-spawn", pname, mode))
            ctx.hist("env_builder_features", "start,no-alloc", 2)
            if not ok or o != want:
                ctx.violation({"stream": "env-free-spawn", "kind": "env-differs", "caller_env": pname},
                              {"stream": "env-free-spawn", "features": "start, no alloc", "caller_environment": pe,
                               "implementation": o.decode("latin-1")[:400], "required": want.decode("latin-1"),
                               "why": "process::spawn with Environment::Inherit must hand the image the caller's environment, with Environment::None an empty one",
                               "how_to_replay": "env -i %s %s | od -c" % (" ".join("'%s=%s'" % kv for kv in pe.items()), free)})
            elif mwant != o:
                ctx.extra.setdefault("disagreements", []).append({"stream": "env-free-spawn", "caller_env": pname, "implementation": o.decode("latin-1")[:300],
                                                                   "model": str(mwant)[:300]})
    # malformed requests are refused by harness and driver alike
    rc, badd, _ = C.run_filter(drv, ["envseq start=1 penv=0 e0", "envseq start=1 penv=0", "envseq start=2 penv=0 S", "envseq start=1 penv=0 q S",
                                    "freeenv start=0 penv=1 mode=inherit"])
    rc, badh, _ = run_exact_env([exe_nostart, "--envseq"], ["e0", "S e0", "e99 S", "q S", "E1..2 S"], {})
    if any(x != "bad-op" for x in badd + badh) or len(badd) != 5 or len(badh) != 5:
        ctx.violation({"stream": "env-builder", "kind": "malformed-accepted"}, {"driver": badd, "harness": badh}, no_input=True)
    ctx.sample({"stream": "env-builder", "features": "start", "caller_env": "P1", "case": "E S e0 E S",
                "means": "envs(<empty>); spawn -> the image inherits C13_MARKER=present; env(A=1); envs(<empty>); spawn -> exactly [A=1]"})


def replay_env(ctx, rp):
    r = rp["replay"]
    feat, pname, line = r["features"], r["caller_env"], r["case"]
    if feat == "no-start":
        exe, err = C.cargo_build(ctx, "c13")
        extra = ["--envseq"]
    else:
        exe, err = build_nolibc(ctx, "c13probe", "target-c13-dyn", release="release" in feat)
        extra = []
    if exe is None:
        print(err)
        return 2
    rc, outs, err = run_exact_env([exe] + extra, ["vars", line], CALLER_ENVS[pname])
    if len(outs) != 2:
        print("harness died: rc=%s %s" % (rc, err[-300:]))
        return 1
    vars_ = [bytes.fromhex(h) for h in outs[0].split()[1:]]
    start = feat != "no-start"
    print("features: %s   caller environment: %s\nbuilder calls: %s\nimplementation: %s" % (feat, CALLER_ENVS[pname], line, outs[1][:600]))
    bad = judge_lines(feat, start, pname, [line], [outs[1]], vars_)
    for b in bad:
        print("verdict: %s: %s" % (b[2], b[3]))
    if not bad:
        print("verdict: satisfies the property")
    return 1 if bad else 0
