"""C03 — allocator safety: live blocks aligned, disjoint, intact; OOM gives null, heap stays usable.

Proof: lean/TinyVerif/Props/C03.lean about the executable chunk-level model Model/Dlmalloc.lean
       (pure size/index helpers regenerated from the Rust source by checks/dl_extract.py into
       Gen/DlmallocPure.lean on every run).
Tie:   harness/c03 includes the real dlmalloc.rs, drives malloc/calloc/realloc/free exactly as the
       GlobalAlloc impl does and prints, after every operation, the result, the OS calls made and the
       complete heap layout (segments, every chunk with its boundary-tag bits and prev_foot, small
       bins in ring order, tree bins as tries with their rings, dv, top, footprint, trim_check,
       release_checks, least_addr, both bitmaps).  The OS side is an arena behind sc-shim: every
       mmap/mremap/munmap is served at a dictated place or refused.  Two passes: histories with
       placement *policies* are first recorded on the real code, the concrete OS answers are then
       fed to both the real code and the Lean model (drv_c03), whose answer lines must be identical.
Judge: `Judge` below — the property itself, plain Python over the implementation's answers: alignment,
       bounds inside the recorded mappings, pairwise disjointness of live blocks, null only when the
       OS refused, every block still mapped until freed, plus the in-process byte-pattern verdict
       (`chk=`: owner-only writes, zeroed calloc, realloc prefix) and the port's own debug checks."""
import os
import time

from . import common as C
from . import dl_extract

GRAN = 65536
TOPFOOT = 80


# ------------------------------------------------------------------ build

TARGET_DA = os.path.join(C.HARNESS, "target", "c03-opt-da")


def build(ctx, flavour):
    """debug = workspace dev profile (debug_assertions + overflow checks, unoptimised);
    optda = optimised with debug assertions and overflow checks (long histories);
    release = plain release (wrapping arithmetic, no debug_assert)"""
    for attempt in range(4):
        if flavour == "debug":
            exe, err = C.cargo_build(ctx, "c03")
        elif flavour == "optda":
            exe, err = C.cargo_build(ctx, "c03", release=True, rustflags="-C debug-assertions=on -C overflow-checks=on",
                                     extra_env={"CARGO_TARGET_DIR": TARGET_DA})
            if exe is not None:
                exe = os.path.join(TARGET_DA, "release", "c03")
        else:
            exe, err = C.cargo_build(ctx, "c03", release=True)
        if exe is not None or "failed to load manifest for workspace member" not in err:
            return exe, err
        time.sleep(10)
    return None, err


# ------------------------------------------------------------------ sizes

def min_size_for_tree_index(i):
    return (1 << ((i >> 1) + 8)) | ((i & 1) << ((i >> 1) + 7))


def boundary_sizes():
    """request sizes whose chunk sizes sit on every small-bin boundary +-1 and tree-bin boundary +-8/16"""
    out = set()
    for cs in range(32, 272, 8):            # small bins (chunk sizes are multiples of 16; +-1 around each request edge)
        for d in (-1, 0, 1):
            out.add(max(1, cs - 8 + d))
    for i in range(0, 26):                   # tree bins up to 2 MiB chunks
        m = min_size_for_tree_index(i)
        for d in (-24, -16, -9, -8, -7, 0, 8, 9, 16):
            out.add(max(1, m - 8 + d))
    for k in (1, 2, 3, 4, 8, 16, 31, 32, 33):  # around the 64 KiB mapping granularity
        for d in (-121, -120, -105, -104, -103, -97, -96, -95, -88, -81, -80, -79, -17, -16, -8, 0, 1, 8):
            out.add(max(1, k * GRAN + d))
    for s in (1 << 20, 2 << 20, (2 << 20) - 96, (2 << 20) + 4096, 4 << 20, 8 << 20, 16 << 20, 32 << 20, (32 << 20) - 8, (32 << 20) - 24):
        out.add(s)
    return sorted(out)


BOUNDARY = boundary_sizes()
ALIGNS = [1, 2, 4, 8, 16, 32, 64, 128, 256, 512, 1024, 2048, 4096, 8192]
POLICIES = "llllllaagGht"


class Gen:
    """generator of one history (abstract form: placement policies, refusal marks)"""

    def __init__(self, r, big=True, refusal=0):
        self.r = r
        self.lines = ["reset"]
        self.live = {}          # id -> (size, align)
        self.order = []         # allocation order of live ids
        self.nid = 0
        self.freed = []         # recently freed request sizes (remainder edges)
        self.big = big
        self.refusal = refusal  # per-mille of ops carrying F0

    def os(self):
        t = "P" + self.r.choice(POLICIES)
        if self.refusal and self.r.below(1000) < self.refusal:
            t += " F%d" % self.r.choice([0, 0, 0, 1])
        return t

    def size(self):
        r = self.r
        k = r.below(20)
        if k < 5:
            return r.range(1, 256)
        if k < 9:
            return r.choice(BOUNDARY[:120])
        if k < 11 and self.freed:           # remainder edges relative to something free
            return max(1, r.choice(self.freed) - r.choice([0, 8, 16, 24, 32, 40, 48, 56]))
        if k < 14:
            return r.range(257, 5000)
        if k < 16:
            return r.choice(BOUNDARY)
        if k < 18:
            return r.range(5000, 300000)
        if k < 19 or not self.big:
            return r.choice([GRAN - 96, GRAN - 97, GRAN - 80, 2 * GRAN - 96, 65432, 65433, 65416, 130000, 200000, 1 << 20])
        return r.choice([(2 << 20) - 96, 3000000, 4 << 20, 8 << 20, 16 << 20, 32 << 20, (32 << 20) - 24])

    def align(self):
        r = self.r
        k = r.below(10)
        if k < 6:
            return r.choice([1, 2, 4, 8, 16])
        if k < 9:
            return r.choice(ALIGNS)
        return r.choice([4096, 8192])

    def alloc(self, size=None, align=None, kind=None, osx=None):
        self.nid += 1
        size = self.size() if size is None else size
        align = self.align() if align is None else align
        kind = kind or self.r.choice("mmmc")
        self.lines.append("%s %d %d %d | %s" % (kind, self.nid, size, align, osx or self.os()))
        self.live[self.nid] = (size, align)
        self.order.append(self.nid)
        return self.nid

    def free(self, i):
        self.freed.append(self.live[i][0])
        self.freed = self.freed[-12:]
        del self.live[i]
        self.order.remove(i)
        self.lines.append("f %d | %s" % (i, self.os()))

    def realloc(self, i, new=None):
        r = self.r
        old, al = self.live[i]
        if new is None:
            k = r.below(8)
            if k < 2:
                new = max(1, old - r.choice([1, 8, 16, 24, 31, 32, 33, 48, 64]))
            elif k < 4:
                new = old + r.choice([1, 8, 16, 24, 32, 40, 100, 1000])
            elif k < 5:
                new = max(1, old // 2)
            elif k < 6:
                new = old * 2
            else:
                new = self.size()
        self.lines.append("r %d %d | %s" % (i, new, self.os()))
        self.live[i] = (new, al)

    def pick(self, how):
        if how == "lifo":
            return self.order[-1]
        if how == "fifo":
            return self.order[0]
        return self.r.choice(self.order)

    def random_ops(self, n):
        r = self.r
        mode = r.choice(["mix", "mix", "grow", "shrink"])
        free_how = r.choice(["lifo", "fifo", "rand", "rand"])
        for _ in range(n):
            k = r.below(100)
            pa = {"mix": 45, "grow": 60, "shrink": 30}[mode]
            if not self.live or k < pa:
                self.alloc()
            elif k < pa + 15:
                self.realloc(self.pick("rand" if r.chance(1, 2) else "lifo"))
            else:
                self.free(self.pick(free_how))
            if r.chance(1, 60):
                mode = r.choice(["mix", "grow", "shrink"])
                free_how = r.choice(["lifo", "fifo", "rand"])

    def free_all(self, how=None):
        how = how or self.r.choice(["lifo", "fifo", "rand", "other"])
        if how == "other":          # every other one, then the rest
            ids = list(self.order)
            for i in ids[::2] + ids[1::2]:
                self.free(i)
            return
        while self.order:
            self.free(self.pick(how))


def directed_histories(r):
    """short histories aimed at the branches a random walk rarely reaches"""
    hs = []
    # realloc into top / into dv (split, exhaust) / into the next free chunk
    g = Gen(r)
    a = g.alloc(1000, 8, "m", "Pl")
    g.realloc(a, 5000)                       # next == top
    g.realloc(a, 70000)                      # top too small: move + sys_alloc
    b = g.alloc(200, 8, "m", "Pl")
    c_ = g.alloc(100, 8, "m", "Pl")
    g.free(b)                                # -> small bin (208)
    d = g.alloc(40, 8, "m", "Pl")            # takes it, remainder becomes dv
    g.realloc(d, 100)                        # into dv, split
    g.realloc(d, 190)                        # into dv, exhaust
    e = g.alloc(300, 8, "m", "Pl")
    f = g.alloc(300, 8, "m", "Pl")
    h = g.alloc(50, 8, "m", "Pl")
    g.free(f)                                # free large chunk after e
    g.realloc(e, 500)                        # into next, split
    g.realloc(e, 601)                        # into next, exhaust (or fail + move)
    g.realloc(e, 40)                         # shrink, split
    g.realloc(e, 33)                         # shrink, keep
    g.free_all("other")
    hs.append(g)
    # prepend with the old first chunk being top / dv / free / in use; extend; add_segment both ways
    g = Gen(r)
    a = g.alloc(100, 8, "m", "Pl")
    g.free(a)                                # whole segment is top again
    b = g.alloc(200000, 8, "m", "Pl")        # prepend, oldfirst == top
    c_ = g.alloc(150, 8, "m", "Pl")
    g.free(b)                                # first chunk of the segment free
    d = g.alloc(300000, 16, "c", "Pl")       # prepend, oldfirst free -> merged
    e = g.alloc(400000, 16, "m", "Pl")       # prepend, oldfirst in use
    g.alloc(500000, 8, "m", "Pa")            # directly above the highest mapping
    g.alloc(600000, 8, "m", "Pt")            # directly above the head segment: extend
    g.alloc(700000, 8, "m", "Pg")            # disjoint below: add_segment
    g.alloc(700000, 8, "m", "PG")            # disjoint above: add_segment
    g.alloc(65432, 8, "m", "Pl")
    g.free_all("fifo")
    hs.append(g)
    # dv at the start of a segment, then prepend (oldfirst == dv)
    g = Gen(r)
    a = g.alloc(200, 8, "m", "Pl")           # first chunk, 208
    b = g.alloc(100, 8, "m", "Pl")
    g.free(a)
    a2 = g.alloc(150, 8, "m", "Pl")          # front of a, remainder 48 -> dv
    g.free(a2)                               # free into dv: dv now first chunk
    g.alloc(200000, 8, "m", "Pl")            # prepend, oldfirst == dv
    g.free_all("lifo")
    hs.append(g)
    # add_segment when top has shrunk to 16 bytes (segment record overwrites the old top)
    g = Gen(r)
    g.alloc(GRAN - TOPFOOT - 16 - 8, 8, "m", "Pl")     # chunk 65440, top left = 16
    g.alloc(100, 8, "m", "Pg")                          # add_segment, csp == old_top
    g.alloc(GRAN - TOPFOOT - 16 - 8 - 112, 8, "m", "Pl")
    g.alloc(100, 8, "m", "PG")
    g.random_ops(40)
    g.free_all()
    hs.append(g)
    # trim: large top, refusals of mremap / munmap, release of whole segments (also refused)
    g = Gen(r)
    a = g.alloc(3 << 20, 8, "m", "Pl")
    g.lines.append("f %d | Pl F0" % a); del g.live[a]; g.order.remove(a)          # mremap refused, munmap serves
    a = g.alloc(3 << 20, 8, "m", "Pl")
    g.lines.append("f %d | Pl F0 " % a); del g.live[a]; g.order.remove(a)
    a = g.alloc(4 << 20, 8, "m", "Pg")       # own segment
    b = g.alloc(100, 8, "m", "Pl")
    c_ = g.alloc(4 << 20, 8, "m", "PG")      # another own segment
    g.free(a)
    g.free(c_)                               # trims + releases unused segments
    a = g.alloc(5 << 20, 8, "m", "Pg")
    c_ = g.alloc(5 << 20, 8, "m", "Pg")
    g.lines.append("f %d | Pl F1" % a); del g.live[a]; g.order.remove(a)          # a later syscall of the free refused
    g.lines.append("f %d | Pl F2" % c_); del g.live[c_]; g.order.remove(c_)
    g.random_ops(30)
    g.free_all()
    hs.append(g)
    # over-aligned: every alignment, leader / no leader / trailer, realloc of over-aligned blocks
    g = Gen(r)
    for al in ALIGNS[5:]:
        for sz in (1, al - 1, al, 3 * al + 1):
            g.alloc(sz, al, r.choice("mc"), "Pl")
    for i in list(g.order)[::3]:
        g.realloc(i)
    g.free_all("other")
    hs.append(g)
    return hs


def realloc_refusal_histories(r):
    """reallocations that need new system memory while the OS refuses it, for every alignment class: the call must
    return null, the old block must stay allocated and intact (the harness re-reads its bytes right away and again
    later), and no later allocation — in particular one of the old block's size class — may overlap it"""
    hs = []
    for big in (300000, 3 << 20):
        g = Gen(r)
        ids = []
        for al in (1, 8, 16, 32, 64, 256, 4096, 8192):
            for sz in (40, 1000, 70000):
                a = g.alloc(sz, al, r.choice("mc"), "Pl")
                g.alloc(48, 8, "m", "Pl")                   # a neighbour, so that the block cannot grow in place
                ids.append((a, sz, al))
        for (a, sz, al) in ids:
            g.lines.append("r %d %d | P%s F0" % (a, big + sz, r.choice("lg")))      # refused: null, block unchanged
            g.alloc(sz, al, "m", "Pl")                       # same size class: must not land on the old block
            g.alloc(max(1, sz - 8), 8, "c", "Pl")
        for (a, sz, al) in ids[::2]:
            g.realloc(a, sz * 2 + 100)                       # now served
        for (a, sz, al) in ids[1::2]:
            g.lines.append("r %d %d | Pl F0" % (a, big * 2)) # refused again
        g.free_all("other")
        hs.append(g)
    return hs


def release_check_history(r):
    """4095 frees of large chunks: release_checks counts down to the segment scan"""
    g = Gen(r)
    a = g.alloc(4 << 20, 8, "m", "Pg")
    keep = g.alloc(300, 8, "m", "Pl")
    g.alloc(64, 8, "m", "Pl")
    x = g.alloc(4 << 20, 8, "m", "PG")       # a segment that becomes releasable
    y = g.alloc(300, 8, "m", "Pl")
    g.alloc(64, 8, "m", "Pl")
    g.free(x)
    for _ in range(4100):
        g.free(y)
        y = g.alloc(300, 8, "m", "Pl")
    g.free_all("lifo")
    return g


# ------------------------------------------------------------------ two passes

def concretise(lines, outs):
    """replace placement policies by the OS answers the recording run observed; drop operations on
    blocks whose allocation was refused (the recording run answered bad-op for those)"""
    res = []
    for l, o in zip(lines, outs):
        w = l.split()
        if w and w[0] in ("m", "c", "r", "f"):
            if o == "bad-op":
                continue
            toks = []
            if " os=" in o:
                ev = o.split(" os=")[1].split()[0]
                if ev != "-":
                    for e in ev.split(";"):
                        if e[0] == "M":
                            toks.append("M" + e.split("@")[1])
                        elif e[0] in "RU":
                            toks.append(e[0] + ("+" if e[-1] == "+" else "-"))
            res.append(l.split("|")[0].strip() + ((" | " + " ".join(toks)) if toks else ""))
        else:
            res.append(l)
    return res


def record(exe, lines, timeout=1800):
    rc, outs, err = C.run_filter([exe], lines, timeout=timeout)
    return outs


# ------------------------------------------------------------------ the property's own oracle

class Judge:
    """C03 evaluated on the implementation's answer lines (stateful over a stream; `reset` starts a history)"""

    def __init__(self):
        self.reset()

    def reset(self):
        self.live = {}      # id -> (ptr, size, align)
        self.mapped = []    # disjoint (start, end)

    # interval ledger of what the OS handed out and did not take back
    def covered(self, a, b):
        cur = a
        for s, e in sorted(self.mapped):
            if s > cur:
                break
            if e > cur:
                cur = e
            if cur >= b:
                return True
        return cur >= b

    def unmap(self, a, b):
        out = []
        for s, e in self.mapped:
            if e <= a or s >= b:
                out.append((s, e))
                continue
            if s < a:
                out.append((s, a))
            if e > b:
                out.append((b, e))
        self.mapped = out

    def events(self, ev):
        refused = False
        if ev == "-":
            return None, refused
        for e in ev.split(";"):
            if e[0] == "M":
                ln, at = e[1:].split("@")
                if at == "-":
                    refused = True
                    continue
                a, b = int(at), int(at) + int(ln)
                if any(a < e2 and s2 < b for s2, e2 in self.mapped):
                    return "mmap result overlaps memory already held", refused
                self.mapped.append((a, b))
            elif e[0] == "R":
                a, old, new, st = e[1:].split(":")
                if st == "!":
                    return "mremap of a range the allocator does not hold (%s)" % e, refused
                if st == "+":
                    self.unmap(int(a) + int(new), int(a) + int(old))
                else:
                    refused = True
            elif e[0] == "U":
                a, ln, st = e[1:].split(":")
                if st == "!":
                    return "munmap of a range the allocator does not hold (%s)" % e, refused
                if st == "+":
                    self.unmap(int(a), int(a) + int(ln))
                else:
                    refused = True
        return None, refused

    def __call__(self, case, out):
        w = case.split()
        if not w:
            return None
        if w[0] == "reset":
            self.reset()
            return None
        if w[0] not in ("m", "c", "r", "f"):
            return None
        if out == "bad-op":
            return None     # malformed / stale op: nothing was executed
        if out == "poisoned":
            return None     # already reported at the operation that panicked
        if out.startswith("panic"):
            return "allocator panicked: " + out[:120]
        f = dict(x.split("=", 1) for x in out.split() if "=" in x)
        if "p" not in f or "chk" not in f or "os" not in f:
            return "unreadable answer"
        # the ledgers are always brought up to date; the first problem found is reported
        problems = []
        why, refused = self.events(f["os"])
        if why:
            problems.append(why)
        if f["chk"] != "ok":
            problems.append("shadow map: " + f["chk"][:160])
        p = f["p"]
        if w[0] == "f":
            self.live.pop(int(w[1]), None)
        else:
            if w[0] == "r":
                i, size = int(w[1]), int(w[2])
                align = self.live[i][2] if i in self.live else 1
            else:
                i, size, align = int(w[1]), int(w[2]), int(w[3])
            if p == "-":
                if not refused and size < (1 << 44):
                    problems.append("null although the OS refused nothing")
            else:
                p = int(p)
                if p % align:
                    problems.append("result not aligned to %d" % align)
                if not self.covered(p, p + size):
                    problems.append("block not inside memory obtained from the OS")
                for j, (q, qs, _) in self.live.items():
                    if j != i and p < q + qs and q < p + size:
                        problems.append("block overlaps live block %d" % j)
                        break
                self.live[i] = (p, size, align)
        for j, (q, qs, _) in self.live.items():
            if not self.covered(q, q + qs):
                problems.append("live block %d no longer inside mapped memory" % j)
                break
        return problems[0] if problems else None


def sig_of(case, out, why):
    kind = why
    for pre in ("allocator panicked", "shadow map: BAD:", "null although", "result not aligned", "block not inside", "block overlaps",
                "live block", "mmap result", "mremap of", "munmap of", "unreadable"):
        if why.startswith(pre):
            kind = pre
            if pre == "shadow map: BAD:":
                kind = "shadow map: " + why[len(pre):].split(":")[0].split("@")[0]
            break
    return {"op": case.split()[0] if case.split() else "?", "kind": kind}


# ------------------------------------------------------------------ streams

def refusal_variants(lines, outs, limit):
    """for a recorded history: one variant per syscall position — prefix, the op with that syscall refused,
    a small probe allocation, the op again (now served), then the rest of the history"""
    variants = []
    probe_id = 10 ** 9
    for idx, (l, o) in enumerate(zip(lines, outs)):
        if " os=" not in o:
            continue
        ev = o.split(" os=")[1].split()[0]
        if ev == "-":
            continue
        n = len(ev.split(";"))
        w = l.split("|")
        for k in range(n):
            probe_id += 1
            refused = w[0].strip() + " | " + (w[1].strip() if len(w) > 1 else "Pl") + " F%d" % k
            v = list(lines[:idx]) + [refused, "m %d 24 8 | Pl" % probe_id]
            if l.split()[0] != "f":
                v.append(l)             # retry (bad-op if the refused op succeeded anyway -> dropped by concretise)
            v += lines[idx + 1:]
            variants.append(v)
            if len(variants) >= limit:
                return variants
    return variants


def coverage(ctx, drv, conc):
    rc, outs, _ = C.run_filter([drv], ["cov 1"] + conc, timeout=1800)
    for o in outs[1:]:
        w = o.split()
        if len(w) < 3 or not w[1].startswith("br="):
            continue
        tags = [t for t in w[1][3:].split(",") if t]
        evk = ",".join(sorted(set(e[0] + (e[-1] if e[-1] in "+-" else ("-" if e.endswith("@-") else "+")) for e in w[2][3:].split(";")))) if w[2] != "os=-" else ""
        path = "/".join(tags)
        ctx.count((w[0], path, evk))
        ctx.hist("ops", w[0])
        for t in tags:
            ctx.hist("branches", t)
        if evk:
            ctx.hist("os_calls", evk)


def _run_chunks(cmd, chunks, timeout):
    """run a line filter over several independent chunks in parallel; returns the list of output-line lists"""
    from concurrent.futures import ThreadPoolExecutor
    with ThreadPoolExecutor(max_workers=min(12, max(1, len(chunks)))) as ex:
        futs = [ex.submit(C.run_filter, cmd, ch, timeout) for ch in chunks]
        return [f.result() for f in futs]


def run_histories(ctx, name, exe, drv, gens, judge_factory=Judge, sample=0, timeout=3000, wf=False, dump="full", on_disagree=None):
    """Two passes over independent histories, in parallel chunks: (1) record the OS answers on the real code,
    (2) run the real code and the Lean model on the concretised lines; judge the implementation's answers with the
    property's oracle and compare them line by line with the model's (the protocol of common.correspond, with the
    whole history kept as replay for a failing operation).
    wf: the driver additionally evaluates the well-formedness predicate WF of Props/C03.lean on every state.
    Optional judge attributes (used by C04): `sig_of` (signature of a failure), `detail` (set by the judge when it fails:
    added to the replay), `model_side(case, model_answer)` (an oracle of the judge evaluated on the MODEL's own lines;
    a complaint there is an internal error of the oracle, not a violation of the property).
    on_disagree(ctx, name, exe, first_disagreement): failing-input search run when the stream disagrees although the
    oracle is satisfied on every case."""
    hists = [(g.lines if hasattr(g, "lines") else g) for g in gens]
    nchunks = min(12, len(hists)) or 1
    pre = ["wf 1" if wf else "wf 0", "dump " + dump]
    chunks = [list(pre) for _ in range(nchunks)]
    sizes = [0] * nchunks
    for h in sorted(hists, key=len, reverse=True):
        k = sizes.index(min(sizes))
        chunks[k] += h
        sizes[k] += len(h)
    st = ctx.extra.setdefault("streams", {})
    st[name] = {"cases": 0, "disagreements": 0, "spec_failures": 0}
    rec = _run_chunks([exe], chunks, timeout)
    concs = []
    for ch, (rc, outs, err) in zip(chunks, rec):
        if len(outs) != len(ch):
            idx = len(outs)
            ctx.violation({"stream": name, "kind": "impl-crash"},
                          {"stream": name, "case_index": idx, "history_tail": ch[max(0, idx - 400):idx + 1], "stderr": err[-400:],
                           "note": "the harness died (signal / abort) while recording; the last line shown is the operation that killed it"})
            return None
        concs.append(concretise(ch, outs))
    impl = _run_chunks([exe], concs, timeout)
    model = _run_chunks([drv], concs, timeout)
    all_conc = []
    first_disagreement = None
    for conc, (rc_i, outs_i, err_i), (rc_m, outs_m, err_m) in zip(concs, impl, model):
        all_conc += conc
        ctx.evaluations += len(conc)
        st[name]["cases"] += len(conc)
        if len(outs_i) != len(conc):
            idx = len(outs_i)
            ctx.violation({"stream": name, "kind": "impl-crash"},
                          {"stream": name, "case_index": idx, "history_tail": conc[max(0, idx - 400):idx + 1], "stderr": err_i[-400:]})
            return None
        if len(outs_m) != len(conc):
            ctx.broken.append({"driver_failed": name, "rc": rc_m, "stderr": err_m.splitlines()[-5:]})
            ctx.violation({"stream": name, "kind": "driver-failed"}, {"stream": name, "driver_rc": rc_m, "stderr": err_m.splitlines()[-5:]},
                          no_input=True)
            return None
        j0 = judge_factory()
        sig_fn = getattr(j0, "sig_of", None) or sig_of
        model_side = getattr(j0, "model_side", None)
        start, failed_here = 0, False
        for i, (c_, a, b) in enumerate(zip(conc, outs_i, outs_m)):
            if c_ == "reset":
                start, failed_here = i, False
            why = j0(c_, a)
            if why:
                st[name]["spec_failures"] += 1
                if not failed_here:
                    failed_here = True
                    rp = {"stream": name, "why": why, "history": conc[:2] + conc[start:i + 1], "failing_operation": c_,
                          "implementation": a[:2000], "model": b[:2000],
                          "how_to_replay": "feed the lines of `history` (one per line) to " + exe}
                    if getattr(j0, "detail", None):
                        rp["detail"] = j0.detail
                    ctx.violation(sig_fn(c_, a, why), rp)
            if model_side is not None:
                bug = model_side(c_, b)
                if bug and not st[name].get("oracle_internal_errors"):
                    st[name]["oracle_internal_errors"] = 1
                    ctx.broken.append({"internal_error": "oracle contradicts the model", "stream": name, "case": c_, "what": bug})
                    ctx.violation({"stream": name, "kind": "internal-error-oracle-vs-model"},
                                  {"internal_error": bug, "stream": name, "case": c_, "model": b[:2000],
                                   "history": conc[:2] + conc[start:i + 1],
                                   "note": "an oracle of the check complains about the MODEL's own answers: the oracle demands more than the "
                                           "model guarantees. This is a defect of the check, not a violation found in the code"},
                                  no_input=True)
            if a != b:
                st[name]["disagreements"] += 1
                if first_disagreement is None:
                    first_disagreement = {"history": conc[:2] + conc[start:i + 1], "case": c_, "implementation": a[:3000], "model": b[:3000]}
        if sample:
            for c_, o_ in list(zip(conc, outs_i))[3:3 + sample]:
                ctx.sample({"case": c_, "implementation": o_[:400]})
            sample = 0
    if first_disagreement is not None and st[name]["spec_failures"] == 0:
        if on_disagree is not None:
            on_disagree(ctx, name, exe, first_disagreement)
        ctx.broken.append({"correspondence": name, "first_disagreement": {k: first_disagreement[k] for k in ("case", "implementation", "model")},
                           "count": st[name]["disagreements"]})
        ctx.violation({"stream": name, "kind": "model-disagreement"},
                      {"broken_correspondence": name, "first_disagreement": first_disagreement, "count": st[name]["disagreements"],
                       "note": "implementation output satisfies the spec oracle on every explored case; the model no longer describes the code"},
                      no_input=True)
    return all_conc


def malformed(ctx):
    r = ctx.rng
    junk = ["", "m", "m 1", "m 1 10", "m 1 0 8", "m 1 10 3", "m 1 10 0", "m x 10 8", "m 1 -5 8", "m 1 10 8 extra", "c 1 10 2097152",
            "r 1 10", "f 1", "f", "r 1", "q 1 2 3", "m 1 10 8 | Z", "m 1 10 8 | M", "m 1 10 8 | Mx", "m 1 10 8 | R", "m 1 10 8 | U?",
            "m 1 99999999999999999999999 8", "m 1 9223372036854775808 8", "reset now", "dump", "dump maybe", "verify", "verify x",
            "m +1 10 8", "m 1 1_0 8", "pure", "pure nosuch 1", "pure align_up 1"]
    out = ["reset"] + junk + ["m 5 100 8 | M1048576", "m 5 100 8", "f 6", "r 6 10", "r 5 200", "f 5", "f 5", "r 5 10"]
    for _ in range(30):
        out.append("%s %d %d %d" % (r.choice("mc"), r.range(100, 200), r.choice([0, 2 ** 63, 2 ** 64]), r.choice([0, 3, 12, 1 << 21])))
    return out


def prepare(ctx):
    """regenerate Gen/DlmallocPure.lean from the source; a construct that cannot be translated breaks the check"""
    ok, text, problems = dl_extract.generate(C.REPO)
    hard, selfcheck = dl_extract.split_problems(problems)
    path = os.path.join(C.LEAN, "TinyVerif", "Gen", "DlmallocPure.lean")
    if hard:
        # a broken obligation; the run goes on with the previously generated definitions so that the
        # correspondence can still look for a concrete failing input on the implementation
        ctx.broken.append({"dl_extract": hard})
        ctx.violation({"kind": "extractor-cannot-translate"},
                      {"problems": hard, "note": "a pure helper of dlmalloc.rs is no longer in the translatable fragment; "
                       "the theorems about Gen/DlmallocPure.lean no longer speak about the source"}, no_input=True)
        return os.path.exists(path)
    old = open(path).read() if os.path.exists(path) else None
    if old != text:
        with open(path, "w") as f:
            f.write(text)
    if selfcheck:
        ctx.extra["extractor_value_changes"] = selfcheck
    return True


def replay(ctx, rp, judge_factory=Judge):
    """bin/check C03 --replay <file>: re-run the recorded history on the real code and on the model, print the first
    line on which the oracle fails or the two disagree.  Exit 1 when the recorded failure reproduces."""
    r = rp.get("replay", {})
    hist = r.get("history") or (r.get("first_disagreement") or {}).get("history") or r.get("history_tail")
    if not hist:
        print("nothing replayable in this file (a broken obligation without a concrete history)")
        return 2
    stream = str(r.get("stream") or r.get("broken_correspondence") or "")
    exe, err = build(ctx, "release" if "release" in stream else ("debug" if "debug" in stream else "optda"))
    if exe is None:
        print(err)
        return 2
    C.sh(["lake", "build", "drv_c03"], cwd=C.LEAN, timeout=3000)
    rc, impl, _ = C.run_filter([exe], hist)
    rc, model, _ = C.run_filter([C.driver_path("drv_c03")], hist)
    j = judge_factory()
    bad = 0
    if len(impl) < len(hist):
        print("the harness died at: %s" % hist[len(impl)])
        return 1
    for c_, a, b in zip(hist, impl, model):
        why = j(c_, a)
        if why or a != b:
            print("op:    %s\nimpl:  %s\nmodel: %s\n%s" % (c_, a[:1500], b[:1500], ("ORACLE: " + why) if why else "DISAGREEMENT"))
            bad = 1
            break
    if not bad:
        print("history of %d lines replayed: oracle satisfied, implementation and model agree" % len(hist))
    return bad


RULE = ("cases = histories of malloc/calloc/realloc/free over named blocks; sizes drawn from every small-bin boundary +-1, tree-bin "
        "boundaries +-8/16, remainder edges relative to freed sizes, the 64 KiB mapping granularity +-, up to 32 MiB; alignments 1..8192; "
        "free order LIFO/FIFO/random/every-other; realloc grow/shrink; mmap placement policies (below the lowest mapping as Linux does, "
        "adjacent above, disjoint below/above, into a hole, right above the head segment) and refusal of the k-th syscall of an op; "
        "directed histories for the rare branches and for reallocations refused by the OS in every alignment class; for selected "
        "histories one variant per syscall position with that syscall refused. "
        "distinct_nontrivial = distinct (entry point, branch path reported by the model, kinds of OS calls) triples")

ASSUMPTIONS = [
    "Model/Dlmalloc.lean describes tiny-std/src/allocator/dlmalloc.rs at chunk level: checked on every history of this run by equality of "
    "the result, the OS calls with their arguments, and the full layout dump (segments, every header word with its flag bits and prev_foot, "
    "bin rings, tries, dv, top, footprint, trim_check, release_checks, least_addr, both bitmaps) after every operation",
    "header bits in memory are abstracted to the header table; user bytes are abstract (block contents are checked on the implementation by "
    "the in-process byte patterns, not modelled)",
    "OS contract: a served mmap returns a page-aligned zero-filled range disjoint from everything mapped; mremap (shrink, no MAYMOVE) and "
    "munmap either fail without effect or remove exactly the given range (the arena behind sc-shim implements exactly this)",
    "the Dlmalloc struct itself (holding the head segment record and the bin heads) lies outside every segment",
    "Chunk::mmapped is never true for a chunk the allocator produced (direct-mmap path dead): the model turns those branches into explicit "
    "errors and the correspondence shows they are never taken; Props/C03.lean proves it for well-formed heaps (never_mmapped)",
]


def run(ctx):
    ctx.rule = RULE
    ctx.assumptions += ASSUMPTIONS
    ctx.trusted.append("harness/c03: heap walker, arena OS emulation behind sc-shim, in-process byte-pattern shadow map; checks/dl_extract.py "
                       "(validated by the differential `pure` stream, not verified)")
    if not prepare(ctx):
        return
    ok = C.lean_prove(ctx, "TinyVerif.Props.C03", drivers=["drv_c03"], more_props=["TinyVerif.Props.C03Ind", "TinyVerif.Props.C03Prog"])
    quick = ctx.tier == "quick"
    drv = C.driver_path("drv_c03")
    exe, err = build(ctx, "optda")
    exe_dbg, err2 = build(ctx, "debug")
    exe_rel, err3 = build(ctx, "release")
    for e_, er in ((exe, err), (exe_dbg, err2), (exe_rel, err3)):
        if e_ is None:
            ctx.broken.append({"harness_build_failed": er})
            ctx.violation({"kind": "harness-build-failed"}, {"error": er}, no_input=True)
            return
    r = ctx.rng
    # 1. pure helpers: generated Lean definitions vs the compiled Rust
    import random
    pure = dl_extract.pure_cases(random.Random(r.next()), 100 if quick else 2000)
    C.correspond(ctx, "pure-helpers", pure, [exe_dbg], [drv], None, None)
    # 2. malformed lines
    C.correspond(ctx, "malformed", malformed(ctx), [exe_dbg], [drv], lambda c, o: None, None)
    # 3. directed + random histories
    gens = directed_histories(r)
    nh, nops = (20, 400) if quick else (500, 3000)
    for i in range(nh):
        g = Gen(r, big=(i % 3 != 0), refusal=(0 if i % 4 else 30))
        k = nops
        while k > 0:
            step = min(k, r.range(50, 400))
            g.random_ops(step)
            k -= step
            if r.chance(1, 3):
                g.free_all()
        g.free_all()
        gens.append(g)
    conc = run_histories(ctx, "histories", exe, drv, gens, sample=6, wf=quick, dump="full" if quick else "hash")
    if not quick:       # WF on every state of a tenth of the long histories (the checker is quadratic)
        run_histories(ctx, "histories-wf", exe, drv, gens[:6] + gens[6::10], wf=True)
    if conc is not None:
        coverage(ctx, drv, conc)
    # the unoptimised debug build and the plain release build on the directed histories + a few random ones
    small = directed_histories(r) + gens[6:10]
    run_histories(ctx, "histories-debug-build", exe_dbg, drv, small, wf=True)
    run_histories(ctx, "histories-release-build", exe_rel, drv, small)
    # 3b. reallocations refused by the OS, every alignment class (old block must survive a null return)
    c2b = run_histories(ctx, "realloc-refused", exe, drv, realloc_refusal_histories(r), wf=True)
    if c2b is not None:
        coverage(ctx, drv, c2b)
    run_histories(ctx, "realloc-refused-release-build", exe_rel, drv, realloc_refusal_histories(r))
    # 4. release_checks countdown
    c2 = run_histories(ctx, "release-check-countdown", exe, drv, [release_check_history(r)])
    if c2 is not None:
        coverage(ctx, drv, c2)
    # 5. every refusal position of selected histories
    nref = 3 if quick else 50
    total = 0
    for i in range(nref):
        g = Gen(r, big=(i % 2 == 0))
        g.random_ops(60 if quick else 150)
        g.free_all()
        base = [l for l in g.lines]
        outs = record(exe, base)
        vs = refusal_variants(base, outs, 60 if quick else 400)
        total += len(vs)
        if vs:
            c3 = run_histories(ctx, "refusal-positions-%d" % i, exe, drv, vs, wf=True)
            if c3 is not None and i < 3:
                coverage(ctx, drv, c3)
    for di, gd in enumerate(directed_histories(r)[:(2 if quick else 6)]):
        outs = record(exe, gd.lines)
        vs = refusal_variants(gd.lines, outs, 40 if quick else 400)
        total += len(vs)
        if vs:
            run_histories(ctx, "refusal-directed-%d" % di, exe, drv, vs)
    ctx.extra["refusal_variants"] = total
    if not ok and not ctx.violations:
        ctx.violation({"kind": "proof-broken"}, {"broken": ctx.broken}, no_input=True)
