#!/usr/bin/env python3
"""Translator for C03/C04: regenerates lean/TinyVerif/Gen/DlmallocPure.lean from the *current*
/repo/tiny-std/src/allocator/dlmalloc.rs — the numeric constants and the one-line arithmetic
functions of the allocator, translated expression-by-expression into Lean definitions over `Nat`
(namespace `TinyVerif.Dl`).  The Rust expression text itself is parsed (tiny recursive-descent parser
with a usize/u32/bool type pass), so an edit of the source changes the generated Lean, and the lemmas in
`Proofs/DlPure.lean` and the differential evaluator (`Model/DlPureEval.lean` vs
`harness/c03/src/pure_body.rs`) re-check it.

Semantics (target x86_64: usize = 64 bit, u32 = 32 bit):
  `!x` = 2^w-1-x, `x << n` = (x <<< n) % 2^w, `as u32` of a usize = % 2^32, `wrapping_add` wraps,
  plain `+ - * /` are exact `Nat` operations (`-` therefore saturates at 0; Rust would panic in debug —
  the model proves separately that the operations it uses do not overflow).
Anything in the target list that cannot be found/parsed/typed is reported (exit status 1), never skipped.
Stdlib only.

    python3 checks/dl_extract.py [--repo /repo] [--out FILE] [--check] [--print]
        exit 0 = translated (file rewritten only when its content changed); 1 = something in the target
        list could not be translated (file NOT written); 2 = translated and written, but a constant's
        value differs from the built-in x86_64 expectation (source changed a value, or translator bug)
    generate(repo) -> (ok, text, problems)        split_problems(problems) -> (hard, selfcheck)
    pure_cases(rng, n_random=200) -> list[str]
"""
import os
import re
import sys

SRC_REL = "tiny-std/src/allocator/dlmalloc.rs"
HERE = os.path.dirname(os.path.abspath(__file__))
OUT = os.path.normpath(os.path.join(HERE, "..", "lean", "TinyVerif", "Gen", "DlmallocPure.lean"))

CONSTS = ["NSMALLBINS", "NTREEBINS", "SMALLBIN_SHIFT", "TREEBIN_SHIFT", "DEFAULT_GRANULARITY",
          "DEFAULT_TRIM_THRESHOLD", "MAX_RELEASE_CHECK_RATE", "PAGE_SIZE", "PINUSE", "CINUSE", "FLAG4",
          "INUSE", "FLAG_BITS", "FENCEPOST_HEAD", "MEM_OFFSET", "MALLOC_ALIGNMENT", "CHUNK_OVERHEAD",
          "MMAP_CHUNK_OVERHEAD", "MIN_LARGE_SIZE", "MAX_SMALL_SIZE", "MAX_SMALL_REQUEST", "MIN_CHUNK_SIZE",
          "MIN_REQUEST", "MAX_REQUEST"]
SIZEOFS = {"SIZEOF_SEGMENT": "Segment", "SIZEOF_CHUNK": "Chunk", "SIZEOF_USIZE": "usize"}
FNS = ["align_up", "left_bits", "least_bit", "leftshift_for_tree_index", "const_max_request",
       "pad_request", "small_index", "small_index2size", "is_small", "is_aligned", "align_offset_usize",
       "top_foot_size", "mmap_foot_pad", "request2size", "mmap_align", "compute_tree_index",
       "min_size_for_tree_index", "should_trim"]

WIDTH = {"usize": 64, "u64": 64, "u32": 32}
UNAME = {64: "U64", 32: "U32"}

# expected x86_64 values: only to catch translator bugs (evaluated on the parsed trees in python)
EXPECT = {"MALLOC_ALIGNMENT": 16, "CHUNK_OVERHEAD": 8, "MIN_CHUNK_SIZE": 32, "MAX_SMALL_REQUEST": 232,
          "MIN_REQUEST": 23, "top_foot_size": 80, "FENCEPOST_HEAD": 11, "MEM_OFFSET": 16,
          "SIZEOF_CHUNK": 32, "SIZEOF_SEGMENT": 32, "SIZEOF_USIZE": 8}


class Bad(Exception):
    pass


# ------------------------------------------------------------------ source slicing

def strip_comments(src):
    src = re.sub(r"//[^\n]*", "", src)
    src = re.sub(r"/\*.*?\*/", "", src, flags=re.S)
    return src


def match_brace(src, i):
    """index of the brace closing the one at src[i]"""
    depth = 0
    for j in range(i, len(src)):
        if src[j] == "{":
            depth += 1
        elif src[j] == "}":
            depth -= 1
            if depth == 0:
                return j
    raise Bad("unbalanced braces")


def find_consts(src):
    out = {}
    for m in re.finditer(r"\bconst\s+([A-Z][A-Z0-9_]*)\s*:\s*([A-Za-z0-9_]+)\s*=\s*([^;]*);", src):
        name = m.group(1)
        if name in out:
            out[name] = (None, None)  # ambiguous
        else:
            out[name] = (m.group(2), m.group(3).strip())
    return out


def find_fns(src):
    out = {}
    for m in re.finditer(r"((?:#\[[^\]]*\]\s*)*)(?:pub(?:\([a-z]+\))?\s+)?(?:const\s+)?(?:unsafe\s+)?fn\s+([a-z_0-9]+)\s*\(([^)]*)\)\s*(?:->\s*([A-Za-z0-9_]+)\s*)?\{", src):
        attrs, name, params, ret = m.group(1), m.group(2), m.group(3), m.group(4)
        i = m.end() - 1
        try:
            j = match_brace(src, i)
        except Bad:
            continue
        ent = {"attrs": attrs, "params": params, "ret": ret, "body": src[i + 1:j]}
        out.setdefault(name, []).append(ent)
    return out


def find_structs(src):
    out = {}
    for m in re.finditer(r"((?:#\[[^\]]*\]\s*)*)(?:pub\s+)?struct\s+([A-Za-z0-9_]+)\s*\{([^}]*)\}", src):
        fields = []
        for f in m.group(3).split(","):
            f = f.strip()
            if not f:
                continue
            fm = re.match(r"(?:pub\s+)?([a-z_0-9]+)\s*:\s*(.+)$", f, flags=re.S)
            if not fm:
                fields = None
                break
            fields.append((fm.group(1), fm.group(2).strip()))
        out[m.group(2)] = {"reprc": "repr(C)" in m.group(1), "fields": fields}
    return out


def layout(ty, structs, seen=()):
    """(size, align) of a type under repr(C) on x86_64"""
    ty = ty.strip()
    if ty in ("usize", "isize", "u64", "i64"):
        return 8, 8
    if ty in ("u32", "i32"):
        return 4, 4
    if ty in ("u16", "i16"):
        return 2, 2
    if ty in ("u8", "i8", "bool"):
        return 1, 1
    if ty.startswith("*mut ") or ty.startswith("*const "):
        return 8, 8
    m = re.match(r"\[(.+);\s*([0-9]+)\]$", ty)
    if m:
        s, a = layout(m.group(1), structs, seen)
        return s * int(m.group(2)), a
    if ty in structs and ty not in seen:
        st = structs[ty]
        if not st["reprc"] or st["fields"] is None:
            raise Bad("struct %s is not a plain #[repr(C)] struct" % ty)
        off, al = 0, 1
        for _, fty in st["fields"]:
            s, a = layout(fty, structs, seen + (ty,))
            off = (off + a - 1) // a * a + s
            al = max(al, a)
        return (off + al - 1) // al * al, al
    raise Bad("cannot lay out type `%s`" % ty)


# ------------------------------------------------------------------ expression parser

TOK = re.compile(r"\s*(?:(0x[0-9a-fA-F_]+|[0-9][0-9_]*)([iu](?:8|16|32|64|size))?|([A-Za-z_][A-Za-z0-9_]*)|(<<|>>|==|!=|<=|>=|&&|\|\||::|->|[-+*/%&|^!<>=(){};,.:#\[\]]))")


def tokenize(s):
    toks, i = [], 0
    s = s.rstrip()
    while i < len(s):
        m = TOK.match(s, i)
        if not m or m.end() == i:
            raise Bad("cannot tokenize at `%s`" % s[i:i + 20].strip())
        if m.group(1) is not None:
            toks.append(("num", int(m.group(1).replace("_", ""), 0), m.group(2)))
        elif m.group(3) is not None:
            toks.append(("id", m.group(3)))
        else:
            toks.append(("p", m.group(4)))
        i = m.end()
    return toks


BINPREC = [["||"], ["&&"], ["==", "!=", "<", ">", "<=", ">="], ["|"], ["^"], ["&"], ["<<", ">>"],
           ["+", "-"], ["*", "/", "%"]]


class Parser:
    def __init__(self, toks):
        self.t, self.i = toks, 0

    def peek(self, k=0):
        return self.t[self.i + k] if self.i + k < len(self.t) else ("eof",)

    def isp(self, s, k=0):
        return self.peek(k) == ("p", s)

    def isid(self, s, k=0):
        return self.peek(k) == ("id", s)

    def eat(self, s):
        if not self.isp(s):
            raise Bad("expected `%s`, found %r" % (s, self.peek()))
        self.i += 1

    def ident(self):
        t = self.peek()
        if t[0] != "id":
            raise Bad("expected identifier, found %r" % (t,))
        self.i += 1
        return t[1]

    # block body: statements then a tail expression
    def body(self):
        lets = []
        while True:
            if self.isid("debug_assert") and self.isp("!", 1):
                # debug_assert!(..); has no value; recorded as skipped by the caller
                self.i += 2
                self.eat("(")
                depth = 1
                while depth:
                    t = self.peek()
                    if t[0] == "eof":
                        raise Bad("unterminated debug_assert!")
                    if t == ("p", "("):
                        depth += 1
                    elif t == ("p", ")"):
                        depth -= 1
                    self.i += 1
                self.eat(";")
                lets.append(("skip", "debug_assert"))
                continue
            if self.isid("let"):
                self.i += 1
                if self.isid("mut"):
                    raise Bad("`let mut` is not supported")
                name = self.ident()
                ty = None
                if self.isp(":"):
                    self.i += 1
                    ty = self.ident()
                self.eat("=")
                e = self.expr()
                self.eat(";")
                lets.append(("let", name, ty, e))
                continue
            break
        e = self.expr()
        if self.isp(";"):
            raise Bad("statement where a tail expression was expected")
        real = [l for l in lets if l[0] == "let"]
        return ("block", real, e) if real else e

    def block(self):
        self.eat("{")
        e = self.body()
        self.eat("}")
        return e

    def expr(self, lvl=0):
        if lvl == len(BINPREC):
            return self.cast()
        l = self.expr(lvl + 1)
        while self.peek()[0] == "p" and self.peek()[1] in BINPREC[lvl]:
            op = self.peek()[1]
            self.i += 1
            r = self.expr(lvl + 1)
            if lvl == 2 and self.peek()[0] == "p" and self.peek()[1] in BINPREC[2]:
                raise Bad("chained comparison")
            l = ("bin", op, l, r)
        return l

    def cast(self):
        e = self.unary()
        while self.isid("as"):
            self.i += 1
            e = ("cast", e, self.ident())
        return e

    def unary(self):
        if self.isp("!"):
            self.i += 1
            return ("not", self.unary())
        if self.isp("&"):
            self.i += 1
            return ("ref", self.unary())
        if self.isp("-"):
            raise Bad("unary minus is not supported")
        return self.postfix()

    def postfix(self):
        e = self.primary()
        while self.isp("."):
            self.i += 1
            name = self.ident()
            if self.isp("("):
                e = ("method", e, name, self.args())
            else:
                e = ("field", e, name)
        return e

    def args(self):
        self.eat("(")
        out = []
        while not self.isp(")"):
            out.append(self.expr())
            if self.isp(","):
                self.i += 1
            elif not self.isp(")"):
                raise Bad("expected `,` or `)` in arguments")
        self.eat(")")
        return out

    def primary(self):
        t = self.peek()
        if t[0] == "num":
            self.i += 1
            return ("num", t[1], t[2])
        if self.isp("("):
            self.i += 1
            e = self.expr()
            self.eat(")")
            return e
        if self.isid("if"):
            return self.ifexpr()
        if t[0] == "id":
            path = [self.ident()]
            targ = None
            while self.isp("::"):
                self.i += 1
                if self.isp("<"):
                    self.i += 1
                    targ = self.ident()
                    self.eat(">")
                else:
                    path.append(self.ident())
            if path[0] in ("Self", "Dlmalloc", "Chunk", "Segment", "TreeChunk") and len(path) == 2:
                path = path[1:]
            if path[:2] == ["core", "mem"]:
                path = path[1:]
            if self.isp("("):
                args = self.args()
                if path == ["mem", "size_of"] and targ and not args:
                    return ("sizeof", targ)
                if path == ["mem", "size_of_val"] and len(args) == 1 and args[0][0] == "ref":
                    return ("sizeof_val", args[0][1])
                if len(path) == 1 and targ is None:
                    return ("call", path[0], args)
                raise Bad("unsupported call `%s`" % "::".join(path))
            if len(path) == 1 and targ is None:
                return ("id", path[0])
            raise Bad("unsupported path `%s`" % "::".join(path))
        raise Bad("unexpected token %r" % (t,))

    def ifexpr(self):
        self.i += 1  # if
        c = self.expr()
        a = self.block()
        if not self.isid("else"):
            raise Bad("`if` without `else` used as a value")
        self.i += 1
        b = self.ifexpr() if self.isid("if") else self.block()
        return ("if", c, a, b)


def parse_expr(text):
    p = Parser(tokenize(text))
    e = p.expr()
    if p.peek()[0] != "eof":
        raise Bad("trailing tokens after expression: %r" % (p.peek(),))
    return e


def parse_body(text):
    p = Parser(tokenize(text))
    e = p.body()
    if p.peek()[0] != "eof":
        raise Bad("trailing tokens after body: %r" % (p.peek(),))
    return e


# ------------------------------------------------------------------ typing, emission, evaluation

class World:
    """what the expressions may refer to"""

    def __init__(self):
        self.consts = {}   # name -> (type, ast)
        self.fns = {}      # name -> dict(params=[(n,t)], ret, ast)
        self.sizeof = {}   # rust type -> (const name, value)
        self.deps = {}     # name -> list of referenced names (source order)


def infer(e, env, W):
    """static type of an expression: 'usize' | 'u32' | 'bool' | None (bare integer literal)"""
    k = e[0]
    if k == "num":
        return e[2]
    if k == "id":
        if e[1] in env:
            return env[e[1]]
        if e[1] in W.consts:
            return W.consts[e[1]][0]
        raise Bad("unknown identifier `%s`" % e[1])
    if k == "field":
        if e[1] == ("id", "self") and ("self." + e[2]) in env:
            return env["self." + e[2]]
        raise Bad("unsupported field access `.%s`" % e[2])
    if k == "call":
        if e[1] not in W.fns:
            raise Bad("call of untranslated function `%s`" % e[1])
        return W.fns[e[1]]["ret"]
    if k == "sizeof" or k == "sizeof_val":
        return "usize"
    if k == "cast":
        return e[2]
    if k == "not":
        return infer(e[1], env, W)
    if k == "method":
        if e[2] in ("leading_zeros", "trailing_zeros"):
            return "u32"
        if e[2] in ("wrapping_add", "wrapping_sub"):
            return infer(e[1], env, W)
        raise Bad("unsupported method `.%s()`" % e[2])
    if k == "bin":
        op = e[1]
        if op in ("==", "!=", "<", ">", "<=", ">=", "&&", "||"):
            return "bool"
        if op in ("<<", ">>"):
            return infer(e[2], env, W)
        a, b = infer(e[2], env, W), infer(e[3], env, W)
        if a and b and a != b:
            raise Bad("operands of `%s` have different types %s / %s" % (op, a, b))
        return a or b
    if k == "if":
        a, b = infer(e[2], env, W), infer(e[3], env, W)
        if a and b and a != b:
            raise Bad("if-branches have different types %s / %s" % (a, b))
        return a or b
    if k == "block":
        env = dict(env)
        for _, n, ty, x in e[1]:
            env[n] = ty or infer(x, env, W) or "usize"
        return infer(e[2], env, W)
    raise Bad("cannot type %r" % (k,))


def width(t):
    if t not in WIDTH:
        raise Bad("unsupported integer type `%s`" % t)
    return WIDTH[t]


class Emit:
    """Lean text of an expression; `want` is the type pushed down to bare literals"""

    def __init__(self, W):
        self.W = W
        self.refs = []

    def ref(self, n):
        if n not in self.refs:
            self.refs.append(n)
        return n

    def go(self, e, want, env, ind="  "):
        W, k = self.W, e[0]
        if k == "num":
            if e[2] or want:
                if e[1] >= 2 ** width(e[2] or want):
                    raise Bad("literal %d out of range" % e[1])
            return str(e[1])
        if k == "id":
            if e[1] in env:
                return e[1]
            if e[1] in W.consts:
                return self.ref(e[1])
            raise Bad("unknown identifier `%s`" % e[1])
        if k == "field":
            infer(e, env, W)
            return e[2]
        if k == "sizeof":
            if e[1] not in W.sizeof:
                raise Bad("size_of::<%s>() is not supported" % e[1])
            return self.ref(W.sizeof[e[1]][0])
        if k == "sizeof_val":
            t = infer(e[1], env, W)
            return self.ref("SIZEOF_USIZE") if t == "usize" else str(width(t) // 8)
        if k == "call":
            f = W.fns.get(e[1])
            if f is None:
                raise Bad("call of untranslated function `%s`" % e[1])
            if len(f["params"]) != len(e[2]):
                raise Bad("arity mismatch calling `%s`" % e[1])
            self.ref(e[1])
            if not e[2]:
                return e[1]
            return "(" + " ".join([e[1]] + [self.go(a, t, env, ind) for a, (_, t) in zip(e[2], f["params"])]) + ")"
        if k == "cast":
            src = infer(e[1], env, W)
            dst = e[2]
            width(dst)
            s = self.go(e[1], src or dst, env, ind)
            if src is not None and src != "bool" and width(dst) < width(src):
                return "(%s %% %s)" % (s, UNAME[width(dst)])
            return s
        if k == "not":
            t = infer(e[1], env, W) or want
            if t == "bool":
                return "(¬ %s)" % self.go(e[1], "bool", env, ind)
            if t is None:
                raise Bad("cannot determine the width of a `!`")
            # NB exact Nat arithmetic: `!x + 1` is 2^w (not 0) when x = 0
            return "(%s - 1 - %s)" % (UNAME[width(t)], self.go(e[1], t, env, ind))
        if k == "method":
            t = infer(e[1], env, W) or want
            if t is None:
                raise Bad("cannot determine the width of `.%s()`" % e[2])
            w = width(t)
            r = self.go(e[1], t, env, ind)
            if e[2] in ("leading_zeros", "trailing_zeros") and not e[3]:
                return "(%s%d %s)" % (e[2], w, r)
            if e[2] == "wrapping_add" and len(e[3]) == 1:
                return "((%s + %s) %% %s)" % (r, self.go(e[3][0], t, env, ind), UNAME[w])
            if e[2] == "wrapping_sub" and len(e[3]) == 1:
                return "((%s + %s - %s) %% %s)" % (UNAME[w], r, self.go(e[3][0], t, env, ind), UNAME[w])
            raise Bad("unsupported method `.%s()`" % e[2])
        if k == "bin":
            op = e[1]
            if op in ("&&", "||"):
                return "(%s %s %s)" % (self.go(e[2], "bool", env, ind), {"&&": "∧", "||": "∨"}[op],
                                       self.go(e[3], "bool", env, ind))
            if op in ("==", "!=", "<", ">", "<=", ">="):
                a, b = infer(e[2], env, W), infer(e[3], env, W)
                if a and b and a != b:
                    raise Bad("comparison of %s with %s" % (a, b))
                t = a or b or "usize"
                lop = {"==": "=", "!=": "≠", "<=": "≤", ">=": "≥"}.get(op, op)
                return "(%s %s %s)" % (self.go(e[2], t, env, ind), lop, self.go(e[3], t, env, ind))
            if op in ("<<", ">>"):
                t = infer(e[2], env, W) or want
                if t is None:
                    raise Bad("cannot determine the width of a shift")
                l = self.go(e[2], t, env, ind)
                r = self.go(e[3], infer(e[3], env, W) or "usize", env, ind)
                if op == ">>":
                    return "(%s >>> %s)" % (l, r)
                return "((%s <<< %s) %% %s)" % (l, r, UNAME[width(t)])
            t = infer(e, env, W) or want
            if t == "bool":
                raise Bad("bit operation on bool is not supported")
            lop = {"&": "&&&", "|": "|||", "^": "^^^"}.get(op, op)
            return "(%s %s %s)" % (self.go(e[2], t, env, ind), lop, self.go(e[3], t, env, ind))
        if k == "if":
            t = infer(e, env, W) or want
            i2 = ind + "  "
            return "(if %s then\n%s%s\n%selse\n%s%s)" % (
                self.go(e[1], "bool", env, i2), i2, self.go(e[2], t, env, i2), ind, i2, self.go(e[3], t, env, i2))
        if k == "block":
            env = dict(env)
            out = []
            for _, n, ty, x in e[1]:
                t = ty or infer(x, env, W) or "usize"
                rhs = self.go(x, t, env, ind)
                if rhs != n:  # `let x = x as usize;` of a u32 is the identity on Nat
                    out.append("let %s := %s" % (n, rhs))
                env[n] = t
            out.append(self.go(e[2], want, env, ind))
            return "(" + ("\n" + ind).join(out) + ")"
        raise Bad("cannot emit %r" % (k,))


def strip_outer(s):
    if s.startswith("(") and s.endswith(")"):
        depth = 0
        for i, ch in enumerate(s):
            if ch == "(":
                depth += 1
            elif ch == ")":
                depth -= 1
                if depth == 0 and i != len(s) - 1:
                    return s
        return s[1:-1]
    return s


def lz(x, w):
    return w - x.bit_length()


def tz(x, w):
    return w if x == 0 else (x & -x).bit_length() - 1


class Eval:
    """python evaluation with exactly the semantics of the emitted Lean (Nat: `-` saturates, `/0 = 0`)"""

    def __init__(self, W):
        self.W = W
        self.cache = {}

    def const(self, n):
        if n not in self.cache:
            t, ast = self.W.consts[n]
            self.cache[n] = self.go(ast, t, {}, {})
        return self.cache[n]

    def call(self, name, args):
        f = self.W.fns[name]
        env = {n: t for n, t in f["params"]}
        vals = {n: v for (n, _), v in zip(f["params"], args)}
        v = self.go(f["ast"], f["ret"], env, vals)
        return v

    def go(self, e, want, env, vals):
        W, k = self.W, e[0]
        if k == "num":
            return e[1]
        if k == "id":
            if e[1] in env:
                return vals[e[1]]
            return self.const(e[1])
        if k == "field":
            return vals["self." + e[2]]
        if k == "sizeof":
            return W.sizeof[e[1]][1]
        if k == "sizeof_val":
            return width(infer(e[1], env, W)) // 8
        if k == "call":
            f = W.fns[e[1]]
            return self.call(e[1], [self.go(a, t, env, vals) for a, (_, t) in zip(e[2], f["params"])])
        if k == "cast":
            src = infer(e[1], env, W)
            v = self.go(e[1], src or e[2], env, vals)
            if src is not None and src != "bool" and width(e[2]) < width(src):
                v %= 2 ** width(e[2])
            return v
        if k == "not":
            t = infer(e[1], env, W) or want
            v = self.go(e[1], t, env, vals)
            if t == "bool":
                return not v
            return max(0, 2 ** width(t) - 1 - v)
        if k == "method":
            t = infer(e[1], env, W) or want
            w = width(t)
            r = self.go(e[1], t, env, vals)
            if e[2] == "leading_zeros":
                return max(0, lz(r, w))
            if e[2] == "trailing_zeros":
                return tz(r, w)
            a = self.go(e[3][0], t, env, vals)
            if e[2] == "wrapping_add":
                return (r + a) % 2 ** w
            return max(0, 2 ** w + r - a) % 2 ** w
        if k == "bin":
            op = e[1]
            if op == "&&":
                return self.go(e[2], "bool", env, vals) and self.go(e[3], "bool", env, vals)
            if op == "||":
                return self.go(e[2], "bool", env, vals) or self.go(e[3], "bool", env, vals)
            if op in ("==", "!=", "<", ">", "<=", ">="):
                t = infer(e[2], env, W) or infer(e[3], env, W) or "usize"
                a, b = self.go(e[2], t, env, vals), self.go(e[3], t, env, vals)
                return {"==": a == b, "!=": a != b, "<": a < b, ">": a > b, "<=": a <= b, ">=": a >= b}[op]
            if op in ("<<", ">>"):
                t = infer(e[2], env, W) or want
                a = self.go(e[2], t, env, vals)
                b = self.go(e[3], infer(e[3], env, W) or "usize", env, vals)
                if b > 4096:
                    raise Bad("shift amount too large to evaluate")
                return a >> b if op == ">>" else (a << b) % 2 ** width(t)
            t = infer(e, env, W) or want
            a, b = self.go(e[2], t, env, vals), self.go(e[3], t, env, vals)
            if op == "+":
                return a + b
            if op == "-":
                return max(0, a - b)
            if op == "*":
                return a * b
            if op == "/":
                return a // b if b else 0
            if op == "%":
                return a % b if b else a
            return {"&": a & b, "|": a | b, "^": a ^ b}[op]
        if k == "if":
            t = infer(e, env, W) or want
            return self.go(e[2], t, env, vals) if self.go(e[1], "bool", env, vals) else self.go(e[3], t, env, vals)
        if k == "block":
            env, vals = dict(env), dict(vals)
            for _, n, ty, x in e[1]:
                t = ty or infer(x, env, W) or "usize"
                vals[n] = self.go(x, t, env, vals)
                env[n] = t
            return self.go(e[2], want, env, vals)
        raise Bad("cannot evaluate %r" % (k,))


def self_fields(e, acc):
    if isinstance(e, tuple):
        if e[0] == "field" and e[1] == ("id", "self"):
            if e[2] not in acc:
                acc.append(e[2])
        for x in e:
            self_fields(x, acc)
    elif isinstance(e, list):
        for x in e:
            self_fields(x, acc)


PRELUDE = """/- GENERATED by checks/dl_extract.py from tiny-std/src/allocator/dlmalloc.rs — do not edit.
   Constants (`abbrev`) and one-line arithmetic functions (`def`) of the allocator over `Nat`,
   translated from the Rust expression text for x86_64 (usize = 64 bit, u32 = 32 bit):
   `!x` = 2^w-1-x, `x << n` = (x <<< n) % 2^w, `as u32` = % 2^32, `wrapping_add` wraps; plain
   `+ - * /` are exact Nat operations (`-` saturates).  NB `!x + 1` is 2^w (not 0) for x = 0 — written
   exactly as in the source (least_bit, const_max_request); callers only use x ≠ 0. -/
namespace TinyVerif.Dl

abbrev U64 : Nat := 18446744073709551616
abbrev U32 : Nat := 4294967296

/-- `u64::leading_zeros` (64 for 0). For x ≠ 0: `63 - leading_zeros64 x = Nat.log2 x`. -/
def leading_zeros64 (x : Nat) : Nat := if x = 0 then 64 else 63 - Nat.log2 x
/-- `u32::leading_zeros` (32 for 0). -/
def leading_zeros32 (x : Nat) : Nat := if x = 0 then 32 else 31 - Nat.log2 x

def tzAux : Nat → Nat → Nat
  | 0, _ => 0
  | fuel + 1, x => if x % 2 = 1 then 0 else 1 + tzAux fuel (x / 2)
/-- `u32::trailing_zeros` (32 for 0). -/
def trailing_zeros32 (x : Nat) : Nat := if x = 0 then 32 else tzAux 32 x
/-- `u64::trailing_zeros` (64 for 0). -/
def trailing_zeros64 (x : Nat) : Nat := if x = 0 then 64 else tzAux 64 x
"""


def build_world(repo):
    """parse the source; returns (W, problems, notes)"""
    problems, notes = [], []
    path = os.path.join(repo, SRC_REL)
    W = World()
    try:
        with open(path, encoding="utf-8") as f:
            src = f.read()
    except OSError as ex:
        return W, ["cannot read %s: %s" % (path, ex)], notes
    src = strip_comments(src)
    cut = src.find("#[cfg(test)]\nmod ")
    if cut >= 0:
        src = src[:cut]
    structs = find_structs(src)
    for cname, ty in SIZEOFS.items():
        try:
            W.sizeof[ty] = (cname, layout(ty, structs)[0])
        except Bad as ex:
            problems.append("%s: %s" % (cname, ex))
    consts = find_consts(src)
    for n in CONSTS:
        if n not in consts:
            problems.append("constant %s: not found in %s" % (n, SRC_REL))
            continue
        ty, text = consts[n]
        if ty is None:
            problems.append("constant %s: defined more than once" % n)
            continue
        if ty not in WIDTH:
            problems.append("constant %s: unsupported type %s" % (n, ty))
            continue
        try:
            W.consts[n] = (ty, parse_expr(text))
        except Bad as ex:
            problems.append("constant %s: %s  [%s]" % (n, ex, " ".join(text.split())))
    fns = find_fns(src)
    for n in FNS:
        if n not in fns:
            problems.append("fn %s: not found in %s" % (n, SRC_REL))
            continue
        if len(fns[n]) != 1:
            problems.append("fn %s: defined %d times" % (n, len(fns[n])))
            continue
        f = fns[n][0]
        try:
            params = []
            has_self = False
            for p in [x.strip() for x in f["params"].split(",") if x.strip()]:
                if p in ("&self", "self", "&mut self"):
                    has_self = True
                    continue
                pm = re.match(r"([a-z_][a-z_0-9]*)\s*:\s*([A-Za-z0-9_]+)$", p)
                if not pm:
                    raise Bad("unsupported parameter `%s`" % p)
                if pm.group(2) not in WIDTH:
                    raise Bad("unsupported parameter type `%s`" % pm.group(2))
                params.append((pm.group(1), pm.group(2)))
            ret = f["ret"]
            if ret not in WIDTH and ret != "bool":
                raise Bad("unsupported return type `%s`" % ret)
            ast = parse_body(f["body"])
            if "debug_assert!" in f["body"]:
                notes.append("%s: debug_assert!(..) not translated (no value)" % n)
            if has_self:
                fl = []
                self_fields(ast, fl)
                for x in fl:
                    # every field of `self` the body reads becomes an extra parameter (all usize here)
                    m = re.search(r"\b%s\s*:\s*([A-Za-z0-9_]+)\s*," % re.escape(x),
                                  src[src.find("pub struct Dlmalloc"):])
                    fty = m.group(1) if m else None
                    if fty not in WIDTH:
                        raise Bad("self.%s has unsupported type %s" % (x, fty))
                    params.append(("self." + x, fty))
            W.fns[n] = {"params": params, "ret": ret, "ast": ast,
                        "cfg_debug": "cfg(debug_assertions)" in f["attrs"]}
        except Bad as ex:
            problems.append("fn %s: %s" % (n, ex))
    return W, problems, notes


def lean_param(n):
    return n[5:] if n.startswith("self.") else n


def generate(repo="/repo"):
    """-> (ok, lean_text, problems)"""
    W, problems, notes = build_world(repo)
    items = {}  # name -> (text, refs)
    for cname, ty in SIZEOFS.items():
        if ty in W.sizeof:
            items[cname] = ("/-- `mem::size_of::<%s>()` (repr(C) layout, x86_64) -/\nabbrev %s : Nat := %d\n"
                            % (ty, cname, W.sizeof[ty][1]), [])
    for n in CONSTS:
        if n not in W.consts:
            continue
        ty, ast = W.consts[n]
        try:
            em = Emit(W)
            body = strip_outer(em.go(ast, ty, {}))
            if infer(ast, {}, W) not in (None, ty):
                raise Bad("initialiser has type %s, declared %s" % (infer(ast, {}, W), ty))
            items[n] = ("abbrev %s : Nat := %s\n" % (n, body), em.refs)
        except Bad as ex:
            problems.append("constant %s: %s" % (n, ex))
    for n in FNS:
        if n not in W.fns:
            continue
        f = W.fns[n]
        try:
            env = {p: t for p, t in f["params"]}
            em = Emit(W)
            body = strip_outer(em.go(f["ast"], f["ret"], env))
            rt = infer(f["ast"], env, W)
            if rt not in (None, f["ret"]):
                raise Bad("body has type %s, declared %s" % (rt, f["ret"]))
            ps = " ".join(lean_param(p) for p, _ in f["params"])
            sig = "def %s%s : %s :=" % (n, (" (%s : Nat)" % ps) if ps else "", "Bool" if f["ret"] == "bool" else "Nat")
            if f["ret"] == "bool":
                body = "decide (%s)" % body
            doc = "/-- `fn %s(%s) -> %s`%s -/\n" % (
                n, ", ".join("%s: %s" % (p, t) for p, t in f["params"]), f["ret"],
                " (`#[cfg(debug_assertions)]`)" if f["cfg_debug"] else "")
            items[n] = (doc + sig + "\n  " + body + "\n", [r for r in em.refs if r != n])
        except Bad as ex:
            problems.append("fn %s: %s" % (n, ex))
    # dependency order (stable: target-list order, dependencies first)
    order, state = [], {}

    def visit(n, stack):
        if state.get(n) == 2:
            return
        if state.get(n) == 1:
            problems.append("dependency cycle through %s" % " -> ".join(stack + [n]))
            return
        state[n] = 1
        for r in items[n][1]:
            if r in items:
                visit(r, stack + [n])
            else:
                problems.append("%s refers to %s, which could not be translated" % (n, r))
        state[n] = 2
        order.append(n)

    for n in list(SIZEOFS) + CONSTS + FNS:
        if n in items:
            visit(n, [])
    # sanity self-check on the parsed trees
    ev = Eval(W)
    vals = {}
    try:
        for cname, ty in SIZEOFS.items():
            if ty in W.sizeof:
                vals[cname] = W.sizeof[ty][1]
        for n in CONSTS:
            if n in W.consts and n in items:
                vals[n] = ev.const(n)
        for n in ("top_foot_size", "mmap_foot_pad", "const_max_request"):
            if n in W.fns and n in items:
                vals[n] = ev.call(n, [])
        for n, v in EXPECT.items():
            if n in vals and vals[n] != v:
                problems.append("self-check: %s evaluates to %d, expected %d on x86_64" % (n, vals[n], v))
        if "MAX_REQUEST" in vals and not all(k in vals for k in ("MIN_CHUNK_SIZE", "DEFAULT_GRANULARITY", "top_foot_size", "MALLOC_ALIGNMENT", "CHUNK_OVERHEAD")):
            pass
        elif "MAX_REQUEST" in vals:
            m = 2 ** 64
            a = ((m - vals["MIN_CHUNK_SIZE"]) * 4) % m
            b = ((m - (vals["DEFAULT_GRANULARITY"] + vals["top_foot_size"] + vals["MALLOC_ALIGNMENT"]))
                 & (m - 1 - vals["MALLOC_ALIGNMENT"])) - vals["CHUNK_OVERHEAD"] + 1
            if vals["MAX_REQUEST"] != min(a, b):
                problems.append("self-check: MAX_REQUEST evaluates to %d, expected %d" % (vals["MAX_REQUEST"], min(a, b)))
    except (Bad, KeyError, RecursionError) as ex:
        problems.append("self-check: evaluation failed: %r" % (ex,))
    out = [PRELUDE]
    for n in order:
        out.append(items[n][0])
    have = [n for n in FNS if n in items]
    out.append("/-- names of the translated functions (differential evaluator) -/\ndef pureFns : List String :=\n  [%s]\n"
               % ", ".join('"%s"' % n for n in have))
    out.append("/-- names of the translated constants -/\ndef pureConsts : List String :=\n  [%s]\n"
               % ", ".join('"%s"' % n for n in list(CONSTS) + list(SIZEOFS) if n in items))
    out.append("end TinyVerif.Dl\n")
    return (not problems), "\n".join(out), problems


def split_problems(problems):
    """-> (translation problems, self-check value mismatches)"""
    soft = [p for p in problems if p.startswith("self-check: ") and "evaluates to" in p]
    return [p for p in problems if p not in soft], soft


def write_if_changed(path, text):
    try:
        with open(path, encoding="utf-8") as f:
            if f.read() == text:
                return False
    except OSError:
        pass
    os.makedirs(os.path.dirname(path), exist_ok=True)
    tmp = path + ".tmp%d" % os.getpid()
    with open(tmp, "w", encoding="utf-8") as f:
        f.write(text)
    os.replace(tmp, path)
    return True


# ------------------------------------------------------------------ differential case stream

def pure_cases(rng, n_random=200):
    """boundary-biased op lines `pure <fn> <args…>` / `pure const <NAME>` for the differential run of
    Model/DlPureEval.lean (`evalPure`) against harness/c03/src/pure_body.rs (`eval_pure`).
    Argument domains are those in which the real (debug-build) code does not overflow."""
    out = []
    for c in list(CONSTS) + list(SIZEOFS):
        out.append("pure const %s" % c)
    for f in ("const_max_request", "top_foot_size", "mmap_foot_pad"):
        out.append("pure %s" % f)
    sizes = {0, 1}
    for m in range(0, 601, 8):
        sizes.update((max(0, m - 1), m, m + 1))
    for k in range(0, 41):
        sizes.update((2 ** k - 1, 2 ** k, 2 ** k + 1))
    for i in range(0, 33):
        s = (1 << ((i >> 1) + 8)) | ((i & 1) << ((i >> 1) + 7))
        sizes.update((s - 8, s - 1, s, s + 1, s + 8))
    for _ in range(n_random):
        sizes.add(rng.randrange(0, 2 ** rng.randrange(1, 41)))
    sizes = sorted(sizes)
    big = [2 ** 63 - 1, 2 ** 63, 2 ** 64 - 65640, 2 ** 64 - 65639, 2 ** 64 - 256, 2 ** 64 - 1]
    for s in sizes:
        for f in ("pad_request", "request2size", "small_index", "is_small", "is_aligned",
                  "align_offset_usize", "mmap_align", "compute_tree_index"):
            out.append("pure %s %d" % (f, s))
    for s in big:  # no arithmetic on the argument: whole usize range is fine
        for f in ("small_index", "is_small", "is_aligned", "compute_tree_index"):
            out.append("pure %s %d" % (f, s))
    for s in sizes[::7] + big:
        for t in (0, 1, s - 1 if s else 0, s, s + 1 if s < 2 ** 64 - 1 else s, 2 * 1024 * 1024, 2 ** 64 - 1):
            out.append("pure should_trim %d %d" % (s, t))
    for k in range(0, 14):
        al = 2 ** k
        for a in sizes[::3] + [al - 1, al, al + 1, 2 * al - 1, 2 * al, 2 ** 40, 2 ** 40 + al - 1, 2 ** 40 + al]:
            out.append("pure align_up %d %d" % (a, al))
    bits = set()
    for i in range(32):
        bits.add(1 << i)
        for j in range(i + 1, 32):
            bits.add((1 << i) | (1 << j))
    bits.update((0xffffffff, 0xfffffffe, 0x80000001, 0x7fffffff))
    for _ in range(n_random):
        bits.add(rng.randrange(1, 2 ** 32))
    for x in sorted(bits):
        out.append("pure left_bits %d" % x)
        out.append("pure least_bit %d" % x)   # x = 0 excluded: `!0u32 + 1` overflows (callers pass x ≠ 0)
    out.append("pure left_bits 0")
    for i in range(0, 32):
        out.append("pure leftshift_for_tree_index %d" % i)
    for i in range(0, 33):
        out.append("pure min_size_for_tree_index %d" % i)
    for i in sorted(set(list(range(0, 70)) + [255, 256, 2 ** 16, 2 ** 29 - 1] + [rng.randrange(0, 2 ** 29) for _ in range(20)])):
        out.append("pure small_index2size %d" % i)
    return out


def main(argv=None):
    import argparse
    ap = argparse.ArgumentParser(description=__doc__.split("\n")[0])
    ap.add_argument("--repo", default=os.environ.get("VERIF_REPO", "/repo"))
    ap.add_argument("--out", default=OUT)
    ap.add_argument("--check", action="store_true", help="do not write; exit 1 if the file is stale or problems")
    ap.add_argument("--print", action="store_true", help="print the generated text")
    a = ap.parse_args(argv)
    ok, text, problems = generate(a.repo)
    for p in problems:
        print("dl_extract: PROBLEM: %s" % p, file=sys.stderr)
    if a.print:
        sys.stdout.write(text)
    if a.check:
        try:
            with open(a.out, encoding="utf-8") as f:
                same = f.read() == text
        except OSError:
            same = False
        if not same:
            print("dl_extract: %s is stale" % a.out, file=sys.stderr)
        return 0 if (ok and same) else 1
    hard, soft = split_problems(problems)
    if hard:
        print("dl_extract: %d problem(s); %s NOT written" % (len(problems), a.out), file=sys.stderr)
        return 1
    changed = write_if_changed(a.out, text)
    print("dl_extract: %s %s" % (a.out, "written" if changed else "unchanged"))
    if soft:
        # everything was translated, but a value differs from the x86_64 expectation: either the source
        # changed a constant (then the Lean lemmas `…_eq` and the differential run say so too) or a
        # translator bug; the file is written so that both can be examined
        print("dl_extract: %d self-check mismatch(es)" % len(soft), file=sys.stderr)
        return 2
    return 0


if __name__ == "__main__":
    sys.exit(main())
