"""C12 — no operation leaks, double-closes or steals a descriptor, on success or on failure.

Proof: Props/C12.lean (`chk_sound`: the all-paths checker implies LeakFree for every oracle; `all_ops_leakfree`: every
operation script of the current code passes it; witnesses for the code before the repairs).
Tie C: every scenario x every index k of the calls it performs x every errno class (plus forced values 0 / short for
read-like calls, plus second faults on the new paths a first fault opens, plus faults in the forked child of spawn) runs the
REAL operation in a fresh process under the sc-shim handler of harness/c12; the recorded answers are fed to the model's
`exec`; call names, outcome, handed/leaked/foreign/double-close counts must agree.
Judge (independent of the model): the property itself, read off the process's descriptor table before / after /
after-drop and off the close calls in the trace.
Entry state of the descriptor table: every scenario and every one-fault case is ALSO run with each non-empty subset of
{0,1,2} free at entry (`scenario@02`: the operation's creations land on the standard numbers) and with the table nearly
full (`scenario@lim<k>`: RLIMIT_NOFILE leaves k numbers, the next creation gets a real EMFILE).  The census is by identity
(every foreign number must still name the same open file description as a witness dup taken before), not by number; the
model's number-level view (`FdScript.execK`: lowest-free allocation from the entry table) must predict the numbers the
creations received and the final table.
Build profile: the streams run against TWO compiled artefacts of the same working tree, the harness built in the dev
profile (debug assertions on, opt-level 0) and in the release profile (debug assertions off, opt-level 2): clean-up that
only exists under cfg(debug_assertions) / inside debug_assert! (or only without it) differs between the two, and the
script describes neither compiler setting but the source.  Stream names, violations and replays carry the profile.
io_uring: `setup_io_uring` and `drop(ring)` (Drop of IoUring as an operation owning the ring fd) are scenarios too, with
and without IORING_FEAT_SINGLE_MMAP; descriptors only — the mappings' balance is C18's.
Receiving descriptors: `recvmsg_rights_<k>_<len>` — the peer sent k descriptors (SCM_RIGHTS), the operation is rusl recvmsg with
a control buffer of <len> bytes + control_messages(); what the kernel installed and the iterator did not yield is a leak.
"""
import json

from . import common as C

EINTR, EIO, EBADF, EAGAIN, ENOMEM, EACCES, EMFILE, ENOENT, EEXIST, EINPROGRESS = 4, 5, 9, 11, 12, 13, 24, 2, 17, 115
ERRNOS = [EINTR, EAGAIN, EMFILE, ENOMEM, EACCES, EIO]
SPECIAL = {"connect": [EINPROGRESS], "mkdirat": [ENOENT, EEXIST], "newfstatat": [ENOENT], "accept4": []}
SECOND = [EINTR, EIO]
VALUES = {"read": [0, 3, 8], "write": [0, 3], "ppoll": [0], "getdents64": [0], "copy_file_range": [0, 100]}
NO_VALUE_FAULT = {"fork", "clone"}
CHILD_ERRNOS = [EBADF, EACCES, EINTR]

COPY_SIZE = {"file_copy": 3000, "fs_copy_file": 3000, "fs_copy_file_empty": 0}


def toks(tr):
    """'name:v5!,name:e2' -> [(name, 'v5', forced)]"""
    if tr == "-":
        return []
    out = []
    for t in tr.split(","):
        n, r = t.split(":")
        if out and out[-1][0] == n and out[-1][1] == "?":
            out.pop()  # `execve:?` (written before the call) followed by its real result: it came back
        out.append((n, r.rstrip("!"), r.endswith("!")))
    return out


ENTRY_SETS = ["0", "1", "2", "01", "02", "12", "012"]


def scen_of(case):
    """scenario name without the entry-state suffix"""
    return case.split()[0].split("@")[0]


def entry_of(case):
    w = case.split()[0]
    return w.split("@", 1)[1] if "@" in w else "-"


# ---- outcomes of the data-dependent steps, per scenario (what the model's `step` nodes are told) ----

def steps_write(total):
    def f(tr, out, ents):
        s, done = "1", 0
        for n, r, _ in tr:
            if n == "write" and r[0] == "v" and int(r[1:]) > 0:
                done += int(r[1:])
                s += "1" if done >= total else "0"
        return s
    return f


def steps_copy(prefix, size):
    def f(tr, out, ents):
        s, done, seen_open = prefix, 0, 0
        names = [n for n, _, _ in tr]
        if "newfstatat" not in names or tr[names.index("newfstatat")][1][0] == "e":
            return s
        s += "1"  # dest open options valid
        opens = [i for i, (n, r, _) in enumerate(tr) if n == "openat"]
        need = 2 if prefix else 1
        if len(opens) < need or tr[opens[need - 1]][1][0] == "e":
            return s
        s += "1" if size - done > 0 else "0"
        for n, r, _ in tr:
            if n == "copy_file_range" and r[0] == "v" and int(r[1:]) > 0:
                done += int(r[1:])
                s += "1" if size - done > 0 else "0"
        return s
    return f


def steps_remove_all(skip_open):
    """replay the directory walk against the observed answers to know what every entry test decided"""
    def f(tr, out, ents):
        it = iter(tr[1:] if skip_open else tr)
        dirs = iter(ents.split("/"))
        s = []

        class Stop(Exception):
            pass

        def nxt(name):
            try:
                n, r, _ = next(it)
            except StopIteration:
                raise Stop()
            if n != name:
                raise Stop()
            return r

        def level():
            buf, listed = [], False
            while True:
                if buf:
                    s.append("1")
                    e = buf.pop(0)
                    if e in "rd":
                        s.append("1")
                        if e == "r":
                            s.append("1")
                            continue
                        s.append("0")
                        if nxt("openat")[0] == "e":
                            return False
                        okk = level()
                        if not okk:
                            nxt("close")
                            return False
                        r = nxt("unlinkat")
                        nxt("close")
                        if r[0] == "e":
                            return False
                    else:
                        s.append("0")
                        if nxt("unlinkat")[0] == "e":
                            return False
                else:
                    s.append("0")
                    r = nxt("getdents64")
                    if r[0] == "e":
                        return False
                    if r == "v0":
                        return True
                    if not listed:
                        listed = True
                        buf = list(next(dirs, ""))
        try:
            if not (skip_open and tr and tr[0][1][0] == "e"):
                level()
        except Stop:
            pass
        return "".join(s)
    return f


def steps_mkdir(tr, out, ents):
    s = "1"
    for i, (n, r, _) in enumerate(tr):
        s += "1"
        if r[0] == "e":
            s += "1" if (i == len(tr) - 1 and out.startswith("err")) else "0"
    if not out.startswith("err"):
        s += "0"
    return s


def steps_getpw(tr, out, ents):
    s = ""
    reads = [(n, r) for n, r, _ in tr if n == "read"]
    if not reads or reads[0][1][0] == "e":
        return s
    for n, r in reads[1:]:
        s += "0"
        if r[0] == "e":
            return s
    return s + "1" + ("0" if out.startswith("err") else "1")


def steps_spawn(tr, out, ents):
    return "".join("0" if forced else "1" for n, r, forced in tr if n == "read" and r == "v8")


def steps_single(tr, out, ents):
    return "1" if ents == "S" else "0"


def const(s):
    return lambda tr, out, ents: s


# harness scenario -> (model script, step outcomes)
SCEN = {
    "file_open": ("file_open", const("1")), "file_open_missing": ("file_open", const("1")),
    "file_create": ("file_open", const("1")), "file_badopts": ("file_open", const("0")),
    "fs_read": ("fs_read", const("1")), "fs_read_to_string": ("fs_read_to_string", const("11")),
    "fs_write": ("fs_write", steps_write(10)),
    "file_copy": ("file_copy", steps_copy("", 3000)), "fs_copy_file": ("fs_copy_file", steps_copy("1", 3000)),
    "fs_copy_file_empty": ("fs_copy_file", steps_copy("1", 0)),
    "dir_open": ("dir_open", const(".")), "dir_open_missing": ("dir_open", const(".")), "dir_read": ("dir_read", const(".")),
    "dirent_open_file": ("dirent_open", const("1")), "dirent_open_dir": ("dirent_open", const("1")),
    "dirent_open_wrongtype": ("dirent_open", const("0")),
    "remove_dir_all": ("remove_dir_all", steps_remove_all(True)), "dir_remove_all": ("dir_remove_all", steps_remove_all(False)),
    "create_dir_all": ("create_dir_all", steps_mkdir),
    "unix_connect": ("unix_connect", const("1")), "unix_connect_nolistener": ("unix_connect", const("1")),
    "unix_connect_longpath": ("unix_connect", const("0")),
    "unix_try_connect": ("unix_try_connect", const("1")), "unix_try_connect_nolistener": ("unix_try_connect", const("1")),
    "unix_try_connect_longpath": ("unix_try_connect", const("0")),
    "unix_bind": ("unix_bind", const("1")), "unix_bind_inuse": ("unix_bind", const("1")), "unix_bind_longpath": ("unix_bind", const("0")),
    "unix_accept": ("accept", const(".")), "unix_try_accept": ("try_accept", const(".")), "unix_try_accept_none": ("try_accept", const(".")),
    "unix_accept_timeout": ("accept_timeout", const("1")), "unix_accept_timeout_none": ("accept_timeout", const("1")),
    "tcp_connect": ("tcp_connect", const(".")), "tcp_connect_refused": ("tcp_connect", const(".")),
    "tcp_connect_timeout": ("tcp_connect_timeout", const("1")), "tcp_try_connect": ("tcp_try_connect", const(".")),
    "tcp_inprogress_try": ("tcp_inprogress_try", const(".")), "tcp_inprogress_block": ("tcp_inprogress_block", const(".")),
    "tcp_bind": ("tcp_bind", const(".")), "tcp_bind_inuse": ("tcp_bind", const(".")),
    "tcp_accept": ("accept", const(".")), "tcp_try_accept": ("try_accept", const(".")), "tcp_try_accept_none": ("try_accept", const(".")),
    "tcp_accept_timeout": ("accept_timeout", const("1")), "tcp_accept_timeout_none": ("accept_timeout", const("1")),
    # round 8 (C12-m9): ARGUMENTS A PURE STEP REJECTS - a timeout no TimeSpec can hold (Duration::MAX, i64::MAX + 1 s): the
    # model's step "timeout fits a TimeSpec" takes its failure branch; no system call fails on that path, so the fault sweep
    # alone never reaches it (a connection is pending, so a wrongly accepted timeout would hand a descriptor out)
    "unix_accept_timeout_huge": ("accept_timeout", const("0")), "unix_accept_timeout_huge2": ("accept_timeout", const("0")),
    "tcp_accept_timeout_huge": ("accept_timeout", const("0")), "tcp_accept_timeout_huge2": ("accept_timeout", const("0")),
    "tcp_connect_timeout_huge": ("tcp_connect_timeout", const("0")), "tcp_connect_timeout_huge2": ("tcp_connect_timeout", const("0")),
    "spawn_inherit": ("spawn_inherit", steps_spawn), "spawn_null": ("spawn_null", steps_spawn), "spawn_pipe": ("spawn_pipe", steps_spawn),
    "spawn_mixed": ("spawn_mixed", steps_spawn), "spawn_rawfd": ("spawn_rawfd", steps_spawn), "spawn_noexec": ("spawn_inherit", steps_spawn),
    "spawn_rawfd_late": ("spawn_rawfd_late", steps_spawn),
    "pipe2": ("pipe2", const(".")), "epoll_create": ("epoll_create", const(".")), "epoll_use": ("epoll_use", const(".")),
    "getpwuid": ("getpwuid", steps_getpw), "getpwuid_last": ("getpwuid", steps_getpw),
    "openpty": ("openpty", const("1")), "openpty_named": ("openpty_named", const(".")), "openpty_tio": ("openpty_tio", const("1")),
    # rusl's io_uring: set-up, and Drop as the operation `drop(ring)` (owns the ring fd on entry); `ents` = S / N: does the code
    # see IORING_FEAT_SINGLE_MMAP (the kernel's answer to a probe; `_nosingle` hides it)
    "io_uring_setup": ("io_uring_setup", steps_single), "io_uring_setup_nosingle": ("io_uring_setup", steps_single),
    "io_uring_drop": ("io_uring_drop", steps_single), "io_uring_drop_nosingle": ("io_uring_drop", steps_single),
}


def recv_bufs(k):
    """control buffer sizes for k passed descriptors: none, a bare header, one descriptor short (MSG_CTRUNC), exactly
    CMSG_LEN(4k) (NOT a multiple of 8 for odd k), CMSG_SPACE(4k), large"""
    ln = 16 + 4 * k
    return sorted({0, 16, ln - 4, ln, (ln + 7) & ~7, 64})


def steps_recv(k, buflen):
    """KERNEL CONTRACT (net/core/scm.c scm_detach_fds): of the k descriptors of the message the kernel installs as many as
    the control buffer has room for behind one header, (len-16)/4, and as the table has room for (`@lim<j>`)"""
    def f(tr, out, ents, case):
        n = min(k, max(0, (buflen - 16) // 4))
        e = entry_of(case)
        if e.startswith("lim"):
            n = min(n, int(e[3:]))
        return "".join("1" if n >= i else "0" for i in range(1, min(n + 1, 4) + 1))
    f.wants_case = True
    return f


for _k in (1, 2, 3, 4):
    for _b in recv_bufs(_k):
        SCEN["recvmsg_rights_%d_%d" % (_k, _b)] = ("recvmsg_rights", steps_recv(_k, _b))
SPAWN = {k for k in SCEN if k.startswith("spawn_")}


PATH_CALLS = ("mkdirat", "mkdir", "newfstatat", "statx", "stat")


def parse(line):
    d = {}
    for t in line.split():
        if "=" in t:
            k, v = t.split("=", 1)
            d[k] = v
    return d


def canon_names(scenario, names):
    """create_dir_all opens nothing: its script only says `a path-level call`, whichever (mkdirat / newfstatat)"""
    if scenario == "create_dir_all":
        return ["path-call" if n in PATH_CALLS else n for n in names]
    return names


def fault_call(case, d):
    """name of the (last) call the case made fail, for signatures and histograms"""
    f = case.split()[1]
    if f == "-":
        if entry_of(case).startswith("lim"):
            # the table was nearly full: the call that failed is the first one the kernel refused with EMFILE
            return next((n for n, r, forced in toks(d.get("trace", "-")) if r == "e%d" % EMFILE and not forced), "-")
        return "-"
    last = f.split(",")[-1]
    child = last.startswith("c")
    k = int(last.lstrip("c").split(":")[0])
    tr = toks(d.get("child", "-")) if child else toks(d.get("trace", "-"))
    tr = [t for t in tr if t[0] not in ("returned",)]
    return ("child:" if child else "") + (tr[k][0] if k < len(tr) else "?")


def judge(case, out):
    """the property itself, on what the harness measured of the real process"""
    if out.startswith("hang"):
        return "hang: the operation did not return"
    if out.startswith("crash") or out == "bad-op":
        return "crash: " + out
    d = parse(out)
    if d.get("out") == "panic":
        return "panic: the operation panicked"
    if (int(d["leaked"]) or int(d["residue"])) and scen_of(case).startswith("recvmsg_rights_"):
        k, ln = scen_of(case).split("_")[2:4]
        return ("leak: the peer sent %s descriptor(s), control buffer of %s bytes: the kernel installed the numbers [%s] in the table, "
                "control_messages() handed %s of them to the caller; %s still open with nobody knowing the number"
                % (k, ln, d.get("nums", "?"), d["handed"], max(int(d["leaked"]), int(d["residue"]))))
    if int(d["leaked"]) or int(d["residue"]):
        return "leak: %s descriptor(s) opened by the operation are still open and were not handed to the caller" % max(int(d["leaked"]), int(d["residue"]))
    if int(d["dangling"]):
        return "dangling: a descriptor handed to the caller is not open"
    if int(d["stolen"]) or int(d["foreign"]):
        return "steal: the operation closed a descriptor it does not own"
    if int(d.get("replaced", 0)):
        return "steal: a number that was open at entry now names another open file (closed by the operation, number reused)"
    if int(d["dbl"]) or int(d["dropbad"]):
        return "double-close: a descriptor was closed twice"
    ch = toks(d.get("child", "-"))
    for n, r, _ in ch:
        if n == "returned" and r != "leaked0":
            return "leak: the forked child returned from the operation holding %s extra descriptor(s)" % r[6:]
    return None


def sig_of(case, out, why):
    d = parse(out) if "=" in out else {}
    return {"scenario": scen_of(case), "entry": entry_of(case), "kind": why.split(":")[0], "call": fault_call(case, d) if d else "?"}


# model script -> outcomes ('0' fails / '1' passes) its FIRST pure step (`.step`: argument validation, conversion) was driven to.
# A step that only ever passes leaves its failure branch to the theorem alone (C12-m9 hid there): reported in coverage.
STEP_OUTCOMES = {}


def model_lines(case, out):
    """driver input for the caller's view (and the forked child's view) of one measured case"""
    name = scen_of(case)
    d = parse(out)
    script, stepf = SCEN[name]
    tr = toks(d["trace"])
    ans = ",".join(r for _, r, _ in tr) or "."
    if getattr(stepf, "wants_case", False):
        steps = stepf(tr, d["out"], d.get("ents", "-"), case) or "."
    else:
        steps = stepf(tr, d["out"], d.get("ents", "-")) or "."
    if steps != ".":
        STEP_OUTCOMES.setdefault(script, set()).add(steps[0])
    # the caller's view runs against a kernel table: the numbers open at entry, the numbers the operation was given
    lines = ["K cur %s a=%s s=%s t=%s own=%s" % (script, ans, steps, d["tab"], d["own"])]
    ch = [t for t in toks(d.get("child", "-")) if t[0] not in ("exit", "exit_group", "returned")]
    if d.get("child", "-") != "-":
        fk = [i for i, t in enumerate(tr) if t[0] == "fork"]
        pre = ",".join(r for _, r, _ in tr[:fk[0] + 1]) if fk else ans
        cans = ",".join("v0" if r == "?" else r for _, r, _ in ch) or "."
        lines.append("cur %s a=%s s=%s ca=%s cs=%s" % (script, pre, ".", cans, "1111"))
    return lines


def expect_from_impl(case, out):
    """what the model must print for the caller's view / the child's view"""
    d = parse(out)
    tr = toks(d["trace"])
    o = "ok" if d["out"] in ("ok", "none") else ("err" if d["out"].startswith("err") else d["out"])
    exp = ["out=%s trace=%s handed=%s leaked=%s dangling=%s foreign=%s dbl=%s unused=0 nums=%s fin=%s"
           % (o, ",".join(canon_names(scen_of(case), [n for n, _, _ in tr])) or "-", d["handed"], d["leaked"], d["dangling"], d["foreign"], d["dbl"],
              d["nums"], d["fin"])]
    if d.get("child", "-") != "-":
        ch = toks(d["child"])
        names = [n for n, _, _ in ch if n not in ("exit", "exit_group", "returned")]
        fk = [i for i, t in enumerate(tr) if t[0] == "fork"]
        pre = [n for n, _, _ in tr[:fk[0] + 1]] if fk else []
        ret = [r for n, r, _ in ch if n == "returned"]
        if ret:
            co, leaked = "err", ret[0][6:]
        elif ch and ch[-1][0] == "execve" and ch[-1][1] == "?":
            co, leaked = "execs", "0"
        else:
            co, leaked = "exits", "0"
        exp.append("out=%s trace=%s leaked=%s" % (co, ",".join(pre + names), leaked))
    return exp


def model_view(line, child):
    d = parse(line)
    if child:
        return "out=%s trace=%s leaked=%s" % (d.get("out"), d.get("trace"), d.get("leaked"))
    return line


def errno_class(f):
    if f == "-":
        return "none"
    w = f.split(",")[-1].split(":")[1]
    return {"e4": "EINTR", "e11": "EAGAIN", "e24": "EMFILE", "e12": "ENOMEM", "e13": "EACCES"}.get(w, "value" if w[0] == "v" else "other")


PROFILES = ("dev", "release")
URING = ("io_uring_setup", "io_uring_setup_nosingle", "io_uring_drop", "io_uring_drop_nosingle")


def build(ctx, profile):
    """the harness (and with it rusl / tiny-std from /repo's working tree) in one cargo profile of harness/Cargo.toml:
    dev = opt-level 0, debug assertions and overflow checks ON; release = opt-level 2, both OFF.  cargo keeps the two in
    target/debug and target/release: neither rebuilds the other."""
    return C.cargo_build(ctx, "c12", release=(profile == "release"))


def run_cases(ctx, exe, drv, cases, stream, profile="dev"):
    """measure, judge, and compare with the model; returns the measured outputs"""
    stream = "%s/%s" % (profile, stream)
    rc, outs, err = C.run_filter([exe], cases, timeout=1500)
    ctx.evaluations += len(cases)
    st = ctx.extra.setdefault("streams", {}).setdefault(stream, {"cases": 0, "disagreements": 0, "spec_failures": 0})
    st["cases"] += len(cases)
    pf = ctx.extra.setdefault("profiles", {}).setdefault(profile, {"cases": 0, "spec_failures": 0, "disagreements": 0})
    pf["cases"] += len(cases)
    if len(outs) != len(cases):
        ctx.violation({"stream": stream, "kind": "harness-died", "profile": profile}, {"rc": rc, "stderr": err[-400:], "profile": profile}, no_input=True)
        return []
    # a case killed by the 8 s watchdog on a machine under load is not a hang of the operation: a real one is
    # deterministic and shows again when the case is run once more, with fewer neighbours (at most 8 cases per stream,
    # 24 per run: a change that makes many cases hang does not buy itself minutes of retries)
    hung = [i for i, o in enumerate(outs) if o.startswith("hang")]
    budget = ctx.extra.setdefault("watchdog_retries", {"tried": 0, "not_reproduced": 0})
    if hung and len(hung) <= 8 and budget["tried"] + len(hung) <= 24:
        budget["tried"] += len(hung)
        _, again, _ = C.run_filter([exe], [cases[i] for i in hung], timeout=600, env={"C12_JOBS": "4"})
        if len(again) == len(hung):
            for i, o in zip(hung, again):
                if not o.startswith("hang"):
                    outs[i] = o
                    budget["not_reproduced"] += 1
    mlines, owner = [], []
    for i, (c, o) in enumerate(zip(cases, outs)):
        why = judge(c, o)
        if why:
            st["spec_failures"] += 1
            pf["spec_failures"] += 1
            sig = sig_of(c, o, why)
            sig["profile"] = profile
            ctx.violation(sig, {"stream": stream, "profile": profile, "case": c, "implementation": o, "why": why,
                                "how_to_replay": "echo '%s' | %s   # the harness built in the %s profile (cargo build -p c12%s)"
                                                 % (c, exe, profile, " --release" if profile == "release" else "")})
        if "=" in o and parse(o).get("out") not in (None, "panic"):
            for j, ml in enumerate(model_lines(c, o)):
                mlines.append(ml)
                owner.append((i, j))
    rc, mouts, err = C.run_filter(drv, mlines, timeout=600)
    if len(mouts) != len(mlines):
        ctx.broken.append({"driver_failed": stream, "stderr": err[-300:]})
        ctx.violation({"stream": stream, "kind": "driver-failed"}, {"stderr": err[-300:]}, no_input=True)
        return outs
    dis = []
    for (i, j), ml, mo in zip(owner, mlines, mouts):
        exp = expect_from_impl(cases[i], outs[i])[j]
        got = model_view(mo, j == 1)
        if exp != got:
            dis.append({"profile": profile, "case": cases[i], "view": "child" if j else "caller", "implementation": outs[i], "model_input": ml,
                        "model": mo, "expected_of_model": exp})
    st["disagreements"] += len(dis)
    pf["disagreements"] += len(dis)
    if dis:
        ctx.extra.setdefault("disagreements", []).extend(dis[:5])
    return outs


def sweep(ctx, exe, drv, profile, full):
    """all streams against ONE compiled artefact.  `full`: every stream complete (up to the tier's caps); otherwise the
    complete fault-free runs (ordinary table, every entry state, table nearly full) and the complete one-fault sweep on the
    ordinary table, with the one-fault sweep under the entry states and the deeper levels sampled from VERIF_SEED."""
    quick = ctx.tier == "quick"
    pf = ctx.extra.setdefault("profiles", {}).setdefault(profile, {"cases": 0, "spec_failures": 0, "disagreements": 0})
    pf["binary"] = exe
    pf["scope"] = "complete" if full else "fault-free complete, one-fault complete on the ordinary table, entry-state one-fault and deeper levels sampled"
    names = sorted(SCEN)
    # io_uring may be unavailable (old kernel, seccomp): the set-up scenarios then just see the errno, `drop(ring)` has no ring
    _, probe, _ = C.run_filter([exe], ["io_uring_setup -"])
    pf["io_uring_available"] = bool(probe) and parse(probe[0]).get("out") == "ok"
    if not pf["io_uring_available"]:
        names = [n for n in names if not n.startswith("io_uring_drop")]
        ctx.broken.append({"io_uring": "setup_io_uring does not succeed on this kernel (%s): drop(ring) not exercised in the %s profile" % (probe[:1], profile)})
    base_tr = {}

    def level1_of(cases, outs):
        """every call of the run faulted with every errno class / forced value; records the run's call names"""
        lv = []
        for c, o in zip(cases, outs):
            if "=" not in o:
                continue
            n = c.split()[0]
            d = parse(o)
            tr = toks(d["trace"])
            base_tr[n] = [t[0] for t in tr]
            for k, (cn, r, _) in enumerate(tr):
                for e in ERRNOS + SPECIAL.get(cn, []):
                    lv.append("%s %d:e%d" % (n, k, e))
                if cn not in NO_VALUE_FAULT:
                    for v in VALUES.get(cn, []):
                        lv.append("%s %d:v%d" % (n, k, v))
            ch = [t for t in toks(d.get("child", "-")) if t[0] not in ("exit", "returned")]
            for k, (cn, r, _) in enumerate(ch):
                for e in CHILD_ERRNOS + ([ENOENT] if cn == "execve" else []):
                    lv.append("%s c%d:e%d" % (n, k, e))
        return lv

    def deeper(frontier, stream_fmt, cap):
        """further faults on the paths that only exist after an earlier fault"""
        got = []
        depth = 2 if quick else 3
        for lvl in range(2, depth + 1):
            nxt = []
            for c, o in frontier:
                n, f = c.split()
                if "=" not in o or f.split(",")[-1].startswith("c"):
                    continue
                tr = toks(parse(o)["trace"])
                kmax = int(f.split(",")[-1].split(":")[0])
                names_now = [t[0] for t in tr]
                if names_now[kmax + 1:] == base_tr.get(n, [])[kmax + 1:]:
                    continue  # same continuation as the fault-free run: already covered
                for j in range(kmax + 1, len(tr)):
                    for e in SECOND + SPECIAL.get(tr[j][0], []):
                        nxt.append("%s %s,%d:e%d" % (n, f, j, e))
                    for v in VALUES.get(tr[j][0], [])[:1]:
                        nxt.append("%s %s,%d:v%d" % (n, f, j, v))
            if not nxt:
                break
            nxt = sorted(set(nxt))
            if len(nxt) > cap:
                nxt = ctx.rng.shuffle(nxt)[:cap]
            o2 = run_cases(ctx, exe, drv, nxt, stream_fmt % lvl, profile)
            frontier = list(zip(nxt, o2))
            got += frontier
        return got

    cap = (1500 if quick else 20000) if full else 400
    # ---- the ordinary table (0,1,2 open, plenty of room)
    base_cases = ["%s -" % n for n in names]
    base = run_cases(ctx, exe, drv, base_cases, "fault-free", profile)
    if not base:
        return []
    level1 = level1_of(base_cases, base)
    outs1 = run_cases(ctx, exe, drv, level1, "one-fault", profile)
    allc = list(zip(base_cases, base)) + list(zip(level1, outs1))
    allc += deeper(list(zip(level1, outs1)), "%d-faults", cap)
    # ---- every non-empty subset of {0,1,2} free at entry: the creations land on the standard numbers
    ent_cases = ["%s@%s -" % (n, e) for n in names for e in ENTRY_SETS]
    ent = run_cases(ctx, exe, drv, ent_cases, "entry-fault-free", profile)
    ent1 = level1_of(ent_cases, ent)
    if not full and len(ent1) > 2000:
        pf["entry_one_fault_sampled"] = "2000 of %d" % len(ent1)
        ent1 = sorted(ctx.rng.shuffle(ent1)[:2000])
    ento1 = run_cases(ctx, exe, drv, ent1, "entry-one-fault", profile)
    allc += list(zip(ent_cases, ent)) + list(zip(ent1, ento1))
    allc += deeper(list(zip(ent1, ento1)), "entry-%d-faults", cap)
    # ---- the table nearly full: only k numbers left, the (k+1)-th creation gets a REAL EMFILE (also with 0 free)
    lim_cases = []
    for n, o in zip(names, base):
        if "=" not in o:
            continue
        nums = parse(o).get("nums", "-")
        cnt = 0 if nums == "-" else len(nums.split(","))
        lim_cases += ["%s@lim%d -" % (n, k) for k in range(min(cnt, 10))]
    limo = run_cases(ctx, exe, drv, lim_cases, "table-nearly-full", profile)
    allc += list(zip(lim_cases, limo))
    # per-profile coverage
    seen = set()
    for c, o in allc:
        if "=" not in o:
            continue
        d = parse(o)
        seen.add((scen_of(c), entry_of(c), fault_call(c, d), errno_class(c.split()[1]), d["out"].split(":")[0]))
        ctx.hist("outcomes_" + profile, d["out"].split(":")[0])
    pf["distinct_nontrivial"] = len(seen)
    pf["scenarios"] = len({scen_of(c) for c, o in allc if "=" in o})
    pf["model_scripts_exercised"] = len({SCEN[scen_of(c)][0] for c, o in allc if "=" in o})
    dr = [(c, o) for c, o in allc if scen_of(c).startswith("io_uring_drop") and "=" in o]
    pf["drop_of_IoUring"] = {"cases": len(dr), "released_the_ring_fd": sum(1 for c, o in dr if "close:" in parse(o)["trace"])}
    return allc


def run(ctx):
    ctx.rule = ("cases = every scenario (%d: each public descriptor-creating operation, incl. invalid arguments; io_uring set-up and "
                "drop(ring) with and without IORING_FEAT_SINGLE_MMAP; receiving k = 1..4 descriptors over a unix socket with control buffers of "
                "0 / 16 / CMSG_LEN-4 / CMSG_LEN / CMSG_SPACE / 64 bytes) x every index k of the "
                "system calls of its fault-free run x errno in {EINTR,EAGAIN,EMFILE,ENOMEM,EACCES,EIO} + call-specific "
                "{EINPROGRESS; ENOENT,EEXIST} + forced values (0, short) for read/write/ppoll/getdents64/copy_file_range, then a second "
                "fault at every call of the NEW path a first fault opened (thorough: a third), and for spawn every call of the forked "
                "child x {EBADF,EACCES,EINTR}; ALL OF THIS once with the ordinary descriptor table and once for each non-empty subset of "
                "{0,1,2} free at entry (7 entry states: the operation's creations land on the standard numbers), plus every scenario with "
                "the table nearly full (RLIMIT_NOFILE leaves k = 0..#creations-1 numbers: a real EMFILE at each creation); "
                "EVERY STREAM AGAINST TWO COMPILED ARTEFACTS: the harness (rusl + tiny-std from the working tree) built in the dev profile "
                "(opt-level 0, debug assertions + overflow checks on) and in the release profile (opt-level 2, both off) — thorough: all of it "
                "in both; quick: all of it in dev, and in release every fault-free run (all entry states, table nearly full) and the complete "
                "one-fault sweep on the ordinary table, the entry-state one-fault sweep (2000) and the deeper levels (400 each) sampled; "
                "coverage per profile under `profiles`; "
                "distinct_nontrivial = distinct (scenario, entry state, failed call name(s), errno class, outcome) "
                "observed on the implementation (either profile)" % len(SCEN))
    ctx.assumptions += [
        "the scripts of Model/FdScript.lean describe the operations' control flow (checked on every run: call names, outcome and "
        "descriptor counts of the real run equal exec(script, recorded answers) for every case)",
        "BUILD PROFILE: the model has no notion of it — a script describes the source, and says which calls are made whatever the compiler "
        "flags.  What is established is the correspondence, for BOTH compiled artefacts: dev (debug assertions on, unoptimised) and "
        "release (debug assertions off, optimised) builds of the same working tree each reproduce exec(script, answers) and each pass the "
        "judge, on the streams listed per profile.  Code under cfg(debug_assertions) / debug_assert! / cfg!(debug_assertions) therefore "
        "has to behave like the script in both.  Not explored: other flag combinations (optimised with debug assertions on, "
        "overflow-checks alone, panic=abort, LTO), other targets than x86_64-linux",
        "a forced failure of close() still releases the descriptor (Linux semantics; the harness performs the close, then reports the errno)",
        "outcomes of data-dependent steps (path too long, bytes remaining, directory entry kinds, search finished, whether the kernel "
        "reports IORING_FEAT_SINGLE_MMAP) are derived from the scenario's data and the recorded answers, and handed to the model as its step oracle",
        "Stdio::RawFd(fd) is treated as transferring ownership of fd to spawn (it is wrapped in an OwnedFd and closed by the caller-side "
        "of spawn); see the known finding about the paths where it is not",
        "io_uring: setup_io_uring and Drop of IoUring are operations of this property as far as DESCRIPTORS go (ring fd handed out / closed "
        "exactly once on every path, both profiles; Drop is run as the operation `drop(ring)` owning the ring fd on entry); the ring's "
        "MAPPINGS (each unmapped exactly once, with its length) are C18's and carry no effect in these scripts; a forced munmap failure "
        "is not executed (the mapping stays, no descriptor involved).  The recursion of remove_all is unrolled to depth 3 with the "
        "inductive step as a summary",
        "receiving descriptors (recvmsg_rights_<k>_<len>): KERNEL CONTRACT assumed as the model's step oracle — of the k descriptors of one "
        "SCM_RIGHTS message the kernel installs min(k, (controllen-16)/4, free numbers) and discards the rest (MSG_CTRUNC); checked on every "
        "case against the harness's own parse of the control buffer the kernel wrote (casekit::scm_rights_of, independent of rusl's iterator) "
        "and against the descriptor table.  The API side is rusl recvmsg + control_messages() with the caller taking every yielded descriptor; "
        "not exercised: several control messages in one call, IORING_OP_RECVMSG, datagram sockets",
        "descriptor tables are read with fcntl(F_GETFD) over 0..255; the harness keeps its own channels on numbers >= 100 (result line: "
        "a dup of stdout at >= 240, never fd 1) and closes the chosen subset of {0,1,2} after the scenario is set up, right before the "
        "operation; a witness dup of every foreign descriptor is compared with its number afterwards by kcmp(KCMP_FILE) (identity of the "
        "open file description, not the number)",
        "OBSERVED, not proved: the kernel hands a creation the lowest free number (the model's `lowestFree`); checked on every case: the "
        "numbers the real creations received and the real table after the operation equal what `execK` predicts from the entry table. "
        "That the code's behaviour does not depend on the numbers it receives is checked by running every case under every entry state",
        "entry states explored: which of 0,1,2 are free; nearly full (real EMFILE).  Not explored: a table with holes above 2, "
        "RLIMIT_NOFILE combined with free standard numbers",
    ]
    ctx.trusted += ["harness/c12 casekit (sc-shim handler executing/forcing/recording every system call of the operation, per process)",
                    "cargo/rustc profiles of harness/Cargo.toml ([profile.dev]: debug-assertions = true, opt-level 0; [profile.release]: "
                    "debug-assertions = false, opt-level 2): the two artefacts the correspondence is run against"]
    ok = C.lean_prove(ctx, "TinyVerif.Props.C12", drivers=["drv_c12"])
    exes = {}
    for profile in PROFILES:
        exe, err = build(ctx, profile)
        if exe is None:
            ctx.broken.append({"harness_build_failed": err, "profile": profile})
            ctx.violation({"kind": "harness-build-failed", "profile": profile}, {"error": err, "profile": profile}, no_input=True)
            return
        exes[profile] = exe
    exe = exes["dev"]
    drv = [C.driver_path("drv_c12")]
    allc = []
    for profile in PROFILES:
        got = sweep(ctx, exes[profile], drv, profile, full=(profile == "dev" or ctx.tier != "quick"))
        if not got:
            return
        allc += got
    # malformed lines are rejected by both sides (and by both artefacts)
    bad = ["nope -", "file_open x", "file_open 1:q4", "file_open", "file_open@ -", "file_open@3 -", "file_open@10 -", "file_open@lim -"]
    bo = []
    for profile in PROFILES:
        bo += C.run_filter([exes[profile]], bad)[1]
    rc, bm, _ = C.run_filter(drv, ["cur nope a=. s=. ca=- cs=-", "cur file_open a=x s=. ca=- cs=-", "zzz file_open a=. s=. ca=- cs=-", "cur",
                                   "K cur file_open a=v0 s=1 t=1,x own=-", "K cur file_open a=v0 s=1 t=1,2 own=7", "K cur tcp_inprogress_try a=e111,v0 s=. t=1,2 own=-",
                                   "K cur file_open a=v0 s=1 t=1,2", "K cur io_uring_drop a=v0,v0,v0 s=1 t=1,2 own=-"])
    ctx.evaluations += len(bad) * len(PROFILES)
    if any(x != "bad-op" for x in bo + bm):
        ctx.violation({"kind": "malformed-accepted"}, {"harness": bo, "driver": bm}, no_input=True)
    # coverage
    for c, o in allc:
        if "=" not in o:
            continue
        d = parse(o)
        n, f = c.split()
        ctx.count((scen_of(c), entry_of(c), fault_call(c, d), errno_class(f), d["out"].split(":")[0]))
        ctx.hist("entry_state", entry_of(c))
        ctx.hist("outcomes", d["out"].split(":")[0])
        ctx.hist("errno_class_of_last_fault", errno_class(f))
        ctx.hist("failed_call", fault_call(c, d))
        ctx.hist("handed", d["handed"])
    ctx.extra["scenarios"] = len(SCEN)
    ctx.extra["pure_step_outcomes_driven"] = {k: "".join(sorted(v)) for k, v in sorted(STEP_OUTCOMES.items())}
    ctx.extra["pure_steps_with_one_outcome_only"] = sorted(k for k, v in STEP_OUTCOMES.items() if len(v) < 2)
    ctx.extra["model_scripts_exercised"] = sorted({v[0] for v in SCEN.values()})
    for c, o in (allc[:3] + [x for x in allc if "e11!" in x[1] and "ppoll" in x[1]][:2] + [x for x in allc if " c" in x[0]][:2]
                 + [x for x in allc if x[0].startswith("io_uring_drop")][:1]):
        ctx.sample({"case": c, "implementation": o[:400]})
    dis = ctx.extra.get("disagreements", [])
    if dis and not ctx.violations:
        ctx.broken.append({"correspondence": "C12", "first_disagreement": dis[0], "count": sum(s["disagreements"] for s in ctx.extra["streams"].values())})
        ctx.violation({"kind": "model-disagreement", "scenario": dis[0]["case"].split()[0], "profile": dis[0]["profile"]},
                      {"first_disagreement": dis[0], "note": "the implementation satisfies the property on every explored case; the script no longer describes "
                       "the code as compiled in the %s profile" % dis[0]["profile"]},
                      no_input=True)
    if not ok and not ctx.violations:
        ctx.violation({"kind": "proof-broken"}, {"broken": ctx.broken}, no_input=True)


def replay(ctx, rp):
    case = rp.get("replay", {}).get("case")
    if not case:
        print("replay file names a broken obligation, not an input:", json.dumps(rp.get("replay"))[:600])
        return 2
    profile = rp.get("replay", {}).get("profile", "dev")
    exe, err = build(ctx, profile)
    if exe is None:
        print(err)
        return 2
    _, outs, _ = C.run_filter([exe], [case])
    o = outs[0] if outs else "no output"
    why = judge(case, o)
    print("profile: %s\ncase: %s\nimplementation: %s\nverdict: %s" % (profile, case, o, why or "satisfies the property"))
    return 1 if why else 0
