"""C11 — UnixStr search (find, find_buf), common-prefix length (match_up_to, match_up_to_str), suffix
test (ends_with) and path operations (path_join, path_join_fmt, parent_path, path_file_name) return
what their byte-string definitions give for every operand pair; none panics or reads outside its
arguments.  Harness/driver/helpers are shared with C10."""
from . import common as C
from . import c10 as K

SL = 0x2F


def content(raw):
    return raw[:-1]


def lcp_len(a, b):
    n = 0
    while n < len(a) and n < len(b) and a[n] == b[n]:
        n += 1
    return n


def join_spec(a, b):
    if not b:
        return a
    if not a:
        return b
    x = a[:-1] if a.endswith(b"/") else a
    y = b[1:] if b.startswith(b"/") else b
    return x + b"/" + y


def parent_spec(c):
    if len(c) < 2:
        return None
    i = c.rfind(b"/")
    if i < 0:
        return None
    if i > 0 and c[i - 1] == SL:
        return None
    return b"/" if i == 0 else c[:i]


def file_name_spec(c):
    i = c.rfind(b"/")
    if i < 0:
        return None
    rest = c[i + 1:]
    return rest if rest else None


def opt_idx(i):
    return None if i < 0 else i


def judge(case, out):
    """the byte-string definitions, in plain Python bytes operations, against the implementation's output"""
    if case.startswith("mode"):
        return None
    op, ops = K.operands(case)
    kind, raw, num = K.parse_out(out)
    if kind == "oob" or kind.startswith("abort"):
        return "memory fault: " + kind
    if kind == "panic":
        return "panicked"
    if kind == "bad-op":
        return "harness rejected a well-formed case"
    a = ops[0]
    two_ustr = op in ("join", "find", "ends_with", "match")
    valid = K.wfu(a) and (not two_ustr or K.wfu(ops[1]))
    if not valid:
        return None if kind == "reject" else "operand that is not a UnixStr was not rejected"
    if kind == "reject":
        return "well-formed operand rejected"
    ca = content(a)
    b = ops[1] if len(ops) > 1 else None
    if raw is not None and num != len(raw):
        return "len() disagrees with the slice length"

    def want_opt_index(exp):
        got = num if kind == "some" else (None if kind == "none" else "?")
        return None if got == exp else "wrong: expected %s" % ("none" if exp is None else "some %d" % exp)

    def want_bytes(exp, okkind):
        if exp is None:
            return None if kind == "none" else "wrong: expected none"
        if kind != okkind:
            return "wrong: expected %s %s" % (okkind, (exp + b"\0").hex())
        return None if raw == exp + b"\0" else "wrong: expected %s %s" % (okkind, (exp + b"\0").hex())

    if op == "find":
        return want_opt_index(opt_idx(ca.find(content(b))))
    if op == "find_buf":
        # a needle with a NUL can only match against the terminator: defined over the raw bytes
        return want_opt_index(opt_idx(ca.find(b) if 0 not in b else a.find(b)))
    if op == "ends_with":
        exp = "true" if ca.endswith(content(b)) else "false"
        return None if kind == exp else "wrong: expected " + exp
    if op == "match":
        exp = lcp_len(ca, content(b))
        return None if (kind == "val" and num == exp) else "wrong: expected val %d" % exp
    if op in ("find_alias", "ends_with_alias", "match_alias"):
        # second operand = tail of the very same buffer from byte offset `off` (aliasing operands): the answers are
        # those of the byte-string definitions on (content, content[off:])
        off = int.from_bytes(b, "big")
        tail = ca[off:]
        if op == "find_alias":
            return want_opt_index(opt_idx(ca.find(tail)))
        if op == "ends_with_alias":
            exp = "true" if ca.endswith(tail) else "false"
            return None if kind == exp else "wrong: expected " + exp
        exp = lcp_len(ca, tail)
        return None if (kind == "val" and num == exp) else "wrong: expected val %d" % exp
    if op == "match_str":
        exp = lcp_len(ca, b)
        return None if (kind == "val" and num == exp) else "wrong: expected val %d" % exp
    if op == "join":
        return want_bytes(join_spec(ca, content(b)), "ok")
    if op in ("join_fmt", "join_fmts"):
        # join_fmts: b is the RENDERED payload of a shaped fmt::Arguments (K.operands) — the definition is over bytes,
        # the same for a literal format string and for run-time arguments
        if 0 in b:
            return None  # NUL inside a formatted payload: outside the definition's domain
        return want_bytes(join_spec(ca, b), "ok")
    if op == "parent":
        return want_bytes(parent_spec(ca), "some")
    if op == "file_name":
        return want_bytes(file_name_spec(ca), "some")
    return "unknown op"


def sig_of(case, out, why):
    return {"op": K.operands(case)[0], "kind": why.split(":")[0]}


BIN_USTR = ["find", "ends_with", "match", "join"]
BIN_BUF = ["find_buf", "match_str", "join_fmt"]


def gen_cases(ctx):
    quick = ctx.tier == "quick"
    r = ctx.rng
    alpha = [0x61, 0x62, SL, 0x2E]
    conts = list(K.strings(alpha, 3 if quick else 4))
    cases = []
    for a in conts:
        ta = K.hx(a + b"\0")
        for b in conts:
            hb, tb = K.hx(b), K.hx(b + b"\0")
            for op in BIN_USTR:
                cases.append("%s %s %s" % (op, ta, tb))
            for op in BIN_BUF:
                cases.append("%s %s %s" % (op, ta, hb))
    for a in K.strings(alpha, 5 if quick else 8):
        cases.append("parent " + K.hx(a + b"\0"))
        cases.append("file_name " + K.hx(a + b"\0"))
    # operands that are not UnixStr (must be rejected by the safe constructor), needles with NULs
    for a in K.strings([0x61, 0x00], 3):
        for b in K.strings([0x61, 0x00], 3):
            cases.append("find %s %s" % (K.hx(a), K.hx(b)))
            cases.append("find_buf %s %s" % (K.hx(a), K.hx(b)))
            cases.append("match_str %s %s" % (K.hx(a), K.hx(b)))
            cases.append("ends_with %s %s" % (K.hx(a), K.hx(b)))
    # aliasing operands: the needle / suffix / other string is a tail of the haystack's own buffer
    for a in K.strings([0x61, 0x62, SL], 5 if quick else 6):
        ta = K.hx(a + b"\0")
        for off in range(0, len(a) + 1):
            ob = K.hx(bytes([off]))
            cases.append("find_alias %s %s" % (ta, ob))
            cases.append("ends_with_alias %s %s" % (ta, ob))
            cases.append("match_alias %s %s" % (ta, ob))
    # &str operands with multi-byte characters (the byte-string definition ignores character boundaries)
    utf = [b"a", b"\xc3\xa9", b"\xc3\xa8", b"\xe2\x82\xac", b"\xe2\x82\xad", b"\xf0\x9f\x98\x80", b"\xf0\x9f\x98\x81", b"/"]
    ustrs = [b"".join(t) for nn in range(0, 4) for t in __import__("itertools").product(utf, repeat=nn)]
    for a in ustrs:
        for b in (ustrs if not quick else r.shuffle(ustrs)[:60]):
            cases.append("match_str %s %s" % (K.hx(a + b"\0"), K.hx(b)))
            # the UnixStr side may also end in the middle of a character
            if len(a) > 1:
                cases.append("match_str %s %s" % (K.hx(a[:-1] + b"\0"), K.hx(b)))
    # long random strings: needles cut out of the haystack (found), perturbed (near misses), at the very end
    n = 60 if quick else 1500
    for h in K.long_random(r, n, [0x61, 0x62, SL]):
        k = r.below(6)
        i = r.below(len(h))
        j = min(len(h), i + r.choice([1, 2, 3, 17, 300]))
        if k == 0:
            nd = h[i:j]
        elif k == 1:
            nd = h[i:j][:-1] + bytes([0x7A])           # last byte wrong
        elif k == 2:
            nd = h[-r.range(1, min(len(h), 40)):]      # suffix of the haystack
        elif k == 3:
            nd = h[:r.range(0, min(len(h), 40))]       # prefix
        elif k == 4:
            nd = h + b"a"                              # longer than the haystack
        else:
            nd = r.bytes(r.range(0, 6), [0x61, 0x62, SL])
        th, tn = K.hx(h + b"\0"), K.hx(nd + b"\0")
        for op in BIN_USTR:
            cases.append("%s %s %s" % (op, th, tn))
        for op in BIN_BUF:
            cases.append("%s %s %s" % (op, th, K.hx(nd)))
        cases.append("match %s %s" % (tn, th))
        cases.append("match_str %s %s" % (tn, K.hx(h)))
        cases.append("parent " + th)
        cases.append("file_name " + th)
    return cases


LONG_LENS = [254, 255, 256, 257, 300]


def gen_placed(ctx):
    """operand ADDRESS and LENGTH as explored dimensions (K.AT placement: operands are sub-slices at chosen start
    alignments between chosen surrounding bytes): a separator / needle occurrence / first difference / suffix mismatch at
    EVERY position of operands of every length up to 40 (thorough 80) and of lengths around NAME_MAX; paths built around
    one long component (NAME_MAX / PATH_MAX boundaries)"""
    quick = ctx.tier == "quick"
    r = ctx.rng
    pool = K.Pool(r, [0x61, 0x62, 0x2E, 0xFF, 0x01])       # no separator, no NUL
    ab = K.Pool(r, [0x61, 0x62])
    asc = K.Pool(r, [0x61, 0x62, 0x2E, 0x01])
    top = 40 if quick else 80
    cases = []

    def emit(op, a, b=None, ka=None, kb=None):
        ka = r.below(16) if ka is None else ka
        kb = r.below(16) if kb is None else kb
        cases.append(K.AT(ka, kb, r.below(4)) + op + " " + K.hx(a) + ("" if b is None else " " + K.hx(b)))

    # (a) parent_path / path_file_name: a separator at every position, alone and with a second one
    for n in list(range(1, top + 1)) + LONG_LENS:
        for p in range(n):
            for ka in (K.ALL16 if n <= 16 else [r.below(16)]):
                c = bytearray(pool.take(n))
                c[p] = SL
                if r.chance(1, 2):
                    c[r.choice([max(p - 1, 0), min(p + 1, n - 1), r.below(n)])] = SL
                for op in ("parent", "file_name"):
                    emit(op, bytes(c) + b"\0", ka=ka)
    # (b) one long component behind / without a prefix
    for c in K.long_component_paths(r):
        for op in ("parent", "file_name"):
            emit(op, c + b"\0")
    # (c) find / find_buf: the needle planted at every position, sometimes behind a near miss; absent needles
    for n in list(range(1, top + 1)) + LONG_LENS:
        for p in range(n):
            ms = [m for m in (1, 2, 3, 8, 9, 17) if p + m <= n]
            if n > top:
                ms = [r.choice(ms)]
            for m in ms:
                nd = r.bytes(m, [0x61, 0x62, 0x63])
                h = bytearray(ab.take(n))
                h[p:p + m] = nd
                if m > 1 and p >= m and r.chance(1, 2):
                    q = r.below(p - m + 1)
                    h[q:q + m] = nd[:-1] + bytes([nd[-1] ^ 3])       # near miss before the occurrence
                if r.chance(1, 6):
                    nd = nd[:-1] + b"z"                              # not in the haystack at all
                h = bytes(h)
                emit("find", h + b"\0", nd + b"\0")
                emit("find_buf", h + b"\0", nd)
    # (c2) SELF-OVERLAPPING needles: needle = u^k v with v starting differently from u, haystack = .. u^j needle ..: a false
    # candidate starts |u| bytes before the real occurrence and fails only after k|u| bytes (a search that resumes anywhere
    # but candidate + 1 loses the occurrence).  Real occurrence at EVERY position 0..71 (every offset inside 16-, 32- and
    # 64-byte blocks; the haystack start alignment is drawn separately), periods 1..4, 1..3 repeats, needles of 2..16 bytes
    for p in range(72 if quick else 200):
        for ul in (1, 2, 3, 4):
            for k in (1, 2, 3):
                u = bytes([0x61 + ((p + i) % 2) for i in range(ul)]) if ul > 1 else b"a"
                v = bytes([0x63]) + r.bytes(r.below(3), [0x61, 0x62])
                nd = u * k + v
                j = 1 + r.below(2)
                if p < j * ul:
                    continue
                h = bytearray(r.bytes(p + len(nd) + r.below(24), [0x62, 0x64] if ul == 1 else [0x64, 0x65]))
                h[p - j * ul:p] = u * j
                h[p:p + len(nd)] = nd
                h = bytes(h)
                emit("find", h + b"\0", nd + b"\0")
                emit("find_buf", h + b"\0", nd)
    # (d) ends_with: true suffixes of every length, and a mismatch at every position of the suffix
    for m in list(range(1, top + 1)) + LONG_LENS:
        for q in range(m + 1):
            pre = pool.take(r.choice([0, 1, r.below(20), r.range(250, 260)]))
            suf = bytearray(pool.take(m))
            h = pre + bytes(suf)
            if q < m:
                suf[q] ^= 3
            emit("ends_with", h + b"\0", bytes(suf) + b"\0")
    # (e) match_up_to / match_up_to_str: the first difference at every position, and one operand a prefix of the other
    for n in list(range(1, top + 1)) + LONG_LENS:
        for k in range(n + 1):
            a = asc.take(n)
            t = r.below(3)
            if t == 0:
                b = a[:k]
            elif t == 1:
                b = a[:k] + bytes([(a[k] if k < n else 0x61) ^ 3]) + asc.take(r.below(6))
            else:
                b = a[:k] + bytes([(a[k] if k < n else 0x61) ^ 3]) + a[k + 1:]
            emit("match", a + b"\0", b + b"\0")
            emit("match_str", a + b"\0", b)
            emit("match", b + b"\0", a + b"\0")
        # equal operands of EVERY length (two buffers, not aliases): the walk ends on the terminators themselves
        a = asc.take(n)
        emit("match", a + b"\0", a + b"\0")
        emit("match_str", a + b"\0", a)
        emit("ends_with", a + b"\0", a + b"\0")
    # (f) joins of long operands, NAME_MAX-sized pieces on either side of the boundary
    paths = K.long_component_paths(r)
    for _ in range(150 if quick else 1500):
        a, b = r.choice(paths), r.choice(paths)
        a = a[:r.choice([len(a), 254, 255, 256])] + r.choice([b"", b"/"])
        b = r.choice([b"", b"/"]) + b[:r.choice([len(b), 254, 255, 256])]
        emit("join", a + b"\0", b + b"\0")
        if all(x < 0x80 for x in b):
            emit("join_fmt", a + b"\0", b)
    return cases


def gen_fmt_shapes(ctx):
    """the SHAPE of the `fmt::Arguments` handed to path_join_fmt as an explored dimension: every literal of K.FMT_LITS
    (compiled into the harness: empty, relative, absolute, trailing / double separators, embedded and trailing NUL,
    escaped braces, 255 and 300 bytes) in every shape (K.FMT_FORMS: literal only — the one with `as_str() == Some` —,
    literal + one argument as prefix / suffix / both sides, argument only, two arguments) crossed with the dynamic
    bases: empty, root, trailing and double separators, NAME_MAX / PATH_MAX sized, paths around one long component"""
    quick = ctx.tier == "quick"
    r = ctx.rng
    bases = K.FMT_BASES + r.shuffle(K.long_component_paths(r))[:4 if quick else 40]
    cases = []
    for b in bases:
        cases += K.fmt_shape_lines(r, "join_fmts", b + b"\0", 10 if quick else None)
    return cases


def run(ctx):
    ctx.rule = ("cases = all pairs of strings of length <= 3 (thorough 4) over {a,b,/,.} through find/find_buf/ends_with/match_up_to/"
                "match_up_to_str/path_join/path_join_fmt, all strings of length <= 5 (8) through parent_path/path_file_name, pairs over "
                "{a,NUL} (ill-formed operands, NUL needles), random haystacks up to 5000 bytes with needles cut from them / perturbed in "
                "the last byte / at the very end / longer than the haystack; every operand sits directly before a PROT_NONE page; "
                "PLACED stream (`at <n>`: operands are sub-slices at chosen start addresses mod 16 between chosen surrounding bytes): for "
                "every length 1..40 (thorough 80) and 254..257, 300 — a separator at every position (alone / with a second one) through "
                "parent/file_name (all 16 alignments up to length 16), a needle of 1/2/3/8/9/17 bytes planted at every position (with near "
                "misses, absent needles) through find/find_buf, SELF-OVERLAPPING needles u^k v (period 1..4, 1..3 repeats) right behind a false "
                "candidate u^j with the real occurrence at every position 0..71 (thorough 199), a suffix mismatch at every position through ends_with, the first "
                "difference at every position through match_up_to/_str, equal operands of every length through match_up_to/_str/ends_with; paths around one component of 1..4097 bytes (NAME_MAX/PATH_MAX "
                "boundaries) behind 9 prefixes through parent/file_name/join/join_fmt; "
                "FMT-SHAPES stream (`join_fmts <base> <lit> <form> <x> <y>`): path_join_fmt handed every SHAPE of fmt::Arguments — each of 22 "
                "format strings that are LITERALS compiled into the harness (empty, a, /a, a/, /, //x, a/b, ., ./b, there, /there, //, /a/, "
                "embedded / trailing / lone NUL, escaped braces, 255 and 300 bytes) as literal only (Arguments::as_str() = Some), literal "
                "before / behind / on both sides of one `{}` argument, the argument alone, literal between / before / behind two arguments "
                "(arguments: empty, leading / trailing / double separators, > NAME_MAX) — crossed with 16 dynamic bases (empty, /, trailing "
                "and double separators, 255 / 300 / 4098 bytes) + paths around one long component, a quarter of the lines placed; "
                "EVERY stream runs on the dev and release profiles and on each build variant of coverage.cfg_dimensions.variants (standing: -C target-cpu=native; "
                "one per target feature / mixed debug-assertion setting the anchored files mention), stream names and replays carry the variant tag; "
                "distinct_nontrivial = distinct (operation, outcome kind, operand lengths capped at 3 or flagged >= 255, operand ends in NUL, placed) classes")
    ctx.assumptions += [
        "Model/UnixStr.lean describes rusl/src/string/unix_str.rs (checked by this run's correspondence: debug and release builds and every build variant of coverage.cfg_dimensions.variants)",
        "out-of-bounds reads are observed as SIGSEGV on operands placed at the end of a mapping followed by a PROT_NONE page (over-reads only; no operation computes a negative offset: proved on the model)",
        "find/find_buf search the raw bytes (terminator included); for NUL-free needles that equals searching the content (proved: find_eq_naive, find_buf_content)",
        "parent_path splits at the last separator, so the parent of a path with a trailing slash is the path without it (the doc comment's /home/gramar/code/ example, which is never executed, says otherwise)",
        "a formatted payload containing NUL is outside path_join_fmt's definition",
        "the model has no notion of the SHAPE of a fmt::Arguments (literal format string vs. run-time arguments; Arguments::as_str() Some/None): "
        "pathJoinFmtArgs/fromFormatArgs are the model of the call on the rendered bytes (theorems path_join_fmt_args_eq_spec, "
        "path_join_fmt_shape_independent).  That the REAL code is shape-independent is OBSERVED by the fmt-shapes stream over the literal "
        "table compiled into the harness (harness/c10/src/fmt_shapes.rs; fmt_table_observation checks the table equals the check's and that "
        "the literal-only lines really have as_str() = Some), not proved: a fast path keyed on a literal outside the table is not reached",
        "the model has no addresses: independence of the results from operand start alignment / surrounding bytes / sub-slicing is OBSERVED "
        "by the placed stream (both operands at independently chosen alignments mod 16, 4 surrounding fills), not proved; placed operands "
        "are followed by up to 15 readable bytes (the unplaced streams keep the exact PROT_NONE placement)",
    ]
    ok = C.lean_prove(ctx, "TinyVerif.Props.C11", drivers=["drv_c10"])
    cases = gen_cases(ctx)
    K.run_streams(ctx, "search-path", cases, judge, sig_of)
    K.run_streams(ctx, "search-path-placed", gen_placed(ctx), judge, sig_of)
    K.run_streams(ctx, "fmt-shapes", gen_fmt_shapes(ctx), judge, sig_of)
    exe = K.build(ctx, False)
    if exe is None:
        return
    K.fmt_table_observation(ctx, exe)
    C.correspond(ctx, "malformed", K.malformed_cases(), [exe], [C.driver_path("drv_c10")],
                 lambda c, o: None if o == "bad-op" else "malformed line not rejected with bad-op", lambda c, o, w: {"op": "malformed", "kind": "accepted"})
    if not ok and not ctx.violations:
        ctx.violation({"kind": "proof-broken"}, {"broken": ctx.broken}, no_input=True)
