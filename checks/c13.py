"""C13 — Command::spawn returns only in the caller; the child runs exactly what was configured, or the caller gets Err.

Proof: Props/C13.lean (argv_envp_wellformed, spawn_single_return, spawn_ok_means_exec, spawn_err_code, spawn_err_before_fork,
wait_status; witnesses for the code before the repairs).
Tie C: harness/c13 builds the real Command for each configuration, spawns this binary in `--dump` mode (argv, environment, cwd,
open descriptors, pgid written to a file), with one system call forced to fail on the caller side or inside the forked child
(sc-shim handler state is inherited across fork); every process that comes back out of spawn leaves a marker.  The model
predicts (result, who returned, exec happened, child reaped) from (configuration, fault) alone.
Judge: the property itself on the measured run.
"""
import json

from . import common as C

CONFIGS = ["-", "a1", "a3,e2", "a5,e3,twice", "e4", "cwd", "uid,gid", "pg", "cl2", "cwd,uid,gid,pg,cl2", "io=nnn", "io=ppp", "io=npi",
           "io=iri", "io=pnr", "io=iio", "io=iei", "io=nio", "io=neo", "a2,e1,cwd,pg,cl1,io=npr", "nobin", "nobin,io=ppp,cwd", "clf13", "cl1,clf5,cwd", "clu", "io=pip,clu"]
THOROUGH_EXTRA = ["a9,e7,twice,cwd,uid,gid,pg,cl3,io=ppn", "io=rii", "io=iir", "io=nip,uid", "io=pin,gid,cl1", "a1,e1,io=inn", "twice", "a4,twice,e1"]
PARENT_ERRNOS = [4, 11, 12, 24, 13, 5]
CHILD_ERRNOS = [9, 13, 1]
SYS_OF_FLAG = [("cwd", "chdir"), ("uid", "setuid"), ("gid", "setgid"), ("pg", "setpgid")]


def parse(line):
    d = {}
    for t in line.split():
        if "=" in t:
            k, v = t.split("=", 1)
            d[k] = v
    return d


def names(tr):
    return [] if tr == "-" else [t.split(":")[0] for t in tr.split(",")]


class Cfg:
    def __init__(self, s):
        self.s = s
        t = [x for x in s.split(",") if x and x != "-"]
        self.flags = {f: f in t for f, _ in SYS_OF_FLAG}
        self.io = "iii"
        self.cl = 0
        self.clf = None
        self.clu = "clu" in t
        self.nobin = "nobin" in t
        self.twice = "twice" in t
        self.nargs = self.nenv = 0
        for x in t:
            if x.startswith("io="):
                self.io = x[3:]
            elif x.startswith("clf"):
                self.clf = int(x[3:])
            elif x.startswith("cl") and x != "clu":
                self.cl = int(x[2:])
            elif x[0] == "a" and x[1:].isdigit():
                self.nargs = int(x[1:])
            elif x[0] == "e" and x[1:].isdigit():
                self.nenv = int(x[1:])
        self.streams = [i for i, c in enumerate(self.io) if c != "i"]
        self.sys_steps = ["dup3"] * len(self.streams) + [n for f, n in SYS_OF_FLAG if self.flags[f]]
        self.closures = self.cl + (1 if self.clf is not None else 0) + (1 if self.clu else 0)

    def natural_child_fault(self):
        """(step index, errno|None) of the failure the configuration itself causes, if any"""
        n = len(self.sys_steps)
        if self.clf is not None:
            return (n + self.cl, self.clf)
        if self.clu:
            return (n + self.cl, None)
        if self.nobin:
            return (n + self.closures, 2)
        return None


def classify(cfg, fault, base):
    """fault spec + base traces -> model oracle and what kind of fault it is"""
    m = {"before": "-", "eintr": 0, "readerr": "-", "waiterr": "-", "cf": cfg.natural_child_fault()}
    kinds = []
    expect_errno = None
    if cfg.natural_child_fault():
        kinds.append("natural")
    pn = names(base["ptrace"])
    jf = pn.index("fork") if "fork" in pn else None
    for f in ([] if fault == "-" else fault.split(",")):
        child = f.startswith("c")
        k, what = f.lstrip("c").split(":")
        k = int(k)
        e = int(what[1:]) if what[0] == "e" else None
        if child:
            if k == 0:
                kinds.append("ignored")  # close of the read end: result ignored
                continue
            nsys = len(cfg.sys_steps)
            step = k - 1 if k - 1 < nsys else nsys + cfg.closures
            cur = m["cf"]
            if cur is None or step <= cur[0]:  # a forced result replaces the natural one of the same call
                m["cf"] = (step, e)
            kinds.append("child")
        else:
            if jf is not None and k <= jf:
                m["before"] = e
                kinds.append("parent-pre")
            elif jf is not None and k == jf + 1:
                kinds.append("ignored")
            elif jf is not None and k == jf + 2 and m["before"] == "-":
                if e == 4:
                    m["eintr"] = 1
                    kinds.append("ignored")
                else:
                    m["readerr"] = e if e is not None else 0
                    kinds.append("parent-post")
            else:
                m["waiterr"] = e
                kinds.append("parent-wait")
    return m, kinds


def model_line(cfg, m):
    cf = m["cf"]
    cfs = "-" if cf is None else "%d:%s" % (cf[0], "n" if cf[1] is None else cf[1])
    return ("spawn fixed=1 s=%s cwd=%d uid=%d gid=%d pg=%d cl=%d before=%s eintr=%d readerr=%s waiterr=%s cf=%s"
            % ("".join(str(i) for i in cfg.streams) or "-", cfg.flags["cwd"], cfg.flags["uid"], cfg.flags["gid"], cfg.flags["pg"],
               cfg.closures, m["before"], m["eintr"], m["readerr"], m["waiterr"], cfs))


def canon_model(mo):
    d = parse(mo)
    stray = "zombie" if d["reaped"] == "0" else "none"
    return "res=%s returned=%d execd=%d stray=%s" % (d["parent"], 1 if d["returners"] == "2" else 0, 1 if d["child"] == "execd" else 0, stray)


def canon_impl(o):
    d = parse(o)
    stray = "none" if d["stray"] == "none" else "zombie"
    return "res=%s returned=%s execd=%d stray=%s" % (d["res"], d["returned"], 0 if d["img"] == "none" else 1, stray)


def builder_line(cfg):
    ops = ["a1", "a2"]
    extra = [3 + i for i in range(cfg.nargs)]
    envs = [100 + j for j in range(cfg.nenv)]
    if cfg.twice:
        h, g = len(extra) // 2, len(envs) // 2
        ops += ["A" + ".".join(map(str, extra[:h])), "E" + ".".join(map(str, envs[:g])),
                "A" + ".".join(map(str, extra[h:])), "E" + ".".join(map(str, envs[g:]))]
    else:
        ops += ["a%d" % a for a in extra] + ["e%d" % e for e in envs]
    return "builder fixed=1 start=0 " + " ".join(ops)


def seen_of_builder(mo):
    """what the exec'd program must see, from the model's final builder state"""
    d = parse(mo)
    args = d["args"].split(".")
    argv = d["argv"].split(".")
    if argv != [str(int(a) + 1) for a in args] + ["0"]:
        return "argv-not-wellformed"
    if d["env"].startswith("provided:"):
        v, p = d["env"][9:].split("/")
        vs = [] if v == "." else v.split(".")
        if p.split(".") != [str(int(a) + 1) for a in vs] + ["0"]:
            return "envp-not-wellformed"
        env = ".".join(str(int(a) - 100) for a in vs) or "."
    else:
        env = "."
    return "%s/%s" % (".".join(args), env)


def judge_with(cfg, fault, kinds, m, o):
    """the property, on the measured run; independent of the model (uses only the configuration and the injected fault)"""
    if o.startswith("hang"):
        return "hang: spawn (or a process it left behind) did not finish"
    if o.startswith("crash") or o == "bad-op":
        return "crash: " + o
    d = parse(o)
    if d["returned"] != "0":
        return "returned-in-child: spawn returned in the forked child as well (a second copy of the caller runs on)"
    if int(d["leaked"]):
        return "leak: descriptors left open in the caller"
    effective = [k for k in kinds if k != "ignored"]
    if d["res"] == "ok":
        if d["img"] == "none":
            return "ok-but-not-exec: spawn returned Ok but the requested program never ran"
        if d["img"] != "ok":
            return "wrong-image: the program ran with %s different from the configuration" % d["img"][4:]
        if effective:
            return "fault-swallowed: a step failed (%s) and spawn returned Ok" % ",".join(effective)
        # the harness polls once (try_wait) right after spawn, then waits twice and polls again: the poll costs one
        # wait4, the first wait one more iff the poll found the child still running, later calls are served from the cache
        want_waits = "2" if d.get("pre") == "running" else "1"
        if d["status"] != "0" or d["status2"] != d["status"] or d["waits"] != want_waits or d.get("pre") == "err":
            return "wait-status: poll=%s wait=%s, again=%s, wait4 calls=%s (expected %s)" % (d.get("pre"), d["status"], d["status2"], d["waits"], want_waits)
        if d["stray"] != "none":
            return "wait-status: wait returned but the child was not reaped (%s)" % d["stray"]
        return None
    # Err
    if not effective:
        return "spurious-error: nothing failed and spawn returned %s" % d["res"]
    code = d["res"][4:]
    if "parent-pre" in kinds:
        want = str(m["before"])
    elif "child" in kinds or "natural" in kinds:
        want = "nocode" if m["cf"][1] is None else str(m["cf"][1])
    else:
        want = None
    post = "parent-post" in kinds or "parent-wait" in kinds
    if want is not None and not post:
        if code != want or (code != "nocode" and int(code) <= 0):
            return "wrong-errno: the failing step's errno is %s, spawn reports %s" % (want, code)
        if d["img"] != "none":
            return "exec-after-error: spawn returned Err but the program ran"
    if d["stray"] != "none" and "parent-wait" not in kinds:
        return "stray-process: spawn returned Err and left a child (%s)" % d["stray"]
    return None


def sig_of(cfg, fault, why):
    return {"config": cfg.s, "kind": why.split(":")[0], "fault": fault}


def run_stream(ctx, exe, drv, stream, cases, base_of):
    rc, outs, err = C.run_filter([exe], cases, timeout=1500)
    ctx.evaluations += len(cases)
    st = ctx.extra.setdefault("streams", {}).setdefault(stream, {"cases": 0, "disagreements": 0, "spec_failures": 0})
    st["cases"] += len(cases)
    if len(outs) != len(cases):
        ctx.violation({"stream": stream, "kind": "harness-died"}, {"rc": rc, "stderr": err[-300:]}, no_input=True)
        return []
    ml, keep = [], []
    for c, o in zip(cases, outs):
        cs, fault = c.split()
        cfg = Cfg(cs)
        base = base_of.get(cs) or (parse(o) if "=" in o else {"ptrace": "-"})
        m, kinds = classify(cfg, fault, base)
        why = judge_with(cfg, fault, kinds, m, o)
        if why:
            st["spec_failures"] += 1
            ctx.violation(sig_of(cfg, fault, why), {"stream": stream, "case": c, "implementation": o, "why": why,
                                                     "how_to_replay": "echo '%s' | %s" % (c, exe)})
        if "=" in o:
            ml.append(model_line(cfg, m))
            keep.append((c, o, kinds))
    rc, mo, err = C.run_filter(drv, ml)
    if len(mo) != len(ml):
        ctx.violation({"stream": stream, "kind": "driver-failed"}, {"stderr": err[-300:]}, no_input=True)
        return outs
    for (c, o, kinds), l, x in zip(keep, ml, mo):
        if x == "bad-op" or canon_model(x) != canon_impl(o):
            st["disagreements"] += 1
            ctx.extra.setdefault("disagreements", []).append({"case": c, "implementation": o, "model_input": l, "model": x,
                                                               "model_canon": canon_model(x) if x != "bad-op" else x, "impl_canon": canon_impl(o)})
        d = parse(o)
        ctx.count((c.split()[0], tuple(sorted(set(kinds))), d["res"], d["img"].split(":")[0]))
        ctx.hist("results", d["res"].split(":")[0])
        for k in kinds or ["no-fault"]:
            ctx.hist("fault_kinds", k)
    return outs


def run(ctx):
    configs = CONFIGS + (THOROUGH_EXTRA if ctx.tier == "thorough" else [])
    ctx.rule = ("cases = %d command configurations (0..9 args, 0..7 env entries, arg/env vs args/envs batches, cwd, uid, gid, pgroup, 0..3 "
                "pre-exec closures incl. one failing with / without errno, every stdio mode, a missing program) x {no fault; every caller-side "
                "system call up to the read of the CLOEXEC pipe x {EINTR,EAGAIN,ENOMEM,EMFILE,EACCES,EIO, short read}; every child-side call "
                "between fork and exec x {EBADF,EACCES,EPERM}; wait4 failing on the error paths}; distinct_nontrivial = distinct "
                "(configuration, fault kinds, result, image verdict)" % len(configs))
    ctx.assumptions += [
        "built without the `start` feature (std-hosted harness): Environment::Inherit does not exist in this build, so inherit-mode is "
        "covered by the model (argv_envp_wellformed start=true, envSwitch) but not exercised on the implementation; "
        "the no-alloc `spawn` function likewise (it shares do_spawn)",
        "the exec target is the harness binary in --dump mode; its view (argv, environ, cwd, /proc/self/fd, pgid) is the observation of "
        "what the child is executing; uid/gid are set to the caller's own ids (no privilege to change them)",
        "the 8-byte message on the CLOEXEC pipe is delivered atomically and written only by the child (a forced read result of 8 garbage "
        "bytes is not injected); a write() failure in the child is not injected (no other channel exists)",
        "faults of the caller's read (other than EINTR) and wait4 after the fork are outside `steps up to and including exec`: required "
        "there: Err, and the child reaped unless wait4 itself was made to fail",
    ]
    ctx.trusted += ["harness/c13 + c12 casekit (sc-shim handler, inherited across fork; marker pipe; --dump exec target)"]
    ok = C.lean_prove(ctx, "TinyVerif.Props.C13", drivers=["drv_c13"])
    exe, err = C.cargo_build(ctx, "c13")
    if exe is None:
        ctx.broken.append({"harness_build_failed": err})
        ctx.violation({"kind": "harness-build-failed"}, {"error": err}, no_input=True)
        return
    drv = [C.driver_path("drv_c13")]
    base_cases = ["%s -" % c for c in configs]
    base = run_stream(ctx, exe, drv, "fault-free", base_cases, {})
    if not base:
        return
    base_of = {c: parse(o) for c, o in zip(configs, base) if "=" in o}
    cases = []
    for c in configs:
        b = base_of.get(c)
        if not b:
            continue
        pn = names(b["ptrace"])
        jf = pn.index("fork") if "fork" in pn else len(pn) - 1
        for k in range(0, min(jf + 3, len(pn))):
            for e in PARENT_ERRNOS:
                cases.append("%s %d:e%d" % (c, k, e))
            if pn[k] == "read":
                cases.append("%s %d:v3" % (c, k))
        cn = [n for n in names(b["ctrace"]) if n not in ("exit", "returned")]
        # `execve:?,execve:e2` (it came back) is one call
        dedup = [n for i, n in enumerate(cn) if not (i > 0 and n == "execve" and cn[i - 1] == "execve")]
        for k, n in enumerate(dedup):
            if n == "write":
                continue
            for e in CHILD_ERRNOS + ([2] if n == "execve" else []):
                cases.append("%s c%d:e%d" % (c, k, e))
    outs = run_stream(ctx, exe, drv, "one-fault", cases, base_of)
    # wait4 failing on the error paths
    lvl2 = []
    for c, o in zip(cases, outs):
        if "=" in o and "wait4" in names(parse(o)["ptrace"]):
            k = names(parse(o)["ptrace"]).index("wait4")
            lvl2.append("%s,%d:e10" % (c, k))
    lvl2 = lvl2[:400 if ctx.tier == "quick" else 5000]
    run_stream(ctx, exe, drv, "wait4-fails", lvl2, base_of)
    # builder: what the program saw vs the model's final argv/envp
    bl, bexp = [], []
    for c, o in zip(configs, base):
        if "=" in o and parse(o).get("seen", "-") != "-":
            bl.append(builder_line(Cfg(c)))
            bexp.append((c, parse(o)["seen"]))
    rc, bo, _ = C.run_filter(drv, bl)
    ctx.evaluations += len(bl)
    for (c, seen), l, x in zip(bexp, bl, bo):
        got = seen_of_builder(x) if x not in ("panic", "bad-op") else x
        if got != seen:
            ctx.extra.setdefault("disagreements", []).append({"case": c, "builder_model_input": l, "model": x, "model_says_program_sees": got, "program_saw": seen})
    ctx.extra["builder_cases"] = len(bl)
    rc, bad, _ = C.run_filter(drv, ["spawn fixed=1", "builder fixed=1 start=0 q1", "frob"])
    rc, badh, _ = C.run_filter([exe], ["zz -", "a1 x", "a1"])
    if any(x != "bad-op" for x in bad + badh):
        ctx.violation({"kind": "malformed-accepted"}, {"driver": bad, "harness": badh}, no_input=True)
    for c, o in list(zip(base_cases, base))[:3] + [x for x in zip(cases, outs) if " c" in x[0]][:3] + [x for x in zip(cases, outs) if "fork:e" in x[1]][:1]:
        ctx.sample({"case": c, "implementation": o[:500]})
    dis = ctx.extra.get("disagreements", [])
    if dis and not ctx.violations:
        ctx.broken.append({"correspondence": "C13", "first_disagreement": dis[0], "count": len(dis)})
        ctx.violation({"kind": "model-disagreement"}, {"first_disagreement": dis[0], "count": len(dis),
                      "note": "the implementation satisfies the property on every explored case; the model no longer describes the code"}, no_input=True)
    ctx.extra["disagreements"] = dis[:5]
    if not ok and not ctx.violations:
        ctx.violation({"kind": "proof-broken"}, {"broken": ctx.broken}, no_input=True)


def replay(ctx, rp):
    case = rp.get("replay", {}).get("case")
    if not case:
        print("replay file names a broken obligation, not an input:", json.dumps(rp.get("replay"))[:600])
        return 2
    exe, err = C.cargo_build(ctx, "c13")
    if exe is None:
        print(err)
        return 2
    cs, fault = case.split()
    _, b, _ = C.run_filter([exe], ["%s -" % cs])
    _, outs, _ = C.run_filter([exe], [case])
    o = outs[0] if outs else "no output"
    cfg = Cfg(cs)
    m, kinds = classify(cfg, fault, parse(b[0]) if b and "=" in b[0] else {"ptrace": "-"})
    why = judge_with(cfg, fault, kinds, m, o)
    print("case: %s\nimplementation: %s\nverdict: %s" % (case, o, why or "satisfies the property"))
    return 1 if why else 0
