"""C13 — Command::spawn returns only in the caller; the child runs exactly what was configured, or the caller gets Err.

Proof: Props/C13.lean (argv_envp_wellformed, spawn_single_return, spawn_ok_means_exec, spawn_err_code, spawn_err_before_fork,
wait_status; witnesses for the code before the repairs).
Tie C: harness/c13 builds the real Command for each configuration, spawns this binary in `--dump` mode (argv, environment, cwd,
open descriptors, pgid written to a file), with one system call forced to fail on the caller side or inside the forked child
(sc-shim handler state is inherited across fork); every process that comes back out of spawn leaves a marker.  The model
predicts (result, who returned, exec happened, child reaped) from (configuration, fault) alone.
Judge: the property itself on the measured run.
Respawn dimension: `spawn` is `&mut self`, one Command may be spawned from any number of times.  A configuration
`<stage0>/<stage1>/...` is ONE Command: stage k>0 = further builder calls made after spawn k-1 ('-' = none), then spawn k;
`x<n>` = n spawns in all, `fr<i>` = the fault list hits spawn i (the others run fault-free).  Every spawn is measured and
judged on its own by the same oracle (the configuration in force is what all builder calls SO FAR ask for) and compared
with the model's `runStages` (Props: spawn_preserves_config, respawn_same_child, respawn_after_failed_spawn,
respawn_round_depends_only_on_calls_and_own_faults, respawn_interleaved).
Environment-builder dimension (checks/c13_env.py): sequences of env / envs (iterators of 0, 1, n items) / arg / args / cwd calls
and spawns on ONE Command, in BOTH feature settings — without `start` through `harness/c13 --envseq`, with `start` through the
no-libc probe harness-nolibc/c13probe (default environment Inherit = the probe's own envp, chosen by the check), plus the
no-alloc front end `process::spawn` with an explicit Environment (harness-nolibc/c13free); the child reports the envp it was
started with; judged by the property (nothing given: default environment, else exactly the given strings in order) and
compared with `envRounds` (Props: builder_env_exact, respawn_env_exact, envs_nil_identity, envs_eq_foldl_env).
Identity dimension (checks/c13_ids.py): the caller's identity STATE (real/effective/saved uid and gid, supplementary groups; set up
in a forked helper with setresuid/setresgid) x the uid / gid / pgroup requested, judged by what the child image reports about
itself (/proc/self/status Uid:, Gid:, Groups:, NSpgid:) against the kernel's rules for setuid/setgid/setpgid/exec in do_spawn's
order, compared with `idSteps` + `spawn` (Props: spawn_ids_exact, spawn_ids_effective, spawn_ids_err, spawn_ids_result).
"""
import json

from . import common as C
from . import c13_env
from . import c13_ids

CONFIGS = ["-", "a1", "a3,e2", "a5,e3,twice", "e4", "cwd", "uid,gid", "pg", "cl2", "cwd,uid,gid,pg,cl2", "io=nnn", "io=ppp", "io=npi",
           "io=iri", "io=pnr", "io=iio", "io=iei", "io=nio", "io=neo", "a2,e1,cwd,pg,cl1,io=npr", "nobin", "nobin,io=ppp,cwd", "clf13", "cl1,clf5,cwd", "clu", "io=pip,clu"]
THOROUGH_EXTRA = ["a9,e7,twice,cwd,uid,gid,pg,cl3,io=ppn", "io=rii", "io=iir", "io=nip,uid", "io=pin,gid,cl1", "a1,e1,io=inn", "twice", "a4,twice,e1"]
# one Command spawned from repeatedly (see the module doc).  No stream given as RawFd (r, o, e) is carried into a later
# spawn without being set again: the first spawn closes the caller's descriptor (known finding C12 spawn_rawfd_late —
# whether RawFd lends or gives the descriptor is undecided), so such a respawn has no defined expectation.
RESPAWN = ["-,x2", "io=nnn,x2", "io=ppp,x3", "io=npi,x3", "io=pIn,x2", "io=inp/-/-", "a2,e2,cwd,pg,cl2,io=npi,x3", "uid,gid,cl1,x2",
           "a1/a1/a2", "e1/e2", "a2,e1,twice/a3,e2,twice", "-/io=.p.", "io=npi/io=I.n", "io=ppp/a1,e1,cl1/cwd,io=n..", "io=n../io=.n./io=..n",
           "io=pnp/io=npn/-", "cl2/cl1/pg", "-/cwd/-", "io=iri/io=.r.", "io=nio/io=..o", "io=iei/io=.e./a1", "nobin,x2", "nobin,io=pnp/a1",
           "clf13,x2", "io=npi/clf5/-", "cl1,io=pip/clu", "io=nnn/cl1/cl1/cl1"]
RESPAWN_THOROUGH = ["io=ppp,x8", "a3,e3,cwd,uid,gid,pg,cl3,io=pnp,x4", "io=npi/io=pin/io=inp/io=ppp/io=III", "a1/e1/a1/e1/a1/e1", "io=rrr/io=rrr",
                    "io=pnp/io=r../io=r../io=I..", "cl1/clf9/cl1", "e3,twice/-/e2"]
PARENT_ERRNOS = [4, 11, 12, 24, 13, 5]
CHILD_ERRNOS = [9, 13, 1]
# do_spawn's order (the gid before the uid since 925c7e5)
SYS_OF_FLAG = [("cwd", "chdir"), ("gid", "setgid"), ("uid", "setuid"), ("pg", "setpgid")]


def parse(line):
    d = {}
    for t in line.split():
        if "=" in t:
            k, v = t.split("=", 1)
            d[k] = v
    return d


def names(tr):
    return [] if tr == "-" else [t.split(":")[0] for t in tr.split(",")]


class Round:
    """the configuration in force at one spawn: what all builder calls made so far ask for"""

    def __init__(self, s, index, nrounds):
        self.s = s          # the whole configuration string (signature)
        self.index = index
        self.nrounds = nrounds
        self.flags = {f: False for f, _ in SYS_OF_FLAG}
        self.io = ["i", "i", "i"]   # effective: i (never set) I n p r o e
        self.cls = []               # closures in registration order: "ok" | errno (int) | None (fails without errno)
        self.nobin = False
        self.twice = False
        self.nargs = self.nenv = 0
        self.stage_tokens = []      # model tokens of this stage's builder calls
        self.stale_raw = False

    @property
    def streams(self):
        return [i for i, c in enumerate(self.io) if c not in "iI"]

    @property
    def sys_steps(self):
        return ["dup3"] * len(self.streams) + [n for f, n in SYS_OF_FLAG if self.flags[f]]

    @property
    def closures(self):
        return len(self.cls)

    def natural_child_fault(self):
        """(step index, errno|None) of the failure the configuration itself causes, if any"""
        n = len(self.sys_steps)
        for i, k in enumerate(self.cls):
            if k != "ok":
                return (n + i, k)
        if self.nobin:
            return (n + self.closures, 2)
        return None

    def want_pipes(self):
        return "".join("1" if c == "p" else "0" for c in self.io)

    def model_io(self):
        return "".join({"I": "i", "o": "r", "e": "r"}.get(c, c) for c in self.io)


class Cfg:
    """`<stage0>/<stage1>/...`: one Command; .rounds[k] = the configuration in force at spawn k"""

    def __init__(self, s):
        import copy
        self.s = s
        self.fr = 0
        stages = s.split("/")
        toks0 = [x for x in stages[0].split(",") if x and x != "-"]
        for x in toks0:
            if x[0] == "x" and x[1:].isdigit():
                stages += ["-"] * (int(x[1:]) - 1)
            elif x.startswith("fr") and x[2:].isdigit():
                self.fr = int(x[2:])
        self.rounds = []
        cur = Round(s, 0, len(stages))
        for k, st in enumerate(stages):
            cur = copy.deepcopy(cur)
            cur.index = k
            cur.stale_raw = False
            t = [x for x in st.split(",") if x and x != "-"]
            nargs = nenv = cl = 0
            clf = "no"
            clu = twice = False
            io = "..."
            for x in t:
                if x in cur.flags:
                    cur.flags[x] = True
                elif x == "clu":
                    clu = True
                elif x == "nobin":
                    cur.nobin = True
                elif x == "twice":
                    twice = True
                elif x.startswith("io="):
                    io = x[3:]
                elif x.startswith("clf"):
                    clf = int(x[3:])
                elif x.startswith("cl"):
                    cl = int(x[2:])
                elif x.startswith("fr") or x[0] == "x":
                    pass
                elif x[0] == "a" and x[1:].isdigit():
                    nargs = int(x[1:])
                elif x[0] == "e" and x[1:].isdigit():
                    nenv = int(x[1:])
                else:
                    raise ValueError("bad token " + x)
            # model tokens: the two fixed arguments (--dump <file>) are a1 a2, the extra ones a3.., variables e100..
            mt = ["a1", "a2"] if k == 0 else []
            extra = [3 + cur.nargs + i for i in range(nargs)]
            envs = [100 + cur.nenv + j for j in range(nenv)]
            if twice:
                h, g = len(extra) // 2, len(envs) // 2
                mt += ["A" + ".".join(map(str, extra[:h])), "E" + ".".join(map(str, envs[:g])),
                       "A" + ".".join(map(str, extra[h:])), "E" + ".".join(map(str, envs[g:]))]
            else:
                mt += ["a%d" % a for a in extra] + ["e%d" % e for e in envs]
            cur.nargs += nargs
            cur.nenv += nenv
            cur.twice = twice
            mt += [f for f, _ in SYS_OF_FLAG if f in t]
            mt += ["cl"] * (cl + (clf != "no") + clu)
            cur.cls += ["ok"] * cl + ([clf] if clf != "no" else []) + ([None] if clu else [])
            for i, c in enumerate(io):
                if c in "Inproe":
                    cur.io[i] = c
                    mt.append("s%s=%s" % ("ioe"[i], {"o": "r", "e": "r"}.get(c, c)))
                elif cur.io[i] in "roe" and k > 0:
                    cur.stale_raw = True   # a RawFd the previous spawn has taken over
            cur.stage_tokens = mt
            self.rounds.append(cur)
        if self.fr >= len(self.rounds):
            raise ValueError("fault round out of range")
        r0 = self.rounds[0]
        # single-spawn view (the fields the one-spawn streams use)
        self.flags, self.io, self.nobin, self.twice, self.nargs, self.nenv = r0.flags, "".join(r0.io), r0.nobin, r0.twice, r0.nargs, r0.nenv
        self.streams, self.sys_steps, self.closures = r0.streams, r0.sys_steps, r0.closures

    def natural_child_fault(self):
        return self.rounds[0].natural_child_fault()

    def with_fault_round(self, r):
        if r == 0:
            return self.s
        st = self.s.split("/")
        st[0] = (st[0] + "," if st[0] not in ("", "-") else "") + "fr%d" % r
        return "/".join(st)


def classify(cfg, fault, base):
    """fault spec + base traces -> model oracle and what kind of fault it is"""
    m = {"before": "-", "eintr": 0, "readerr": "-", "waiterr": "-", "cf": cfg.natural_child_fault()}
    kinds = []
    expect_errno = None
    if cfg.natural_child_fault():
        kinds.append("natural")
    pn = names(base["ptrace"])
    jf = pn.index("fork") if "fork" in pn else None
    for f in ([] if fault == "-" else fault.split(",")):
        child = f.startswith("c")
        k, what = f.lstrip("c").split(":")
        k = int(k)
        e = int(what[1:]) if what[0] == "e" else None
        if child:
            if k == 0:
                kinds.append("ignored")  # close of the read end: result ignored
                continue
            nsys = len(cfg.sys_steps)
            step = k - 1 if k - 1 < nsys else nsys + cfg.closures
            cur = m["cf"]
            if cur is None or step <= cur[0]:  # a forced result replaces the natural one of the same call
                m["cf"] = (step, e)
            kinds.append("child")
        else:
            if jf is not None and k <= jf:
                m["before"] = e
                kinds.append("parent-pre")
            elif jf is not None and k == jf + 1:
                kinds.append("ignored")
            elif jf is not None and k == jf + 2 and m["before"] == "-":
                if e == 4:
                    m["eintr"] = 1
                    kinds.append("ignored")
                else:
                    m["readerr"] = e if e is not None else 0
                    kinds.append("parent-post")
            else:
                m["waiterr"] = e
                kinds.append("parent-wait")
    return m, kinds


def model_line(cfg, m):
    cf = m["cf"]
    cfs = "-" if cf is None else "%d:%s" % (cf[0], "n" if cf[1] is None else cf[1])
    return ("spawn fixed=1 s=%s cwd=%d uid=%d gid=%d pg=%d cl=%d before=%s eintr=%d readerr=%s waiterr=%s cf=%s"
            % ("".join(str(i) for i in cfg.streams) or "-", cfg.flags["cwd"], cfg.flags["uid"], cfg.flags["gid"], cfg.flags["pg"],
               cfg.closures, m["before"], m["eintr"], m["readerr"], m["waiterr"], cfs))


def ncl_of(cls):
    """closure marks -> how many closures the child called; they must be 0,1,2,.. in registration order, each once"""
    if cls == "-":
        return "0"
    ids = cls.split(".")
    return str(len(ids)) if ids == [str(i) for i in range(len(ids))] else "bad:" + cls


def canon_model(mo):
    d = parse(mo)
    stray = "zombie" if d["reaped"] == "0" else "none"
    return "res=%s returned=%d execd=%d stray=%s ncl=%s" % (d["parent"], 1 if d["returners"] == "2" else 0, 1 if d["child"] == "execd" else 0, stray, d["ncl"])


def canon_impl(o):
    d = parse(o)
    stray = "none" if d["stray"] == "none" else "zombie"
    return "res=%s returned=%s execd=%d stray=%s ncl=%s" % (d["res"], d["returned"], 0 if d["img"] == "none" else 1, stray, ncl_of(d["cls"]))


def canon_model_round(mo):
    """one round of the `respawn` op: additionally the image's streams / vectors and the pipe ends handed out"""
    d = parse(mo)
    out = canon_model(mo)
    if d["child"] == "execd":
        out += " io=%s argv=%s envp=%s" % (d["io"], d["argv"], d["envp"])
    if d["parent"] == "ok":
        out += " pipes=%s" % d["pipes"]
    return out


def canon_impl_round(rc, o):
    d = parse(o)
    out = canon_impl(o)
    if d["img"] != "none":
        # observed streams in the model's alphabet: the caller's own stdout/stderr given as RawFd is a RawFd
        sio = ""
        for i, (c, k) in enumerate(zip(rc.io, d["sio"])):
            want = {"I": "i"}.get(c, c)
            if (c == "o" and i == 1) or (c == "e" and i == 2):
                want = "i"
            if k == "q" and d["res"] != "ok":
                k = "p"   # spawn returned Err (no Child, no pipe end to compare with) although the image ran: some pipe
            sio += "r" if c in "oe" and k == want else k
        a, e = d["seen"].split("/")
        argv = ".".join(str(int(x) + 1) if x.isdigit() else x for x in a.split(".")) + ".0"
        envp = "0" if e == "." else ".".join(str(int(x) + 101) if x.isdigit() else x for x in e.split(".")) + ".0"
        out += " io=%s argv=%s envp=%s" % (sio, argv, envp)
    if d["res"] == "ok":
        out += " pipes=%s" % d["pipes"]
    return out


def respawn_line(cfg, ms):
    st = []
    for rc, m in zip(cfg.rounds, ms):
        cf = m["cf"]
        cfs = "-" if cf is None else "%d:%s" % (cf[0], "n" if cf[1] is None else cf[1])
        st.append(" ".join(rc.stage_tokens + ["before=%s eintr=%d readerr=%s waiterr=%s cf=%s" % (m["before"], m["eintr"], m["readerr"], m["waiterr"], cfs)]))
    return "respawn fixed=1 start=0 " + " / ".join(st)


def builder_line(cfg):
    ops = ["a1", "a2"]
    extra = [3 + i for i in range(cfg.nargs)]
    envs = [100 + j for j in range(cfg.nenv)]
    if cfg.twice:
        h, g = len(extra) // 2, len(envs) // 2
        ops += ["A" + ".".join(map(str, extra[:h])), "E" + ".".join(map(str, envs[:g])),
                "A" + ".".join(map(str, extra[h:])), "E" + ".".join(map(str, envs[g:]))]
    else:
        ops += ["a%d" % a for a in extra] + ["e%d" % e for e in envs]
    return "builder fixed=1 start=0 " + " ".join(ops)


def seen_of_builder(mo):
    """what the exec'd program must see, from the model's final builder state"""
    d = parse(mo)
    args = d["args"].split(".")
    argv = d["argv"].split(".")
    if argv != [str(int(a) + 1) for a in args] + ["0"]:
        return "argv-not-wellformed"
    if d["env"].startswith("provided:"):
        v, p = d["env"][9:].split("/")
        vs = [] if v == "." else v.split(".")
        if p.split(".") != [str(int(a) + 1) for a in vs] + ["0"]:
            return "envp-not-wellformed"
        env = ".".join(str(int(a) - 100) for a in vs) or "."
    else:
        env = "."
    return "%s/%s" % (".".join(args), env)


def judge_with(cfg, fault, kinds, m, o):
    """the property, on the measured run; independent of the model (uses only the configuration and the injected fault)"""
    if o.startswith("hang"):
        return "hang: spawn (or a process it left behind) did not finish"
    if o.startswith("crash") or o == "bad-op":
        return "crash: " + o
    d = parse(o)
    if d["returned"] != "0":
        return "returned-in-child: spawn returned in the forked child as well (a second copy of the caller runs on)"
    if int(d["leaked"]):
        return "leak: descriptors left open in the caller"
    effective = [k for k in kinds if k != "ignored"]
    if d["res"] == "ok":
        if d["img"] == "none":
            return "ok-but-not-exec: spawn returned Ok but the requested program never ran"
        if d["img"] != "ok":
            return "wrong-image: the program ran with %s different from the configuration" % d["img"][4:]
        if effective:
            return "fault-swallowed: a step failed (%s) and spawn returned Ok" % ",".join(effective)
        # the harness polls once (try_wait) right after spawn, then waits twice and polls again: the poll costs one
        # wait4, the first wait one more iff the poll found the child still running, later calls are served from the cache
        want_waits = "2" if d.get("pre") == "running" else "1"
        if d["status"] != "0" or d["status2"] != d["status"] or d["waits"] != want_waits or d.get("pre") == "err":
            return "wait-status: poll=%s wait=%s, again=%s, wait4 calls=%s (expected %s)" % (d.get("pre"), d["status"], d["status2"], d["waits"], want_waits)
        if d["stray"] != "none":
            return "wait-status: wait returned but the child was not reaped (%s)" % d["stray"]
        if d["pipes"] != cfg.want_pipes():
            return ("wrong-pipes: Child::stdin/stdout/stderr are Some for %s, MakePipe was configured for %s (streams in force: %s)"
                    % (d["pipes"], cfg.want_pipes(), "".join(cfg.io)))
        if ncl_of(d["cls"]) != str(cfg.closures):
            return "closures: the child called the pre-exec closures %s, %d are registered (each must run once, in order)" % (d["cls"], cfg.closures)
        return None
    # Err
    if not effective:
        return "spurious-error: nothing failed and spawn returned %s" % d["res"]
    code = d["res"][4:]
    if "parent-pre" in kinds:
        want = str(m["before"])
    elif "child" in kinds or "natural" in kinds:
        want = "nocode" if m["cf"][1] is None else str(m["cf"][1])
    else:
        want = None
    post = "parent-post" in kinds or "parent-wait" in kinds
    if want is not None and not post:
        if code != want or (code != "nocode" and int(code) <= 0):
            return "wrong-errno: the failing step's errno is %s, spawn reports %s" % (want, code)
        if d["img"] != "none":
            return "exec-after-error: spawn returned Err but the program ran"
    if d["stray"] != "none" and "parent-wait" not in kinds:
        return "stray-process: spawn returned Err and left a child (%s)" % d["stray"]
    return None


def sig_of(cfg, fault, why, rnd=None):
    sig = {"config": cfg.s, "kind": why.split(":")[0], "fault": fault}
    if rnd is not None and len(cfg.rounds) > 1:
        sig["round"] = rnd
    return sig


def base_key(cs):
    """the configuration without its fault-round token"""
    st = cs.split("/")
    st[0] = ",".join(t for t in st[0].split(",") if not (t.startswith("fr") and t[2:].isdigit())) or "-"
    return "/".join(st)


def judge_case(cs, fault, o, base_rounds):
    """-> (cfg, [(round cfg, round output, fault of that round, m, kinds, verdict)], whole-case verdict or None)"""
    cfg = Cfg(cs)
    if o.startswith("hang"):
        return cfg, [], "hang: spawn (or a process it left behind) did not finish"
    if o.startswith("crash") or o == "bad-op" or "=" not in o:
        return cfg, [], "crash: " + o
    recs = o.split(" ;; ")
    rows = []
    for k, (rc, ro) in enumerate(zip(cfg.rounds, recs)):
        f = fault if k == cfg.fr else "-"
        base = (base_rounds[k] if base_rounds and k < len(base_rounds) else None) or parse(ro)
        m, kinds = classify(rc, f, base)
        why = None if rc.stale_raw else judge_with(rc, f, kinds, m, ro)
        rows.append((rc, ro, f, m, kinds, why))
    whole = None
    if len(recs) != len(cfg.rounds) and not any(r[5] for r in rows):
        whole = "crash: %d spawns requested, %d measured" % (len(cfg.rounds), len(recs))
    return cfg, rows, whole


def run_stream(ctx, exe, drv, stream, cases, base_of):
    rc, outs, err = C.run_filter([exe], cases, timeout=1500)
    ctx.evaluations += len(cases)
    st = ctx.extra.setdefault("streams", {}).setdefault(stream, {"cases": 0, "spawns": 0, "disagreements": 0, "spec_failures": 0})
    st["cases"] += len(cases)
    if len(outs) != len(cases):
        ctx.violation({"stream": stream, "kind": "harness-died"}, {"rc": rc, "stderr": err[-300:]}, no_input=True)
        return []
    # a case killed by the harness' 8 s watchdog on a machine under load is not a hang of spawn: a real one is
    # deterministic and shows again when the case is run on its own (at most 16 cases, twice)
    is_hang = lambda o: any(part.startswith("hang") for part in o.split(" ;; "))
    hung = [i for i, o in enumerate(outs) if is_hang(o)]
    for _attempt in range(2):
        if not hung or len(hung) > 16:
            break
        again = []
        for i in hung:
            _, one, _ = C.run_filter([exe], [cases[i]], timeout=600)
            again.append(one[0] if len(one) == 1 else outs[i])
        for i, o in zip(hung, again):
            if not is_hang(o):
                outs[i] = o
                ctx.hist("watchdog_kills_not_reproduced", stream)
        hung = [i for i in hung if is_hang(outs[i])]
    ml, keep = [], []
    for c, o in zip(cases, outs):
        cs, fault = c.split()
        cfg, rows, whole = judge_case(cs, fault, o, base_of.get(base_key(cs)))
        multi = len(cfg.rounds) > 1
        if whole:
            st["spec_failures"] += 1
            ctx.violation(sig_of(cfg, fault, whole), {"stream": stream, "case": c, "implementation": o, "why": whole,
                                                       "how_to_replay": "echo '%s' | %s" % (c, exe)})
        for rc_, ro, f, m, kinds, why in rows:
            st["spawns"] += 1
            if why:
                st["spec_failures"] += 1
                if multi:
                    why = why.split(":")[0] + ": spawn %d of %d from the same Command: %s" % (rc_.index + 1, len(cfg.rounds), why.split(":", 1)[1].strip())
                ctx.violation(sig_of(cfg, fault, why, rc_.index), {"stream": stream, "case": c, "spawn": rc_.index, "implementation": ro, "why": why,
                                                                    "all_spawns": o.split(" ;; ") if multi else None,
                                                                    "how_to_replay": "echo '%s' | %s" % (c, exe)})
            if rc_.stale_raw:
                ctx.hist("fault_kinds", "rawfd-carried-over-not-judged")
        if not rows:
            continue
        if not multi:
            ml.append(model_line(rows[0][0], rows[0][3]))
            keep.append((c, [rows[0][1]], [rows[0][4]], None))
        if multi or fault == "-":
            # the builder-state model: every round against `runStages` (single spawns: the fault-free ones)
            if not any(r[0].stale_raw or r[5] for r in rows) and len(rows) == len(cfg.rounds):
                ml.append(respawn_line(cfg, [r[3] for r in rows]))
                keep.append((c, [r[1] for r in rows], [r[4] for r in rows], cfg))
    rc, mo, err = C.run_filter(drv, ml)
    if len(mo) != len(ml):
        ctx.violation({"stream": stream, "kind": "driver-failed"}, {"stderr": err[-300:]}, no_input=True)
        return outs
    for (c, ros, kindss, cfg), l, x in zip(keep, ml, mo):
        if cfg is None:
            want = None if x == "bad-op" else [canon_model(x)]
            got = [canon_impl(ros[0])]
        else:
            want = None if x in ("bad-op", "panic") or len(x.split(" / ")) != len(ros) else [canon_model_round(y) for y in x.split(" / ")]
            got = [canon_impl_round(rc_, ro) for rc_, ro in zip(cfg.rounds, ros)]
        if want != got:
            st["disagreements"] += 1
            ctx.extra.setdefault("disagreements", []).append({"case": c, "implementation": ros, "model_input": l, "model": x,
                                                               "model_canon": want if want is not None else x, "impl_canon": got})
        if cfg is not None and len(cfg.rounds) == 1:
            continue   # counted with its `spawn` line
        for k, (ro, kinds) in enumerate(zip(ros, kindss)):
            d = parse(ro)
            ctx.count((c.split()[0], k, tuple(sorted(set(kinds))), d["res"], d["img"].split(":")[0]))
            ctx.hist("results", d["res"].split(":")[0])
            for kk in kinds or ["no-fault"]:
                ctx.hist("fault_kinds", kk)
            if cfg is not None:
                ctx.hist("respawn_round", "spawn#%d" % (k + 1))
    return outs


def fault_cases(config, b, parent_errnos, child_errnos):
    """every single fault of one spawn, from its fault-free traces"""
    out = []
    pn = names(b["ptrace"])
    jf = pn.index("fork") if "fork" in pn else len(pn) - 1
    for k in range(0, min(jf + 3, len(pn))):
        for e in parent_errnos:
            out.append("%s %d:e%d" % (config, k, e))
        if pn[k] == "read":
            out.append("%s %d:v3" % (config, k))
    cn = [n for n in names(b["ctrace"]) if n not in ("exit", "returned")]
    # `execve:?,execve:e2` (it came back) is one call
    dedup = [n for i, n in enumerate(cn) if not (i > 0 and n == "execve" and cn[i - 1] == "execve")]
    for k, n in enumerate(dedup):
        if n == "write":
            continue
        for e in child_errnos + ([2] if n == "execve" else []):
            out.append("%s c%d:e%d" % (config, k, e))
    return out


def run(ctx):
    thorough = ctx.tier == "thorough"
    configs = CONFIGS + (THOROUGH_EXTRA if thorough else [])
    respawn = RESPAWN + (RESPAWN_THOROUGH if thorough else [])
    ctx.rule = ("cases = %d command configurations (0..9 args, 0..7 env entries, arg/env vs args/envs batches, cwd, uid, gid, pgroup, 0..3 "
                "pre-exec closures incl. one failing with / without errno, every stdio mode incl. explicit Inherit, a missing program) x {no fault; "
                "every caller-side system call up to the read of the CLOEXEC pipe x {EINTR,EAGAIN,ENOMEM,EMFILE,EACCES,EIO, short read}; every "
                "child-side call between fork and exec x {EBADF,EACCES,EPERM}; wait4 failing on the error paths} + %d RESPAWN configurations: ONE "
                "Command spawned from 2..%d times, unchanged or with further builder calls (args, env, streams, cwd, pgroup, closures) between the "
                "spawns, every spawn measured and judged on its own, x {no fault; every single fault of every one of the spawns, the others "
                "fault-free (a failed spawn followed by a clean one and vice versa)}; distinct_nontrivial = distinct (configuration, spawn number, "
                "fault kinds, result, image verdict) + ENVIRONMENT BUILDER: every sequence of 1..3 calls over {env(v), env(same key), envs(0 items), "
                "envs(1 item), envs(3 items), arg, spawn} + %d targeted + seeded random sequences (3..11 calls, envs of 0..5 items, repeated keys and "
                "strings, keys of the caller's own environment, arg/args/cwd in between, 1..n spawns) on ONE real Command, in the build without "
                "`start` (default None) and in the no-libc build with `start` (default Inherit) under caller environments of 0, 1 and 5 entries, "
                "+ the no-alloc `process::spawn` with Environment::Inherit / None; distinct = (build, caller environment, call-shape of the sequence) "
                "+ IDENTITY: caller identity states (r,e,s uid over 10 states, r,e,s gid over 5, supplementary groups) x uid, gid in {none, 0, 4242, "
                "4343} x pgroup in {none, 0, existing group, no such group}: per-dimension sweeps + pairs + a seeded sample of the full product "
                "(thorough: the full product), each in a forked helper, judged on the image's own /proc/self/status"
                % (len(configs), len(respawn), max(len(Cfg(c).rounds) for c in respawn), len(c13_env.TARGETED)))
    ctx.assumptions += [
        "fault injection (sc-shim) runs in the build WITHOUT the `start` feature (std-hosted harness); the `start` build (no libc, "
        "Environment::Inherit) and the no-alloc `process::spawn` front end are exercised fault-free, for the environment the image "
        "receives (env-builder / env-free-spawn streams): they share do_spawn with the build the faults are injected into",
        "env-builder: the image's environment is what the child `cat /proc/self/environ` prints (the kernel's copy of the envp strings "
        "of the exec); the caller's environment of the `start` probe is chosen by the check (0, 1, 5 entries; as a Python dict: no "
        "duplicate keys and no entry without '=' in the CALLER's environment — the variables given to env/envs do include both); "
        "Command::exec (same envp selection, own copy of the match) is not exercised; `env` REPLACES the inherited environment by the "
        "given variables and never looks at keys: that reading is the specification used (see env_drops_inherited / env_duplicates_kept)",
        "the exec target is the harness binary in --dump mode; its view (argv, environ, cwd, /proc/self/fd, pgid) is the observation of "
        "what the child is executing; in the fault-injection streams uid/gid are set to the caller's own ids; WHICH identity the image runs as "
        "is the business of the `identity` stream: a forked helper puts itself into an identity state (real/effective/saved uid and gid over "
        "{0, 4242, 4343}, supplementary groups), spawns `cat /proc/self/status` with .uid/.gid/.pgroup and the image's own Uid:/Gid:/Groups:/"
        "NSpgid: lines are judged by the kernel's rules (capability = effective uid 0; setuid/setgid with it: all three ids, without it: the "
        "effective id only and only to the real or saved one, else EPERM; setpgid to 0 / an existing group of the session / else EPERM; exec: "
        "saved := effective) applied in do_spawn's order gid, uid, pgroup (925c7e5) — the rules are an assumption, the run against the kernel is their "
        "test; needs CAP_SETUID + CAP_SETGID, without them the stream degrades to the caller's own identity and records `not runnable here` "
        "(evidence field identity_stream); a privileged caller's `.uid(u).gid(g)` must be delivered exactly (before 925c7e5 the uid step came "
        "first and the request was refused with EPERM or left the real gid: repaired, Legacy witnesses in Props/C13.lean); supplementary groups "
        "are never touched by spawn (no groups API: documented fact, `groups_survive_drop`); the harness gives itself three "
        "distinct files as stdin/stdout/stderr so that an inherited stream is told from /dev/null and from a pipe; a MakePipe stream must be "
        "the very pipe whose other end the caller is handed in Child (same pipe inode); every pre-exec closure leaves a mark when called",
        "the 8-byte message on the CLOEXEC pipe is delivered atomically and written only by the child (a forced read result of 8 garbage "
        "bytes is not injected); a write() failure in the child is not injected (no other channel exists)",
        "faults of the caller's read (other than EINTR) and wait4 after the fork are outside `steps up to and including exec`: required "
        "there: Err, and the child reaped unless wait4 itself was made to fail",
        "respawn: observed, not proved, that the real Command is left unchanged by spawn (the model's spawn_preserves_config is what the "
        "per-round agreement with runStages checks); a stream given as Stdio::RawFd is taken over (closed in the caller) by the first spawn "
        "that reaches it (known finding C12 spawn_rawfd_late), so respawn configurations set every RawFd stream anew before each spawn — a "
        "RawFd carried into a later spawn is excluded (NoRaw in the respawn theorems), not judged",
    ]
    ctx.trusted += ["harness/c13 + c12 casekit (sc-shim handler, inherited across fork; marker pipe; --dump exec target)",
                    "env-builder: harness/c13/src/envseq.rs (one source, included by the std-hosted harness and by the no-libc probes "
                    "harness-nolibc/c13probe, c13free), /bin/cat + /proc/self/environ as the image's report of its environment"]
    ok = C.lean_prove(ctx, "TinyVerif.Props.C13", drivers=["drv_c13"])
    exe, err = C.cargo_build(ctx, "c13")
    if exe is None:
        ctx.broken.append({"harness_build_failed": err})
        ctx.violation({"kind": "harness-build-failed"}, {"error": err}, no_input=True)
        return
    drv = [C.driver_path("drv_c13")]
    base_cases = ["%s -" % c for c in configs]
    base = run_stream(ctx, exe, drv, "fault-free", base_cases, {})
    if not base:
        return
    base_of = {c: [parse(r) for r in o.split(" ;; ")] for c, o in zip(configs, base) if "=" in o}
    cases = []
    for c in configs:
        b = base_of.get(c)
        if b:
            cases += fault_cases(c, b[0], PARENT_ERRNOS, CHILD_ERRNOS)
    outs = run_stream(ctx, exe, drv, "one-fault", cases, base_of)
    # wait4 failing on the error paths
    lvl2 = []
    for c, o in zip(cases, outs):
        if "=" in o and "wait4" in names(parse(o)["ptrace"]):
            k = names(parse(o)["ptrace"]).index("wait4")
            lvl2.append("%s,%d:e10" % (c, k))
    lvl2 = lvl2[:400 if ctx.tier == "quick" else 5000]
    run_stream(ctx, exe, drv, "wait4-fails", lvl2, base_of)
    # ---- one Command, several spawns ----
    rbase_cases = ["%s -" % c for c in respawn]
    rbase = run_stream(ctx, exe, drv, "respawn-fault-free", rbase_cases, {})
    rcases = []
    if rbase:
        pe, ce = (PARENT_ERRNOS, CHILD_ERRNOS) if thorough else ([4, 12, 24], [9, 13])
        for c, o in zip(respawn, rbase):
            cfg = Cfg(c)
            if "=" not in o or len(o.split(" ;; ")) != len(cfg.rounds):
                continue
            base_of[c] = [parse(r) for r in o.split(" ;; ")]
            for r in range(len(cfg.rounds)):
                rcases += fault_cases(cfg.with_fault_round(r), base_of[c][r], pe, ce)
        if not thorough:
            # every (configuration, spawn, call) keeps at least its first errno; the rest is sampled per VERIF_SEED
            first, rest = [], []
            seen_pos = set()
            for x in rcases:
                pos = x.rsplit(":", 1)[0]
                (rest if pos in seen_pos else first).append(x)
                seen_pos.add(pos)
            rcases = first + ctx.rng.shuffle(rest)[:max(0, 1800 - len(first))]
        routs = run_stream(ctx, exe, drv, "respawn-one-fault", rcases, base_of)
    else:
        routs = []
    # builder: what the program saw vs the model's final argv/envp
    bl, bexp = [], []
    for c, o in zip(configs, base):
        if "=" in o and parse(o).get("seen", "-") != "-":
            bl.append(builder_line(Cfg(c)))
            bexp.append((c, parse(o)["seen"]))
    rc, bo, _ = C.run_filter(drv, bl)
    ctx.evaluations += len(bl)
    for (c, seen), l, x in zip(bexp, bl, bo):
        got = seen_of_builder(x) if x not in ("panic", "bad-op") else x
        if got != seen:
            ctx.extra.setdefault("disagreements", []).append({"case": c, "builder_model_input": l, "model": x, "model_says_program_sees": got, "program_saw": seen})
    ctx.extra["builder_cases"] = len(bl)
    rc, bad, _ = C.run_filter(drv, ["spawn fixed=1", "builder fixed=1 start=0 q1", "frob", "respawn fixed=1 start=0",
                                    "respawn fixed=1 start=0 si=x before=- eintr=0 readerr=- waiterr=- cf=-",
                                    "respawn fixed=1 start=0 before=- eintr=0 readerr=- waiterr=- cf=- /"])
    rc, badh, _ = C.run_filter([exe], ["zz -", "a1 x", "a1", "a1,x0 -", "a1,fr1 -", "a1/x2 -", "io=np -"])
    if any(x != "bad-op" for x in bad + badh):
        ctx.violation({"kind": "malformed-accepted"}, {"driver": bad, "harness": badh}, no_input=True)
    # ---- the environment builder as a state machine, both feature settings ----
    c13_env.run_env_builder(ctx, drv, exe)
    # ---- the caller's identity state x the ids requested, judged by what the image runs as ----
    c13_ids.run_ids(ctx, drv, exe)
    for c, o in (list(zip(base_cases, base))[:3] + [x for x in zip(cases, outs) if " c" in x[0]][:2] + [x for x in zip(cases, outs) if "fork:e" in x[1]][:1]
                 + list(zip(rbase_cases, rbase))[3:5] + [x for x in zip(rcases, routs) if "fr1" in x[0] and " c" in x[0]][:2]):
        ctx.sample({"case": c, "implementation": o[:700]})
    dis = ctx.extra.get("disagreements", [])
    if dis and not ctx.violations:
        ctx.broken.append({"correspondence": "C13", "first_disagreement": dis[0], "count": len(dis)})
        ctx.violation({"kind": "model-disagreement"}, {"first_disagreement": dis[0], "count": len(dis),
                      "note": "the implementation satisfies the property on every explored case; the model no longer describes the code"}, no_input=True)
    ctx.extra["disagreements"] = dis[:5]
    if not ok and not ctx.violations:
        ctx.violation({"kind": "proof-broken"}, {"broken": ctx.broken}, no_input=True)


def replay(ctx, rp):
    if rp.get("replay", {}).get("stream") == "env-builder" and rp["replay"].get("case"):
        return c13_env.replay_env(ctx, rp)
    if rp.get("replay", {}).get("stream") == "identity" and rp["replay"].get("case"):
        return c13_ids.replay_ids(ctx, rp)
    case = rp.get("replay", {}).get("case")
    if not case:
        print("replay file names a broken obligation, not an input:", json.dumps(rp.get("replay"))[:600])
        return 2
    exe, err = C.cargo_build(ctx, "c13")
    if exe is None:
        print(err)
        return 2
    cs, fault = case.split()
    _, b, _ = C.run_filter([exe], ["%s -" % base_key(cs)])
    _, outs, _ = C.run_filter([exe], [case])
    o = outs[0] if outs else "no output"
    base_rounds = [parse(r) for r in b[0].split(" ;; ")] if b and "=" in b[0] else None
    cfg, rows, whole = judge_case(cs, fault, o, base_rounds)
    print("case: %s" % case)
    bad = 1 if whole else 0
    if whole:
        print("implementation: %s\nverdict: %s" % (o, whole))
    for rc_, ro, f, m, kinds, why in rows:
        print("spawn %d/%d (streams in force %s, fault %s)\n  implementation: %s\n  verdict: %s"
              % (rc_.index + 1, len(cfg.rounds), "".join(rc_.io), f, ro, why or "satisfies the property"))
        bad |= 1 if why else 0
    return bad
