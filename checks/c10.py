"""C10 — every UnixStr/UnixString produced by a safe constructor, conversion or path operation is
NUL-terminated exactly once; unrepresentable inputs are errors, never panics.
(Shares the harness `c10`, the driver `drv_c10` and the case helpers below with C11.)"""
import itertools
import os
import shutil
import tempfile

from . import common as C

SL = 0x2F
CTOR_BORROWED = ["ustr_bytes", "ustr_str"]
CTOR_OWNED = ["ustring_bytes", "ustring_vec", "ustring_vec_cap", "ustring_str", "ustring_string", "ustring_string_cap", "ustring_fromstr"]
STR_OPS = {"ustr_str", "ustring_str", "ustring_string", "ustring_string_cap", "ustring_fromstr", "const", "format"}
LITS = [b"", b"a", b"/", b".", b"a/b", b"/etc/passwd", b"hello/there/friend", b"//"]


def hx(b):
    return C.hexs(bytes(b))


def wfu(raw):
    return len(raw) >= 1 and raw[-1] == 0 and 0 not in raw[:-1]


def strings(alphabet, maxlen):
    for n in range(maxlen + 1):
        for t in itertools.product(alphabet, repeat=n):
            yield bytes(t)


def parse_out(out):
    """-> (kind, raw bytes or None, number or None)"""
    w = out.split()
    if not w:
        return ("empty", None, None)
    if w[0] in ("ok", "some") and len(w) == 3:
        return (w[0], C.unhex(w[1]), int(w[2]))
    if w[0] in ("some", "val") and len(w) == 2:
        return (w[0], None, int(w[1]))
    return (" ".join(w), None, None)


# ------------------------------------------------------------------ fmt::Arguments shapes
# Format strings that are LITERALS in the harness source (harness/c10/src/fmt_shapes.rs holds the same table, compared
# by fmt_table_observation), by their rendered bytes.  `Arguments::as_str()` is Some only for a literal without
# arguments, so a fast path keyed on it is reachable only through these — never through a swept run-time string.
FMT_LITS = [b"", b"a", b"/a", b"a/", b"/", b"//x", b"a/b", b".", b"./b", b"there", b"/there", b"//", b"/a/",
            b"a\0b", b"a\0", b"\0", b"/\0", b"{}", b"/{a}", b"}/{", b"a" * 255, b"/" + b"b" * 298 + b"/"]
FMT_FORMS = {"l": 0, "la": 1, "al": 1, "lal": 1, "a": 1, "ala": 2, "laa": 2, "aal": 2}      # form -> number of run-time arguments
FMT_OPS = {"formats": 0, "join_fmts": 1}                                                   # op -> number of operands before the literal


def fmt_render(form, lit, x, y):
    """what `alloc::fmt::format` makes of the shape: the pieces in source order"""
    return {"l": lit, "la": lit + x, "al": x + lit, "lal": lit + x + lit, "a": x,
            "ala": x + lit + y, "laa": lit + x + y, "aal": x + y + lit}[form]


def fmt_parts(case):
    """(form, literal, x, y) of a `formats` / `join_fmts` line, else None"""
    w = case.split()
    if w[0] == "at":
        w = w[2:]
    if w[0] not in FMT_OPS:
        return None
    k = 1 + FMT_OPS[w[0]]
    return w[k + 1], C.unhex(w[k]), C.unhex(w[k + 2]), C.unhex(w[k + 3])


def fmt_line(op, form, lit, x=b"", y=b"", base=None, at=""):
    return at + op + " " + ("" if base is None else hx(base) + " ") + "%s %s %s %s" % (hx(lit), form, hx(x), hx(y))


def operands(case):
    """(op, operands); a leading `at <n>` (operand placement, see AT) is not part of the operation.  For the
    Arguments-shape lines (`formats <lit> <form> <x> <y>`, `join_fmts <a> <lit> <form> <x> <y>`) the formatted operand is
    the RENDERED payload: the property speaks about bytes, not about how the caller spelled the format string"""
    w = case.split()
    if w[0] == "at":
        w = w[2:]
    if w[0] in FMT_OPS:
        k = 1 + FMT_OPS[w[0]]
        form, lit, x, y = fmt_parts(case)
        return w[0], [C.unhex(t) for t in w[1:k]] + [fmt_render(form, lit, x, y)]
    return w[0], [C.unhex(x) for x in w[1:]]


def placed(case):
    return case.startswith("at ")


FILLS = [0xAA, SL, 0x00, 0x61]


def AT(ka, kb=0, fill=0):
    """`at <n> ` prefix: the harness makes the first operand a sub-slice starting at an address = ka (mod 16), the
    second at kb (mod 16), with FILLS[fill] in the 32 bytes before and the <= 15 readable bytes behind each of them
    (without the prefix an operand ends exactly at a PROT_NONE page, so its start alignment is tied to its length)"""
    return "at %d " % (ka + 16 * kb + 256 * fill)


class Pool:
    """NUL-free filler bytes: slices at random offsets of one random buffer (cheap for megabytes of cases)"""

    def __init__(self, r, alphabet, n=12288):
        self.r = r
        self.b = r.bytes(n, alphabet)

    def take(self, n):
        o = self.r.below(len(self.b) - n + 1)
        return self.b[o:o + n]


def positions(r, n, dense=96, edge=48, mid=32):
    """every index of a length-n operand when n <= dense, else the first/last `edge` ones and `mid` random inner ones"""
    if n <= max(dense, 2 * edge + 1):
        return list(range(n))
    ps = set(range(edge)) | set(range(n - edge, n))
    for _ in range(mid):
        ps.add(r.range(edge, n - edge - 1))
    return sorted(ps)


ALL16 = list(range(16))


def mod8_cover(r):
    """8 start alignments covering every residue modulo 8 (each randomly in the lower or upper half of a 16-byte line)"""
    return [k + 8 * r.below(2) for k in range(8)]


def long_random(rng, n, alphabet, maxlen=5000):
    out = []
    for _ in range(n):
        k = rng.choice([rng.range(5, 40), rng.range(40, 600), rng.range(600, maxlen)])
        out.append(rng.bytes(k, alphabet))
    return out


# ------------------------------------------------------------------ spec oracle (C10)

def judge(case, out):
    if case.startswith("mode"):
        return None
    op, ops = operands(case)
    kind, raw, num = parse_out(out)
    a = ops[0]
    if kind in ("oob",) or kind.startswith("abort"):
        return "memory fault: " + kind
    if kind == "bad-op":
        return "harness rejected a well-formed case"
    if op == "const":
        # the const validator's rejection *is* a panic (a compile error in const context)
        if wfu(a):
            return None if (kind == "ok" and raw == a and num == len(a)) else "const validator refused a well-formed literal"
        return None if kind == "panic" else "const validator accepted bytes that are not NUL-terminated exactly once"
    if kind == "panic":
        return "panicked"
    if raw is not None and num != len(raw):
        return "len() disagrees with the slice length"
    if op in CTOR_BORROWED:
        if wfu(a):
            return None if (kind == "ok" and raw == a) else "wrong: well-formed input not returned unchanged"
        exp = "err interior" if 0 in a else "err noterm"
        if kind == "ok":
            return "not-wfu: accepted bytes that are not NUL-terminated exactly once"
        return None if kind == exp else "wrong error kind: expected " + exp
    if op in CTOR_OWNED:
        if 0 not in a:
            exp = a + b"\0"
        elif wfu(a):
            exp = a
        else:
            if kind == "ok":
                return "not-wfu: accepted an interior NUL"
            return None if kind == "err interior" else "wrong error kind: expected err interior"
        if kind != "ok":
            return "rejected a representable input"
        if not wfu(raw):
            return "not-wfu: result is not NUL-terminated exactly once"
        return None if raw == exp else "wrong: content differs from the input"
    if op == "lit":
        return None if (kind == "ok" and raw == a + b"\0") else "wrong: literal not reproduced with one terminator"
    if op in ("format", "formats"):
        if kind != "ok":
            return "wrong outcome"
        if 0 not in a:
            return None if raw == a + b"\0" else ("not-wfu: result is not payload + NUL" if not wfu(raw) else "wrong: content differs from the payload")
        if wfu(a):
            return None if raw == a else "wrong: terminated payload not kept as is"
        return None  # interior NUL from a format argument: outside the property (NUL-free inputs)
    if op == "dname":
        if 0 in a:
            exp = a[:a.index(0) + 1]
            return None if (kind == "ok" and raw == exp) else "wrong: name is not the buffer up to and including its first NUL"
        return None if kind == "err noterm" else "wrong outcome for an unterminated name buffer"
    # ---- operations on &UnixStr
    valid = wfu(a) and (op not in ("join",) or wfu(ops[1]))
    if not valid:
        return None if kind == "reject" else "operand that is not a UnixStr was not rejected"
    if kind == "reject":
        return "well-formed operand rejected"
    if op == "own":
        return None if (kind == "ok" and raw == a) else "wrong: owned copy differs"
    if op in ("parent", "file_name"):
        if kind == "none":
            return None
        if kind != "some":
            return "wrong outcome"
        return None if wfu(raw) else "not-wfu: result is not NUL-terminated exactly once"
    if op == "join":
        if kind != "ok":
            return "wrong outcome"
        return None if wfu(raw) else "not-wfu: result is not NUL-terminated exactly once"
    if op in ("join_fmt", "join_fmts"):
        p = ops[1]
        if kind != "ok":
            return "wrong outcome"
        if 0 in p[:-1]:
            return None  # interior NUL from a format argument: outside the property
        return None if wfu(raw) else "not-wfu: result is not NUL-terminated exactly once"
    return "unknown op"


def sig_of(case, out, why):
    return {"op": operands(case)[0], "kind": why.split(":")[0]}


# ------------------------------------------------------------------ cases

def gen_cases(ctx):
    quick = ctx.tier == "quick"
    r = ctx.rng
    alpha = [0x61, SL, 0x2E, 0x00, 0xFF]
    un = list(strings(alpha, 4 if quick else 6))
    cases = []
    for s in un:
        ascii_ok = all(x < 0x80 for x in s)
        for op in CTOR_BORROWED + CTOR_OWNED + ["const", "format", "dname", "parent", "file_name", "own"]:
            if op in STR_OPS and not ascii_ok:
                continue
            cases.append("%s %s" % (op, hx(s)))
    # every NUL-free content, terminated (all of these reach the operation)
    for s in strings([0x61, SL, 0x2E, 0xFF], 4 if quick else 6):
        for op in ["parent", "file_name"]:
            cases.append("%s %s" % (op, hx(s + b"\0")))
    for l in LITS:
        cases.append("lit " + hx(l))
    # binary: join over raw operands (incl. ill-formed ones -> reject), join_fmt over payloads with NULs
    raws = list(strings([0x61, SL, 0x00], 3 if quick else 4))
    for a in raws:
        for b in raws:
            if wfu(a) or r.chance(1, 8):
                cases.append("join %s %s" % (hx(a), hx(b)))
                cases.append("join_fmt %s %s" % (hx(a), hx(b)))
    conts = [s + b"\0" for s in strings([0x61, SL, 0xFF], 3 if quick else 4)]
    for a in conts:
        for b in conts:
            cases.append("join %s %s" % (hx(a), hx(b)))
    # long random strings
    nl = 30 if quick else 400
    for s in long_random(r, nl, [0x61, 0x62, SL, 0x2E, 0xFF, 0x80, 0x7F, 0x01]):
        k = r.below(4)
        t = s if k else s + b"\0"
        if k == 1:
            i = r.below(len(s))
            t = s[:i] + b"\0" + s[i:]          # interior NUL
        if k == 2:
            t = s[:-1] + b"\0\0"               # NUL at the second-to-last position too
        for op in ["ustr_bytes", "ustring_bytes", "ustring_vec", "ustring_vec_cap", "dname", "parent", "file_name", "own"]:
            cases.append("%s %s" % (op, hx(t)))
        cases.append("parent %s" % hx(s + b"\0"))
        cases.append("file_name %s" % hx(s + b"\0"))
    for s in long_random(r, nl, [0x61, 0x62, SL, 0x2E, 0x7F, 0x01]):
        t = s + (b"\0" if r.chance(1, 3) else b"")
        for op in ["ustr_str", "ustring_str", "ustring_string", "ustring_string_cap", "ustring_fromstr", "const", "format"]:
            cases.append("%s %s" % (op, hx(t)))
        u = r.bytes(r.range(0, 3000), [0x61, SL, 0x2E])
        cases.append("join %s %s" % (hx(s + b"\0"), hx(u + b"\0")))
        cases.append("join_fmt %s %s" % (hx(s + b"\0"), hx(u)))
    return cases


BOUNDARY_LENS = [63, 64, 65, 127, 128, 129, 254, 255, 256, 257, 300]
PATH_MAX_LENS = [4095, 4096, 4097]
COMPONENT_LENS = [1, 2, 100, 253, 254, 255, 256, 257, 258, 300, 511, 512, 513, 1000, 4094, 4095, 4096, 4097]
PREFIXES = [b"/", b"a/", b"/tmp/", b"/x/yy/", b"./", b"//", b"a//", b"a" * 300 + b"/", b"/" + b"b" * 255 + b"/"]


def long_component_paths(r):
    """contents (no terminator) built around ONE long component: prefix + '/' + component, with and without a trailing
    separator, and the component alone"""
    out = []
    for c in COMPONENT_LENS:
        comp = bytes([r.choice([0x61, 0x62, 0x2E, 0xFF])]) * c
        out.append(comp)
        for pre in PREFIXES:
            out.append(pre + comp)
            if r.chance(1, 3):
                out.append(pre + comp + b"/")
    return out


def gen_placed(ctx):
    """operand ADDRESS and LENGTH as explored dimensions: every constructor / conversion is handed sub-slices at chosen
    start alignments, with a NUL planted at every position (alone, and together with a terminator), over all lengths up
    to 48 (thorough 80) and at the 64/128/NAME_MAX/PATH_MAX boundaries; path operations on long single components"""
    quick = ctx.tier == "quick"
    r = ctx.rng
    bin_pool = Pool(r, [0x61, SL, 0x2E, 0x01, 0x7F, 0x80, 0x81, 0xFE, 0xFF])
    asc_pool = Pool(r, [0x61, SL, 0x2E, 0x01, 0x7F, 0x41])
    cases = []

    def emit(op, ka, s, kb=0, b=None):
        cases.append(AT(ka, kb, r.below(4)) + op + " " + hx(s) + ("" if b is None else " " + hx(b)))

    def body(op, n):
        if r.chance(1, 4):
            return b"a" * n
        return (asc_pool if op in STR_OPS else bin_pool).take(n)

    def nul_grid(op, lengths, aligns, dense=96, edge=48, mid=32):
        for n in lengths:
            for ka in aligns():
                emit(op, ka, body(op, n))                      # no NUL anywhere
                for p in positions(r, n, dense, edge, mid):
                    b = bytearray(body(op, n))
                    b[p] = 0
                    emit(op, ka, bytes(b))                     # one NUL, at p (p = n-1: the well-formed string)
                    if p < n - 1:
                        b[n - 1] = 0
                        emit(op, ka, bytes(b))                 # a NUL at p AND a terminator

    short = list(range(0, 49 if quick else 81))
    nul_grid("ustr_bytes", short, lambda: ALL16)
    nul_grid("ustr_bytes", BOUNDARY_LENS, lambda: ALL16, dense=0, edge=24, mid=16)
    nul_grid("ustr_bytes", [130, 301], lambda: ALL16, dense=0, edge=72, mid=8)          # head/tail windows of 32-byte-wide scans
    nul_grid("ustr_bytes", PATH_MAX_LENS, lambda: [r.below(16) for _ in range(4)], dense=0, edge=20 if quick else 48, mid=4)
    sec_short = list(range(0, 25 if quick else 49)) + [31, 32, 33, 40]
    for op in ["ustr_str", "ustring_bytes", "ustring_str", "const", "dname"]:
        nul_grid(op, sec_short, lambda: mod8_cover(r))
        nul_grid(op, [64, 255, 256, 257], lambda: mod8_cover(r), dense=0, edge=20, mid=8)
    for op in ["ustring_vec", "ustring_vec_cap", "ustring_string", "ustring_string_cap", "ustring_fromstr", "format"]:
        nul_grid(op, [17, 24, 33, 256], lambda: [r.below(16)], dense=0, edge=17, mid=4)
    # path operations: long single components (NAME_MAX / PATH_MAX boundaries), any alignment
    paths = long_component_paths(r)
    for c in paths:
        for op in ["parent", "file_name", "own"]:
            emit(op, r.below(16), c + b"\0")
    for _ in range(120 if quick else 1200):
        a, b = r.choice(paths), r.choice(paths)
        a = a[:r.choice([len(a), 254, 255, 256])]
        emit("join", r.below(16), a + b"\0", r.below(16), b + b"\0")
        if all(x < 0x80 for x in b):
            emit("join_fmt", r.below(16), a + b"\0", r.below(16), b)
    return cases


FMT_ARGS = [b"", b"a", b"/", b"/a", b"a/", b"//", b"b/c", b".", b"q" * 260, b"/" + b"q" * 254]
FMT_ARGS_SMALL = FMT_ARGS[:6]
FMT_BASES = [b"", b"/", b"a", b"a/", b"a//", b"//", b"/a", b"a/b", b"a/b/", b".", b"there", b"hello/",
             b"x" * 255, b"x" * 254 + b"/", b"/" + b"y" * 299, b"z" * 4096 + b"//"]


def fmt_shape_lines(r, op, base=None, pairs=None, nul_args=False, at_share=4):
    """every table literal in every Arguments shape: literal only; literal before / behind / around one run-time
    argument; the argument alone; literal between / before / behind two arguments — arguments from FMT_ARGS (empty, with
    leading / trailing / double separators, longer than NAME_MAX), `pairs` argument pairs per two-argument shape (None:
    all 36 small pairs).  One line in `at_share` is placed (`at <n>`: base and first argument at chosen alignments)"""
    out = []

    def emit(form, lit, x=b"", y=b""):
        at = AT(r.below(16), r.below(16), r.below(4)) if r.chance(1, at_share) else ""
        out.append(fmt_line(op, form, lit, x, y, base, at))

    args1 = FMT_ARGS + ([b"\0", b"a\0", b"a\0b"] if nul_args else [])
    for lit in FMT_LITS:
        emit("l", lit)
        for form in ("la", "al", "lal"):
            for x in args1:
                emit(form, lit, x)
        small = [(x, y) for x in FMT_ARGS_SMALL for y in FMT_ARGS_SMALL]
        for form in ("ala", "laa", "aal"):
            for x, y in (small if pairs is None else r.shuffle(small)[:pairs]):
                emit(form, lit, x, y)
            emit(form, lit, r.choice(FMT_ARGS), r.choice(args1))
    for x in args1:
        emit("a", b"", x)
    return out


def gen_fmt_shapes(ctx):
    """C10: from_format over the whole table x shapes x argument (pairs); path_join_fmt likewise over a few bases
    (well-formed and not)"""
    quick = ctx.tier == "quick"
    r = ctx.rng
    cases = fmt_shape_lines(r, "formats", None, None, nul_args=True)
    for b in [b"\0", b"/\0", b"a\0", b"a/\0", b"a//\0", b"x" * 255 + b"\0", b"", b"a", b"a\0\0"] + [c + b"\0" for c in r.shuffle(long_component_paths(r))[:3]]:
        cases += fmt_shape_lines(r, "join_fmts", b, 4 if quick else None, nul_args=True)
    return cases


def fmt_table_observation(ctx, exe):
    """the literal table compiled into the harness is FMT_LITS, and the shapes really are what their names say:
    `Arguments::as_str()` is Some for every literal-only line (the dimension this stream exists for) and None for every
    shape with a run-time argument"""
    lines = ["fmtkeys"] + ["fmtshape %s %s" % (hx(l), f) for l in FMT_LITS for f in FMT_FORMS if f != "a" or not l]
    _, outs, _ = C.run_filter([exe], lines)
    ctx.evaluations += len(lines)
    keys = outs[0].split() if outs else []
    table_ok = bool(keys) and keys[0] == "keys" and sorted(C.unhex(k) for k in keys[1:]) == sorted(FMT_LITS)
    wrong = [(c, o) for c, o in zip(lines[1:], outs[1:]) if o != ("shape some" if c.split()[2] == "l" else "shape none")]
    ctx.extra["fmt_arguments_shapes"] = {"literals": len(FMT_LITS), "forms": sorted(FMT_FORMS), "table_matches": table_ok,
                                         "as_str_some": sum(1 for o in outs[1:] if o == "shape some"),
                                         "as_str_none": sum(1 for o in outs[1:] if o == "shape none"), "unexpected": wrong[:4]}
    if not table_ok or wrong or len(outs) != len(lines):
        ctx.violation({"op": "fmtshape", "kind": "literal-shape-not-reached"},
                      {"what": "the harness no longer builds the fmt::Arguments shapes the check believes it explores",
                       "table_matches": table_ok, "unexpected": wrong[:8]}, no_input=True)


def malformed_cases():
    return ["", "nop 61", "ustr_bytes", "ustr_bytes 6", "ustr_bytes zz", "ustr_bytes 61 62 63", "ustr_str ff00",
            "format ff", "const c3a900", "join 6100", "find 6100", "parent 6100 6100", "join_fmt 6100 ff",
            "match_str 6100 ff", "USTR_BYTES 6100", "join 6100 6", "- -", "own",
            "at 3 ustr_bytes", "at x ustr_bytes 6100", "at 1024 ustr_bytes 6100", "at -1 ustr_bytes 6100", "at 00003 ustr_bytes 6100",
            "at 3 at 3 6100", "at 3 nop 6100", "at 3 join 6100", "at 3 find 6100 6100 6100", "at 3 mode debug", "at 3", "at",
            # Arguments-shape lines: unknown form, wrong arity / word count, unused argument not empty, literal in shape `a`,
            # non-ASCII / non-hex pieces
            "formats", "formats 61", "formats 61 l", "formats 61 l -", "formats 61 l - - -", "formats 61 q - -", "formats 61 L - -",
            "formats 61 l 61 -", "formats 61 l - 61", "formats 61 la 61 61", "formats 61 a 61 -", "formats - a 61 61",
            "formats ff l - -", "formats 61 la ff -", "formats 61 ala 61 c3a9", "formats 6 l - -", "formats 61 la zz -",
            "join_fmts 6100 61 l", "join_fmts 6100 61 l -", "join_fmts 6100 61 l - - -", "join_fmts 6100 61 x - -", "join_fmts 6100 61 l 61 -",
            "join_fmts 6100 61 al - 61", "join_fmts 61 61 a 61 -", "join_fmts 6100 ff l - -", "join_fmts 6 61 l - -", "join_fmts 61 61 zz - -",
            "at 3 formats 61 l", "at 1024 formats 61 l - -", "at 3 join_fmts 6100 61 l -", "at x join_fmts 6100 61 l - -", "at 3 formats 61 q - -"]


def build(ctx, release=False):
    exe, err = C.cargo_build(ctx, "c10", release=release)
    if exe is None:
        ctx.broken.append({"harness_build_failed": err})
        ctx.violation({"kind": "harness-build-failed"}, {"error": err}, no_input=True)
    return exe


def account(ctx, exe, cases, nsamples=6):
    """coverage bookkeeping from the implementation's outputs"""
    _, outs, _ = C.run_filter([exe], cases, timeout=900)
    shown = {}
    for c, o in zip(cases, outs):
        if c.startswith("mode"):
            continue
        op, ops = operands(c)
        kind = o.split()[0] if o else "?"
        if kind == "err":
            kind = o
        lens = tuple(min(len(x), 3) if len(x) < 255 else 255 for x in ops)
        ctx.count((op, kind, lens, tuple(int(len(x) > 0 and x[-1] == 0) for x in ops), placed(c)))
        if placed(c):
            ctx.hist("placement", "start=%d mod 16" % (int(c.split()[1]) & 15))
        ctx.hist("outcomes", op + ":" + kind)
        fp = fmt_parts(c)
        if fp:
            # the Arguments shape is a coverage class of its own, crossed with what sits at the join boundary
            form, lit, x, y = fp
            ctx.hist("fmt-arguments-shape", op + ":" + form + (" (as_str()=Some)" if form == "l" else ""))
            if op == "join_fmts" and kind == "ok":
                a, pay = ops[0][:-1], ops[1]
                ctx.count((op, form, "base:" + ("empty" if not a else "slash" if a.endswith(b"/") else "plain"),
                           "ext:" + ("empty" if not pay else "slash" if pay.startswith(b"/") else "plain"),
                           "nul" if 0 in pay else "nul-free"))
        if kind not in ("reject",) and shown.get(op, 0) < 1 and len(c) < 120 and any(len(x) > 2 for x in ops):
            shown[op] = 1
            ctx.sample({"case": c, "implementation": o}, cap=24)


# the files the properties C10 / C11 are anchored in (unix_str.rs, strlen.rs and whatever module joins them), and the
# crate around them (scanned for target features only: a SIMD helper module may live next to, not in, the anchored files)
ANCHORED = ["rusl/src/string"]
WIDER = ["rusl/src"]
_model_cache = {}


def variants(ctx):
    """build variants of the harness beyond the dev and release profiles (C.build_variants): the configuration
    predicates of the anchored files decide; `-C target-cpu=native` (release) is a standing one (a cold build of the
    harness is ~3 s, the three streams on it ~5 s with the model's answers reused)"""
    if getattr(ctx, "_c10_variants", None) is None:
        _, vs = C.build_variants(ctx, ANCHORED, native_quick=True, wider=WIDER)
        built = []
        for v in vs:
            exe, err, how = C.variant_build(ctx, "c10", v)
            if exe is None:
                ctx.broken.append({"harness_build_failed": err, "variant": v["tag"]})
                ctx.violation({"kind": "harness-build-failed", "variant": v["tag"]},
                              {"error": err, "build_variant": {"tag": v["tag"], "RUSTFLAGS": v["rustflags"]}, "how_to_replay": how,
                               "note": "the same source does not build in this configuration"}, no_input=True)
                continue
            built.append((dict(v, how=how), exe))
        ctx._c10_variants = built
    return ctx._c10_variants


def run_streams(ctx, name, cases, judge_fn, sig_fn, release_too=True):
    drv = [C.driver_path("drv_c10")]
    ok = True
    for release in ([False, True] if release_too else [False]):
        exe = build(ctx, release)
        if exe is None:
            return False
        mode = "release" if release else "debug"
        lines = ["mode " + mode] + cases
        ok = C.correspond(ctx, "%s-%s" % (name, mode), lines, [exe], drv, judge_fn, sig_fn, model_cache=_model_cache) and ok
        if not release:
            account(ctx, exe, lines)
    # the same lines, the same oracle, the same model answers — on every other way the source is built here
    for v, exe in variants(ctx):
        lines = ["mode " + ("release" if v["release"] else "debug")] + cases
        ok = C.correspond(ctx, "%s-%s" % (name, v["tag"]), lines, [exe], drv, judge_fn, sig_fn, variant=v, model_cache=_model_cache) and ok
    return ok


def dirent_observation(ctx, exe):
    """DirEntry::file_unix_name on a real directory: every name raw-WFU and the set equals what was created"""
    d = tempfile.mkdtemp(prefix="c10-", dir=os.path.join(C.VERIF, "harness", "target"))
    try:
        names = [b"a", b"b.txt", b"x" * 200, b"\xff\xfe", b"with space", b"." * 3, b"z" * 255]
        for n in names:
            open(os.path.join(d.encode(), n), "wb").close()
        _, outs, _ = C.run_filter([exe], ["dirnames " + d])
        ctx.evaluations += 1
        got = outs[0].split() if outs else []
        if not got or got[0] != "names":
            ctx.violation({"op": "dirnames", "kind": "failed"}, {"dir": d, "output": outs[:1]})
            return
        raws = [C.unhex(x) if x != "err" else None for x in got[1:]]
        bad = [x for x in raws if x is None or not wfu(x)]
        exp = sorted([n + b"\0" for n in names] + [b".\0", b"..\0"])
        ctx.extra["dirent_observation"] = {"entries": len(raws), "not_wfu": len(bad), "set_matches": sorted(raws, key=lambda x: x or b"") == exp}
        if bad or sorted(raws, key=lambda x: x or b"") != exp:
            ctx.violation({"op": "dirnames", "kind": "not-wfu" if bad else "wrong"},
                          {"dir_entries_created": [n.hex() for n in names], "file_unix_name_raw": got[1:]})
    finally:
        shutil.rmtree(d, ignore_errors=True)


def run(ctx):
    ctx.rule = ("cases = every byte string of length <= 4 (thorough 6) over {a,/,.,NUL,0xff} through each constructor/conversion/"
                "unary path operation, every NUL-free such string terminated through parent/file_name, join/join_fmt over all pairs "
                "of raw strings of length <= 3 (4) over {a,/,NUL} and of terminated strings over {a,/,0xff}, unix_lit! table, random "
                "strings up to 5000 bytes with a NUL planted at the end / inside / doubled; PLACED stream (`at <n>`): operands are "
                "sub-slices at chosen start addresses mod 16 between chosen surrounding bytes — try_from_bytes at all 16 alignments x every "
                "length 0..48 (thorough 80) and 63..65/127..130/254..257/300/301 (+ 4 alignments x 4095..4097) x {no NUL, one NUL at every "
                "position, that NUL plus a terminator}; the other borrowed/owned/const/d_name entry points on a mod-8-covering alignment "
                "set x lengths 0..24,31..33,40,64,255..257 likewise; parent/file_name/own/join/join_fmt on paths around one component of "
                "1..4097 bytes; FMT-SHAPES stream: from_format (`formats <lit> <form> <x> <y>`) and path_join_fmt (`join_fmts <base> ...`) handed every "
                "SHAPE of fmt::Arguments around 22 format strings that are LITERALS compiled into the harness (empty, relative, absolute, "
                "trailing / double separators, embedded / trailing / lone NUL, escaped braces, 255 and 300 bytes): literal only "
                "(Arguments::as_str() = Some), literal before / behind / around one `{}` argument, argument only, two arguments, arguments "
                "incl. NULs and > NAME_MAX, bases well-formed and not; EVERY stream runs on the dev and release profiles and on each build variant of "
                "coverage.cfg_dimensions.variants (standing: -C target-cpu=native; one per target feature / mixed debug-assertion setting the anchored files mention); distinct_nontrivial = distinct (operation, outcome kind, operand lengths capped at 3 or flagged >= 255, "
                "operand ends in NUL, placed) classes observed on the implementation")
    ctx.assumptions += [
        "Model/UnixStr.lean describes rusl/src/string/unix_str.rs + strlen.rs::buf_strlen (checked by this run's correspondence: debug and release builds and every build variant of coverage.cfg_dimensions.variants, raw as_slice() bytes)",
        "alloc::fmt::format(args) yields exactly the concatenated argument bytes (the model takes the formatted bytes as input; format shapes varied by the harness)",
        "the SHAPE of a fmt::Arguments (source-level literal format string, where Arguments::as_str() is Some, vs. run-time arguments) is not an "
        "input of the model (fromFormatArgs / pathJoinFmtArgs = the call on the rendering; theorem fmt_shape_independent); that the real "
        "from_format / path_join_fmt do not depend on it is OBSERVED by the fmt-shapes stream over the literal table compiled into the harness "
        "(fmt_shapes.rs, 22 literals x 8 shapes; table equality and as_str() Some/None checked by fmt_table_observation), not proved",
        "str-typed entry points are exercised on ASCII (incl. NUL) inputs only; they forward to the byte versions (as_bytes/into_bytes)",
        "DirEntry::file_unix_name is modelled as buf_strlen + inclusive re-slice of d_name; the real getdents path is observed on a temp directory, not modelled",
        "unsafe constructors (from_*_unchecked, from_ptr) are outside the property",
        "the model has no addresses (an operand is its byte list): that the real functions' results do not depend on the operand's start "
        "alignment, on the bytes before/behind it, or on its being a sub-slice of a larger buffer is OBSERVED by the placed stream (16 "
        "alignments, 4 surrounding fills, lengths to 4097), not proved; without `at` an operand ends at a PROT_NONE page (exact over-read "
        "detection, alignment tied to length), with `at` up to 15 readable bytes follow it",
    ]
    ok = C.lean_prove(ctx, "TinyVerif.Props.C10", drivers=["drv_c10"])
    cases = gen_cases(ctx)
    good = run_streams(ctx, "ctor-path", cases, judge, sig_of)
    run_streams(ctx, "ctor-path-placed", gen_placed(ctx), judge, sig_of)
    run_streams(ctx, "fmt-shapes", gen_fmt_shapes(ctx), judge, sig_of)
    exe = build(ctx, False)
    if exe is None:
        return
    fmt_table_observation(ctx, exe)
    C.correspond(ctx, "malformed", malformed_cases(), [exe], [C.driver_path("drv_c10")],
                 lambda c, o: None if o == "bad-op" else "malformed line not rejected with bad-op", lambda c, o, w: {"op": "malformed", "kind": "accepted"})
    dirent_observation(ctx, exe)
    if not ok and not ctx.violations:
        ctx.violation({"kind": "proof-broken"}, {"broken": ctx.broken}, no_input=True)
