"""C17 / C18 — compile-contract probes: the API BORROW CONTRACTS the Lean model of the completion ring relies on.

The model's assumptions "at most ONE outstanding completion reference" and "it is dead before the next get_next_cqe"
(`cq_content_held`, `K2Inv`, `cqe_exactly_once_split`) are not behaviour of any function: they live in the signature
`get_next_cqe(&mut self) -> Option<&IoUringCompletionQueueEntry>` (the returned reference keeps the ring mutably
borrowed).  harness/c17/borrow-probes holds one complete program per contract that VIOLATES it; the check runs
`cargo check` and REQUIRES the borrow checker to reject each of them (E0499/E0502/E0505/E0506/E0597/E0716 family), plus
positive controls that must compile and run OK on the real kernel (so that a broken build environment is neither a pass
nor a violation).  A must-fail probe that COMPILES is a broken model assumption: the same program is then built and RUN
against the running kernel as the search for the concrete failing history.

The outcome is written to lean/TinyVerif/Gen/RingBorrow.lean (`genBorrowContract`) BEFORE the Lean build; Props/C17.lean
discharges `borrow_contract_holds : genBorrowContract.holds = true` by `decide` (C18 imports it)."""
import json
import os
import subprocess

from . import common as C

CRATE = os.path.join(C.HARNESS, "c17", "borrow-probes")
TARGET = os.path.join(C.HARNESS, "target", "borrow-probes")
GEN = os.path.join(C.LEAN, "TinyVerif", "Gen", "RingBorrow.lean")
BORROW_CODES = {"E0499", "E0502", "E0505", "E0506", "E0597", "E0716", "E0503", "E0515", "E0521"}

# probe -> (field of Ring.BorrowContract, what the contract says, which Lean statements rely on it)
MUST_FAIL = {
    "must_fail_a_hold_across_next_cqe": (
        "cqeDeadAtNextReap",
        "the reference returned by get_next_cqe cannot be alive at the next get_next_cqe call",
        ["C17 cq_content_held (stable until the NEXT get_next_cqe; negation without it: two_references_break_content)",
         "C18 K2Inv / cqe_exactly_once_split / one_cqe_per_sqe_split (at most one outstanding reference)",
         "/repo bc63d9e: the lazy slot release in get_next_cqe"]),
    "must_fail_b_hold_across_ring_methods": (
        "cqeBlocksRingMethods",
        "while the completion reference is alive no other &mut self ring method (get_next_sqe_slot, flush_submission_queue) can be called",
        ["C18 kstep2 (application ring methods answer `borrowed` while a reference is held): the op language of cqe_exactly_once_split",
         "not needed for the content guarantee: C17 cq_content_held allows get/flush in between"]),
    "must_fail_d_outlive_ring": (
        "cqeDeadAtDrop",
        "the completion reference cannot outlive the IoUring (Drop unmaps the completion ring)",
        ["C17 cq_content / cq_content_held (statements about a ring that exists)", "C18 setup_drop_balanced (Drop unmaps exactly the ring's mappings)"]),
}
CONTROLS = ["control_read_then_next", "control_hold_across_enter"]
NOT_TYPE_ENFORCED = [
    "get_next_sqe_slot returns a raw `*mut IoUringSubmissionQueueEntry` (no borrow): that the entry is written before flush_submission_queue "
    "publishes it is the caller's obligation behind its `unsafe` write, not a compile contract; the model's `get v` fills at call granularity",
    "io_uring_enter takes the copied `Fd`, not the ring: it CAN run while a completion reference is alive - allowed, and covered by "
    "cq_content_held (any kernel steps), stream refrace and the control probe control_hold_across_enter",
]


def _env():
    e = dict(os.environ)
    e.update({"CARGO_TARGET_DIR": TARGET, "CARGO_NET_OFFLINE": "true", "RUSTFLAGS": "-A warnings"})
    return e


def _cargo(args, timeout=900):
    p = subprocess.run(["cargo"] + args, cwd=CRATE, env=_env(), stdout=subprocess.PIPE, stderr=subprocess.PIPE, text=True,
                       errors="replace", timeout=timeout)
    return p.returncode, p.stdout, p.stderr


def compile_all():
    """one `cargo check --bins --keep-going`: per bin -> {"compiled": bool, "codes": [...], "errors": [...]}"""
    rc, out, err = _cargo(["check", "--offline", "--bins", "--keep-going", "--message-format=json"])
    res = {}
    for line in out.splitlines():
        try:
            m = json.loads(line)
        except ValueError:
            continue
        t = (m.get("target") or {}).get("name")
        if m.get("reason") == "compiler-artifact" and (m.get("target") or {}).get("kind") == ["bin"]:
            res.setdefault(t, {"compiled": False, "codes": [], "errors": []})["compiled"] = True
        elif m.get("reason") == "compiler-message" and m["message"].get("level") == "error":
            r = res.setdefault(t, {"compiled": False, "codes": [], "errors": []})
            code = (m["message"].get("code") or {}).get("code")
            if code:
                r["codes"].append(code)
            r["errors"].append(("[%s] " % code if code else "") + m["message"].get("message", "")[:160])
    return res, err


def run_bin(name, timeout=60):
    rc, out, err = _cargo(["build", "--offline", "-q", "--bin", name])
    if rc != 0:
        return None, "build failed: " + err[-400:]
    exe = os.path.join(TARGET, "debug", name)
    try:
        p = subprocess.run([exe], stdout=subprocess.PIPE, stderr=subprocess.STDOUT, text=True, errors="replace", timeout=timeout)
        return p.returncode, p.stdout
    except subprocess.TimeoutExpired:
        return -999, "timeout"


def write_gen(fields, controls_ok):
    body = ("/- GENERATED by checks/c17_borrow.py on every run of the C17 / C18 check: which API borrow contracts of the ring wrapper the\n"
            "   compiler enforces on /repo's current code (`cargo check` of the must-fail programs in harness/c17/borrow-probes). -/\n"
            "import TinyVerif.Model.Ring\nnamespace TinyVerif.Ring\n\n"
            "def genBorrowContract : BorrowContract :=\n  { cqeDeadAtNextReap := %s, cqeBlocksRingMethods := %s, cqeDeadAtDrop := %s, controlsCompileAndRun := %s }\n\n"
            "end TinyVerif.Ring\n") % tuple(str(bool(x)).lower() for x in (fields["cqeDeadAtNextReap"], fields["cqeBlocksRingMethods"],
                                                                        fields["cqeDeadAtDrop"], controls_ok))
    old = open(GEN).read() if os.path.exists(GEN) else None
    if old != body:
        with open(GEN, "w") as f:
            f.write(body)
    return old != body


def probe(ctx, report=True):
    """Run the probes, write Gen/RingBorrow.lean, report.  `report=False` (C18): only regenerate the Gen file and record the
    outcome; the violations are C17's to report."""
    ctx.assumptions.append(
        "API borrow contracts (type system, not behaviour): the completion reference returned by get_next_cqe mutably borrows the ring - dead at "
        "the next get_next_cqe, no other &mut ring method while it lives, cannot outlive the ring; checked by compile-contract probes "
        "(harness/c17/borrow-probes must NOT compile; Lean: borrow_contract_holds over Gen/RingBorrow.lean)")
    fields = {v[0]: False for v in MUST_FAIL.values()}
    info = {"crate": CRATE, "must_fail": {}, "controls": {}, "not_type_enforced": NOT_TYPE_ENFORCED}
    try:
        res, err = compile_all()
    except Exception as e:  # cargo missing / timeout
        res, err = {}, repr(e)
    ctx.evaluations += len(MUST_FAIL) + len(CONTROLS)
    controls_ok = True
    for c in CONTROLS:
        r = res.get(c)
        if not r or not r["compiled"]:
            controls_ok = False
            info["controls"][c] = {"compiled": False, "errors": (r or {}).get("errors", [])[:3] or [err[-300:]]}
            continue
        rc, out = run_bin(c)
        ok = rc == 0 or (rc == 101 and "io_uring_setup" in (out or ""))   # no io_uring on this kernel: compile control only
        info["controls"][c] = {"compiled": True, "exit": rc, "output": (out or "").splitlines()[-3:]}
        if rc == 1:
            controls_ok = False
            if report:
                ctx.violation({"op": "borrow-probe", "kind": "control-violated", "probe": c},
                              {"program": os.path.join(CRATE, "src", "bin", c + ".rs"), "exit": rc, "output": out,
                               "why": "a usage the API allows and the model covers lost or changed a completion on the running kernel",
                               "how_to_replay": "cd %s && CARGO_TARGET_DIR=%s cargo run --offline -q --bin %s" % (CRATE, TARGET, c)})
        elif not ok:
            controls_ok = False
    if not controls_ok and not any(v.get("exit") == 1 for v in info["controls"].values()):
        ctx.broken.append({"borrow_probe_environment": "a positive control does not compile / run: the probe verdicts are not trusted", "controls": info["controls"]})
        if report:
            ctx.violation({"op": "borrow-probe", "kind": "environment"}, {"controls": info["controls"], "stderr": err[-600:]}, no_input=True)
    for name, (field, what, relied) in MUST_FAIL.items():
        r = res.get(name, {"compiled": False, "codes": [], "errors": []})
        rejected = (not r["compiled"]) and any(c in BORROW_CODES for c in r["codes"])
        entry = {"contract": what, "relied_on_by": relied, "rejected_by_compiler": rejected, "error_codes": sorted(set(r["codes"]))}
        ctx.count(("borrow-contract", name, rejected))
        ctx.hist("borrow_probes", "rejected" if rejected else ("compiles" if r["compiled"] else "other-error"))
        if rejected:
            fields[field] = True
        elif r["compiled"] and controls_ok:
            # the contract is gone: search for the concrete failing history by running the very program
            rc, out = run_bin(name)
            entry.update({"compiles": True, "run_exit": rc, "run_output": (out or "").splitlines()[-8:]})
            src = open(os.path.join(CRATE, "src", "bin", name + ".rs")).read()
            failing = rc not in (0, None)
            if report:
                ctx.violation({"op": "borrow-contract", "kind": "contract-not-enforced" + ("" if failing else "-no-failing-run"), "probe": name},
                              {"contract": what, "relied_on_by": relied, "program": src, "run_exit": rc, "run_output": out,
                               "why": ("safe code that the model assumes impossible compiles against /repo; run on the real kernel it " +
                                       ("shows the failure: " + ((out or "").strip().splitlines() or ["(killed by a signal)"])[-1] if failing else
                                        "kept every completion's content (the assumption is broken, no failing history found)")),
                               "how_to_replay": "cd %s && CARGO_TARGET_DIR=%s cargo run --offline -q --bin %s" % (CRATE, TARGET, name)},
                              no_input=not failing)
        elif controls_ok:
            entry["other_errors"] = r["errors"][:3]
            ctx.broken.append({"borrow_probe": name, "does not compile, but not for a borrow error": r["errors"][:3] or [err[-300:]]})
            if report:
                ctx.violation({"op": "borrow-contract", "kind": "probe-broken", "probe": name}, {"errors": r["errors"][:5], "stderr": err[-400:]}, no_input=True)
        info["must_fail"][name] = entry
    info["gen_rewritten"] = write_gen(fields, controls_ok)
    ctx.extra["borrow_contracts"] = info
    ctx.sample({"borrow-probe": "must_fail_a_hold_across_next_cqe", "verdict": info["must_fail"]["must_fail_a_hold_across_next_cqe"].get("error_codes")})
    return info
