"""C07 — start-up: argv, environment, aux values delivered exactly in every link mode; env lookup exact.

The code under test exists only in no-libc executables, so the implementation side is a probe
(/verif/harness-nolibc/c07probe, its own cargo workspace) built from /repo's working tree in three link
modes (dynamic PIE, static, static PIE = self relocation) x debug/release and exec'd through a raw
execve(2) with generated argv/envp.  What the probe observes is judged against what was passed and against
the raw kernel image, and the same raw image / environment / tables are fed to the Lean model (drv_c07)."""
import ctypes
import json
import os
import resource
import struct
import sys
import threading

if __name__ == "__main__":
    sys.path.insert(0, os.path.dirname(os.path.dirname(os.path.abspath(__file__))))
    from checks import common as C
else:
    from . import common as C

NL = os.path.join(C.VERIF, "harness-nolibc")
PROBE = os.path.join(NL, "c07probe")
MODES = {
    "dyn": "-C link-arg=-nostartfiles",
    "static": "-C target-feature=+crt-static -C relocation-model=static -C link-arg=-nostartfiles",
    "spie": "-C target-feature=+crt-static -C relocation-model=pie -C link-arg=-nostartfiles",
}
AT = {"AT_PHDR": 3, "AT_PHENT": 4, "AT_PHNUM": 5, "AT_BASE": 7, "AT_UID": 11, "AT_GID": 13, "AT_SECURE": 23,
      "AT_RANDOM": 25, "AT_EXECFN": 31, "AT_SYSINFO_EHDR": 33}
# order of Model.Start.AuxValues' fields as the driver prints them
AUX_ORDER = [7, 13, 11, 3, 4, 5, 25, 23, 33, 31]
hx = C.hexs


# ------------------------------------------------------------------ running the probe

def build_probe(ctx, mode, release=False):
    """mode: a key of MODES, optionally + "+noaux" = tiny-std features start,symbols without aux/vdso (own target dir)"""
    tdir = os.path.join(NL, "target-" + mode.replace("+", "-"))
    cmd = ["cargo", "build", "--offline", "-q", "--target-dir", tdir]
    if mode.endswith("+noaux"):
        cmd += ["--no-default-features", "--features", "noaux"]
        mode = mode[:-6]
    if release:
        cmd.append("--release")
    rc, out = 1, ""
    for _ in range(4):
        rc, out = C.sh(cmd, cwd=PROBE, env={"RUSTFLAGS": MODES[mode]}, timeout=3000)
        if rc == 0:
            break
        if "error: linking" in out or "undefined symbol" in out:
            break
    if rc != 0:
        return None, "\n".join([l for l in out.splitlines() if l.strip() and "warning" not in l][-25:])
    return os.path.join(tdir, "release" if release else "debug", "c07probe"), ""


_libc = None


def raw_exec(exe, argv, envp, stdin_bytes, timeout=60):
    """fork + execve(2) with exactly these argv / envp byte strings (duplicates, entries without '=',
    empty strings, non-UTF-8 all pass through unchanged). Returns (status, stdout bytes)."""
    global _libc
    if _libc is None:
        _libc = ctypes.CDLL(None, use_errno=True)
    r_in, w_in = os.pipe()
    r_out, w_out = os.pipe()
    av = (ctypes.c_char_p * (len(argv) + 1))(*(list(argv) + [None]))
    ev = (ctypes.c_char_p * (len(envp) + 1))(*(list(envp) + [None]))
    path = exe.encode() if isinstance(exe, str) else exe
    pid = os.fork()
    if pid == 0:
        try:
            os.dup2(r_in, 0)
            os.dup2(w_out, 1)
            for fd in (r_in, w_in, r_out, w_out):
                os.close(fd)
            _libc.execve(path, av, ev)
        finally:
            os._exit(127)
    os.close(r_in)
    os.close(w_out)

    def kill():
        try:
            os.kill(pid, 9)          # an iterator that never ends, a start-up that hangs: reported as a crash
        except OSError:
            pass
    dog = threading.Timer(timeout, kill)
    dog.start()
    try:
        try:
            os.write(w_in, stdin_bytes)
        except OSError:
            pass
        finally:
            os.close(w_in)
        chunks = []
        while True:
            b = os.read(r_out, 1 << 20)
            if not b:
                break
            chunks.append(b)
        os.close(r_out)
        _, st = os.waitpid(pid, 0)
    finally:
        dog.cancel()
    return st, b"".join(chunks)


def run_case(exe, case):
    """case: {"argv": [bytes], "env": [bytes], "keys": [bytes], "stack": bool, "reloc": bool, "clock": int}"""
    req = []
    if case.get("stack", True):
        req.append("stack")
    for k in case.get("keys", []):
        req.append("k " + hx(k))
    if case.get("clock"):
        req.append("clock %d" % case["clock"])
    if case.get("reloc"):
        req.append("reloc")
    for kind, ops in case.get("its", []):
        req.append("it %s %s" % (kind, " ".join(ops)))
    st, out = raw_exec(exe, case["argv"], case["env"], ("\n".join(req) + "\n").encode())
    lines = out.decode("ascii", "replace").splitlines()
    rec = {"status": st, "lines": lines, "complete": bool(lines) and lines[-1] == "end"}
    for l in lines:
        w = l.split(" ")
        if w[0] in ("sp", "stack", "argslen", "procauxv", "consts", "aux", "clock", "phdr", "dyn", "rel", "rela", "relv"):
            rec[w[0]] = w[1:]
        elif w[0] in ("args_os", "args"):
            rec[w[0]] = w[1:]
        elif w[0] == "it":
            rec.setdefault("it", []).append(w[1:])
        elif w[0] in ("var", "varu"):
            rec.setdefault(w[0], {})[w[1]] = " ".join(w[2:])
    return rec


# ------------------------------------------------------------------ independent readers (spec side, plain Python)

def parse_image(sp, img):
    """the ABI's reading of the initial stack: (argc, argv strings, env strings, aux pairs) or raises"""
    def word(a):
        return struct.unpack_from("<Q", img, a - sp)[0]

    def cstr(a):
        e = img.index(b"\0", a - sp)
        return img[a - sp:e]
    argc = word(sp)
    p = sp + 8
    argv = []
    for _ in range(argc):
        argv.append(cstr(word(p)))
        p += 8
    if word(p) != 0:
        raise ValueError("argv not NULL-terminated")
    p += 8
    env = []
    while word(p) != 0:
        env.append(cstr(word(p)))
        p += 8
    p += 8
    aux = []
    while True:
        k, v = word(p), word(p + 8)
        p += 16
        if k == 0:
            break
        aux.append((k, v))
    return argc, argv, env, aux


def aux_last(aux, key):
    v = 0
    for k, x in aux:
        if k == key:
            v = x
    return v


def is_utf8(b):
    try:
        b.decode("utf-8")
        return True
    except UnicodeDecodeError:
        return False


def lookup(key, env):
    """property's own spec: value of the first entry whose bytes before its first '=' equal key"""
    for e in env:
        if b"=" in e:
            n, v = e.split(b"=", 1)
            if n == key:
                return v
    return None


def in_quantifier(key):
    return len(key) > 0 and b"=" not in key and b"\0" not in key


def hexlist(l):
    return ",".join(hx(x) for x in l) if l else "."


# ------------------------------------------------------------------ case generation

def gen_string(r, kind=None):
    k = kind if kind is not None else r.below(12)
    if k == 0:
        return b""
    if k in (1, 2, 3):
        return r.bytes(r.range(1, 12), b"abcXYZ019-_/.")
    if k == 4:
        return bytes(r.range(1, 255) for _ in range(r.range(1, 24)))          # arbitrary non-NUL bytes
    if k == 5:
        return "".join(r.choice(["é", "ß", "€", "日本", "\U0001f600", "a", "߿", "￿", "\U0010ffff"]) for _ in range(r.range(1, 6))).encode()
    if k == 6:  # malformed UTF-8: overlong, surrogate, too large, truncated, stray continuation
        return r.choice([b"\xc0\xaf", b"\xe0\x80\xaf", b"\xed\xa0\x80", b"\xf4\x90\x80\x80", b"\xe2\x82", b"\x80", b"a\xffb",
                         b"\xf0\x8f\xbf\xbf", b"\xc2", b"\xf5\x80\x80\x80", b"\xed\x9f\xbf\xed\xa0\x80", b"\xf0\x90\x80"])
    if k == 7:
        return r.bytes(r.range(200, 5000), b"abcdefgh=/ \xff\x01")
    if k == 8:
        return b"=" + r.bytes(r.range(0, 4), b"ab=")
    if k == 9:
        return r.bytes(r.range(1, 6), b"ab") + b"=" + r.bytes(r.range(0, 6), b"ab=")
    return r.bytes(r.range(1, 40), b"abcdefghijklmnopqrstuvwxyz ")


NAME_POOL = [b"HOME", b"HOMER", b"HO", b"H", b"HOME2", b"PATH", b"PAT", b"A", b"AB", b"ABC", b"a", b"LANG", b"X_Y", b"\xffN", b"na\xc3\xafve"]


def gen_env(r, quick):
    n = r.choice([0, 0, 1, 2, 3, 5, 8, 13, 30])
    env = []
    for _ in range(n):
        k = r.below(14)
        name = r.choice(NAME_POOL) if k < 9 else r.bytes(r.range(1, 5), b"ABHOME")
        if k == 9:
            name = b""                                    # entry "=value"
        v = r.below(9)
        val = (b"" if v == 0 else b"=" if v == 1 else r.bytes(r.range(1, 8), b"xy=") if v == 2 else
               b"\xff\xfe" if v == 3 else gen_string(r, 7) if v == 4 else gen_string(r, 5) if v == 5 else r.bytes(r.range(1, 10), b"/usr:bin"))
        if k == 10:
            env.append(name)                              # entry without '='
        elif k == 11:
            env.append(b"")                               # empty entry
        else:
            env.append(name + b"=" + val)
    return env


def gen_keys(r, env, cap):
    ks = []
    seen = set()

    def add(k):
        if b"\0" not in k and k not in seen and len(k) < 300:
            seen.add(k)
            ks.append(k)
    for e in env:
        name = e.split(b"=", 1)[0]
        add(name)
        for i in range(len(name)):
            add(name[:i])                                  # every proper prefix (incl. the empty key)
        add(name + bytes([r.range(1, 255)]))               # one byte longer
        add(name + b"R")
        add(name + b"=")                                   # keys containing '=' (outside the quantifier; model agreement only)
        if b"=" in e:
            add(e[:len(name) + 1 + r.below(3)])
            add(name.lower())
            add(name.upper())
    for n in r.shuffle(NAME_POOL)[:4]:
        add(n)
    add(b"")
    add(r.bytes(r.range(1, 6), b"ABHOME"))
    if len(ks) > cap:
        ks = r.shuffle(ks)[:cap]
    return ks


def gen_argv(r, quick, big):
    k = r.below(12)
    if k == 0:
        n = 0
    elif k == 1:
        n = 1
    elif k < 9:
        n = r.range(2, 9)
    elif k == 9:
        n = r.range(10, 60)
    else:
        n = r.range(100, 400 if quick else 3000)
    argv = [gen_string(r) if n < 60 else gen_string(r, r.choice([0, 1, 4, 10])) for _ in range(n)]
    if big and argv:
        argv[r.below(len(argv))] = r.bytes(r.choice([65535, 65536, 100000, 131071]), b"abc\xff") # up to MAX_ARG_STRLEN - 1
    return argv


def gen_cases(ctx, n, quick):
    r = ctx.rng
    cases = [
        # the documented witnesses first
        {"argv": [b"p"], "env": [b"HOME=x"], "keys": [b"HOMER", b"HOME", b"HOM", b"H", b"", b"HOME=", b"HOME=x"]},
        {"argv": [], "env": [], "keys": [b"HOME", b""]},
        {"argv": [b"", b"", b""], "env": [b"A=1", b"A=2", b"AB=3", b"=4", b"A", b"", b"B==", b"C="], "keys": [b"A", b"AB", b"ABC", b"B", b"C", b"", b"=4", b"A=1"]},
        {"argv": [b"p", b"\xff\xfe", b"\xed\xa0\x80", "é".encode()], "env": [b"V=\xff", b"W=\xc3\xa9"], "keys": [b"V", b"W", b"\xff"]},
    ]
    for i in range(n):
        env = gen_env(r, quick)
        cases.append({"argv": gen_argv(r, quick, big=(i % 25 == 7)), "env": env, "keys": gen_keys(r, env, 24 if quick else 60)})
    return cases


# ------------------------------------------------------------------ one probe run -> judgements + model lines

def judge_run(case, rec, exe):
    """property's spec evaluated on what the implementation reported. Returns list of (op, kind, why)."""
    bad = []
    if not rec["complete"] or rec["status"] != 0:
        return [("start", "crash", "probe did not run to completion (status %s, last line %r)" % (rec["status"], rec["lines"][-1:]))]
    argv, env = case["argv"], case["env"]
    sp = int(rec["sp"][0]) if rec.get("sp", ["none"])[0] != "none" else None
    img = C.unhex(rec["stack"][0]) if "stack" in rec and rec["stack"][0] != "none" else None
    exp_argv = argv
    if sp is not None and img is not None:
        try:
            argc, iargv, ienv, iaux = parse_image(sp, img)
        except Exception as e:  # noqa
            return [("stack", "unparseable", "raw image not ABI-shaped: %r" % (e,))]
        if argv == [] and iargv == [b""]:
            exp_argv = [b""]           # Linux >= 5.18 substitutes one empty argument for an empty argv
        if iargv != exp_argv or ienv != env:
            bad.append(("kernel", "image", "kernel image does not hold what execve was given (check's own assumption broken)"))
        pa = C.unhex(rec["procauxv"][0]) if rec.get("procauxv", ["none"])[0] != "none" else None
        if pa is not None:
            pairs = [struct.unpack_from("<QQ", pa, i) for i in range(0, len(pa) - 15, 16)]
            pairs = pairs[:[k for k, _ in pairs].index(0)] if 0 in [k for k, _ in pairs] else pairs
            if pairs != iaux:
                bad.append(("kernel", "auxv", "/proc/self/auxv differs from the auxv on the stack"))
        # aux getters
        a = rec["aux"]
        if a[0] != "na":               # "na": probe built without the aux feature, no getters to judge
            if int(a[0]) != aux_last(iaux, 11) or int(a[0]) != os.getuid():
                bad.append(("aux", "uid", "get_uid() = %s, AT_UID = %d, getuid() = %d" % (a[0], aux_last(iaux, 11), os.getuid())))
            if int(a[1]) != aux_last(iaux, 13) or int(a[1]) != os.getgid():
                bad.append(("aux", "gid", "get_gid() = %s, AT_GID = %d" % (a[1], aux_last(iaux, 13))))
            ra = aux_last(iaux, 25)
            rb = img[ra - sp:ra - sp + 16] if ra else None
            if (a[2] == "none") != (rb is None) or (rb is not None and C.unhex(a[2]) != rb):
                bad.append(("aux", "random", "get_random() is not the 16 bytes at AT_RANDOM"))
            ea = aux_last(iaux, 31)
            eb = img[ea - sp:img.index(b"\0", ea - sp)] if ea else None
            exe_b = exe.encode()
            if (a[3] == "none") != (eb is None) or (eb is not None and (C.unhex(a[3]) != eb or eb != exe_b)):
                bad.append(("aux", "execfn", "get_exec_fn() is not the executed path"))
    # argument vector
    got_os = [C.unhex(x) for x in rec.get("args_os", [])]
    if got_os != exp_argv:
        bad.append(("args_os", "wrong", "args_os() yielded %d items, %d passed; first difference at %s" % (
            len(got_os), len(exp_argv), next((i for i, (x, y) in enumerate(zip(got_os, exp_argv)) if x != y), min(len(got_os), len(exp_argv))))))
    exp_args = [("ok:" + hx(x)) if is_utf8(x) else "err" for x in exp_argv]
    if rec.get("args", []) != exp_args:
        bad.append(("args", "wrong", "args() items differ from the passed arguments / their UTF-8 validity"))
    if rec["argslen"] != [str(len(exp_argv))] * 2:
        bad.append(("args", "len", "len() = %s, argc = %d" % (rec["argslen"], len(exp_argv))))
    # environment lookup
    for k in case["keys"]:
        exp = lookup(k, env)
        gu = rec.get("varu", {}).get(hx(k))
        if gu is None:
            bad.append(("var_unix", "no-answer", "no answer for key " + hx(k)))
        elif in_quantifier(k):
            want = "missing" if exp is None else "ok " + hx(exp)
            if gu != want:
                bad.append(("var_unix", "wrong-found" if gu != "missing" else "wrong-missing", "var_unix(%s) = %s, spec: %s" % (hx(k), gu, want)))
        if is_utf8(k):
            gv = rec.get("var", {}).get(hx(k))
            if gv is None:
                bad.append(("var", "no-answer", "no answer for key " + hx(k)))
            elif in_quantifier(k):
                want = "missing" if exp is None else ("ok " + hx(exp) if is_utf8(exp) else "notunicode")
                if gv != want:
                    bad.append(("var", "wrong-found" if gv != "missing" else "wrong-missing", "var(%s) = %s, spec: %s" % (hx(k), gv, want)))
    return bad


def impl_observation_line(case, rec):
    """the implementation's observations in the driver's `observe` format. tiny-std exposes no environment
    iterator and only four aux getters, so `env=` is what execve was given and the aux addresses come from the
    process's own /proc/self/auxv, with the getters' answers substituted where a getter exists."""
    sp = int(rec["sp"][0])
    img = C.unhex(rec["stack"][0])
    pa = C.unhex(rec["procauxv"][0])
    pairs = [struct.unpack_from("<QQ", pa, i) for i in range(0, len(pa) - 15, 16)]
    keys = [k for k, _ in pairs]
    pairs = pairs[:keys.index(0)] if 0 in keys else pairs
    vals = {k: aux_last(pairs, k) for k in AUX_ORDER}
    vals[11] = int(rec["aux"][0])
    vals[13] = int(rec["aux"][1])
    ra, ea = vals[25], vals[31]
    if rec["aux"][2] == "none":
        vals[25] = 0
    elif img[ra - sp:ra - sp + 16] != C.unhex(rec["aux"][2]):
        vals[25] = "MISMATCH"
    if rec["aux"][3] == "none":
        vals[31] = 0
    elif img[ea - sp:img.index(b"\0", ea - sp)] != C.unhex(rec["aux"][3]):
        vals[31] = "MISMATCH"
    return "ok argc=%s len=%s args_os=%s args=%s env=%s aux=%s" % (
        rec["argslen"][0], rec["argslen"][1],
        ",".join(rec["args_os"]) if rec["args_os"] else ".", ",".join(rec["args"]) if rec["args"] else ".",
        hexlist(case["env"]), ",".join(str(vals[k]) for k in AUX_ORDER))


def reloc_lines(rec):
    """(model input line, implementation line, judge problems, stats) from a static-pie probe's own tables"""
    phdr_addr, phent, phnum = int(rec["phdr"][0]), int(rec["phdr"][1]), int(rec["phdr"][2])
    phdr = C.unhex(rec["phdr"][3])
    dynv, bias, dyn_idx = int(rec["dyn"][0]), int(rec["dyn"][1]), int(rec["dyn"][2])
    dyn = C.unhex(rec["dyn"][3])
    rel_addr, rel = int(rec["rel"][0]), C.unhex(rec["rel"][1])
    rela_addr, rela = int(rec["rela"][0]), C.unhex(rec["rela"][1])
    relv = [int(x) for x in rec.get("relv", [])]
    targets, expect = [], []
    problems = []
    for i in range(0, len(rel) - 15, 16):
        off, info = struct.unpack_from("<QQ", rel, i)
        if info == 8:
            targets.append(bias + off)
            expect.append(None)   # old + base: the old word is gone; only the model tie applies
    for i in range(0, len(rela) - 23, 24):
        off, info, add = struct.unpack_from("<QQQ", rela, i)
        if info == 8:
            targets.append(bias + off)
            expect.append((bias + add) % 2**64)
    if len(relv) != len(targets):
        problems.append("probe listed %d target words for %d relative entries" % (len(relv), len(targets)))
    wrong = [(t, v, e) for t, v, e in zip(targets, relv, expect) if e is not None and v != e]
    if wrong:
        problems.append("%d of %d R_RELATIVE targets do not hold base + addend, e.g. *%#x = %#x, expected %#x" % (
            len(wrong), len(targets), wrong[0][0], wrong[0][1], wrong[0][2]))
    if len(set(targets)) != len(targets):
        problems.append("relocation targets are not pairwise distinct (ELF well-formedness assumed by relocate_exact)")
    # contiguous zero-filled segments under the targets (RELA does not read the old word)
    segs = []
    for t in sorted(set(targets)):
        if segs and segs[-1][0] + segs[-1][1] == t:
            segs[-1][1] += 8
        else:
            segs.append([t, 8])
    line = "reloc %d 0 %d %d %d seg %d %s seg %d %s" % (dynv, phdr_addr, phent, phnum, phdr_addr, hx(phdr), dynv, hx(dyn))
    if rel:
        line += " seg %d %s" % (rel_addr, hx(rel))
    if rela:
        line += " seg %d %s" % (rela_addr, hx(rela))
    line += "".join(" zero %d %d" % (a, n) for a, n in segs) + "".join(" q %d" % t for t in targets)
    impl = "ok " + " ".join(str(v) for v in relv)
    stats = {"relative_entries": len(targets), "rel": len(rel) // 16, "rela": len(rela) // 24, "pt_dynamic_index": dyn_idx,
             "phnum": phnum, "target_segments": len(segs)}
    return line, impl, problems, stats


# ------------------------------------------------------------------ the argument iterators as stateful objects

# `it <os|args> <op>*`: one script of calls on ONE fresh iterator object (probe: run_script).
#   n next()   N:k nth(k)   s:k by_ref().skip(k).next()   t:k by_ref().step_by(k) polled until None
#   l len()    h size_hint()      c count()   L last()   f fold(..) collecting every item    (c/L/f by value: last op)
IT_STEP = ["n", "N:0", "N:1", "N:2", "N:3", "s:0", "s:1", "s:2", "t:1", "t:2", "t:3", "l", "h"]
IT_LAST = ["c", "L", "f"]
IT_NAME = {"n": "next", "N": "nth", "s": "skip", "t": "step_by", "l": "len", "h": "size_hint", "c": "count", "L": "last", "f": "fold"}
IT_ARGVS = [
    [],                                                       # the kernel (>= 5.18) turns this into one empty argument
    [b"p0"],
    [b"p0", b"a1"],
    [b"p0", b"a1", b""],
    [b"p0", b"a1", b"", b"\xff\xfe"],
    [b"p0", b"a1", b"", b"\xff\xfe", "é".encode()],
    [b"p0", b"a1", b"", b"\xff\xfe", "é".encode(), b"a5"],
]


def it_items(argv, kind):
    """how the probe prints the items of args_os() / args() over `argv`"""
    return [hx(a) for a in argv] if kind == "os" else [("ok:" + hx(a)) if is_utf8(a) else "err" for a in argv]


def spec_iter(items, ops):
    """The property's own oracle: the answers std's contract demands of an iterator over exactly `items` (what a plain
    slice iterator answers): every call is relative to the current position, nothing is yielded twice, len() /
    size_hint() are the exact number of items not yet yielded.  Returns (answers, remaining-before-each-op)."""
    pos, n, out, rems = 0, len(items), [], []

    def opt(l):
        return "S:" + l[0] if l else "None"
    for op in ops:
        t, _, k = op.partition(":")
        k = int(k) if k else None
        rem = items[pos:]
        rems.append(len(rem))
        if t == "n":
            out.append("n=" + opt(rem[:1]))
            pos = min(pos + 1, n)
        elif t in ("N", "s"):
            out.append(t + "=" + opt(rem[k:k + 1]))
            pos = min(pos + k + 1, n)
        elif t == "t":
            out.append("t=[" + ",".join(rem[::k]) + "]")
            pos = n
        elif t == "l":
            out.append("l=%d" % len(rem))
        elif t == "h":
            out.append("h=%d,%d" % (len(rem), len(rem)))
        elif t == "c":
            out.append("c=%d" % len(rem))
            pos = n
        elif t == "L":
            out.append("L=" + opt(rem[-1:]))
            pos = n
        elif t == "f":
            out.append("f=[" + ",".join(rem) + "]")
            pos = n
        else:
            raise ValueError(op)
    return out, rems


def judge_iter(items, ops, got):
    """[(kind, why, index of the failing op)] of one script; stops at the first answer that changes the iterator's state.
    Two kinds keep the signatures of the findings repaired by /repo d3e06ee (known_findings.d/C07.jsonl, status fixed), so
    that a regression is reported under them: `len-is-argc-not-remaining` (len() answers the total argc on a partly
    consumed iterator) and `size-hint-not-exact` (size_hint() answers bounds that hold but are not the exact remainder).
    Both are ordinary violations; they do not change the iterator's state, so the rest of the script is still judged."""
    want, rems = spec_iter(items, ops)
    bad = []
    for i, (op, w) in enumerate(zip(ops, want)):
        g = got[i] if i < len(got) else "<no answer>"
        if g == w:
            continue
        t = op[0]
        if t == "l" and g == "l=%d" % len(items):
            bad.append(("len-is-argc-not-remaining", "len() = %s with %d of %d arguments left" % (g[2:], rems[i], len(items)), i))
            continue
        if t == "h" and g.startswith("h="):
            lo, _, hi = g[2:].partition(",")
            if lo.isdigit() and int(lo) <= rems[i] and (hi == "none" or (hi.isdigit() and rems[i] <= int(hi))):
                bad.append(("size-hint-not-exact", "size_hint() = (%s) with exactly %d arguments left" % (g[2:], rems[i]), i))
                continue
        bad.append((IT_NAME[t] + "-wrong", "op #%d `%s` answered %s, the arguments passed demand %s" % (i + 1, op, g[:200], w[:200]), i))
        break
    else:
        if len(got) > len(ops):
            bad.append(("extra-answer", "answers after the last op: %r" % (got[len(ops):][:3],), len(ops)))
    return bad


def iter_rng(ctx, salt):
    """the iterator streams draw from their own generator (still a function of VERIF_SEED alone), so that the cases of
    the older streams are what they were before these streams existed"""
    return C.Rng((ctx.seed * 0x9E3779B97F4A7C15 + 0xC07 + sum(salt.encode()) * 1000003) & 0xFFFFFFFFFFFFFFFF)


def gen_scripts(r, argc, n_random, exhaustive):
    scripts = []
    if exhaustive:
        heads = [[]] + [[a] for a in IT_STEP] + [[a, b] for a in IT_STEP for b in IT_STEP]
        for h in heads:
            for last in [None] + IT_LAST:
                sc = h + ([last] if last else [])
                if sc:
                    scripts.append(sc)
    big = [0, 1, 2, 3, 5, 7, argc, max(argc - 1, 0), argc + 1, 2**63, 2**64 - 1]
    for _ in range(n_random):
        sc = []
        for _ in range(r.range(3, 9)):
            t = r.choice(["n", "n", "n", "N", "N", "s", "s", "t", "l", "h"])
            if t in ("N", "s"):
                sc.append("%s:%d" % (t, r.choice(big)))
            elif t == "t":
                sc.append("t:%d" % max(1, r.choice(big)))
            else:
                sc.append(t)
        if r.chance(1, 2):
            sc.append(r.choice(IT_LAST))
        scripts.append(sc)
    return scripts


def iter_mode(ctx, mode, release, quick, full):
    """every method of `ArgsOs` / `Args` a program can call, in scripted orders, on fresh iterators (one exec per argv)"""
    tag = mode + ("-release" if release else "-debug")
    exe, err = build_probe(ctx, mode, release)
    if exe is None:
        return                                               # reported by run_mode
    r = iter_rng(ctx, tag)
    lines, impl, origin = [], [], []
    worst = {}                                                # (kind, iter) -> smallest failing (case, script, got, why)
    argvs = IT_ARGVS if full else [IT_ARGVS[0], IT_ARGVS[3], IT_ARGVS[6]]
    argvs = argvs + [[gen_string(r, r.choice([0, 1, 4, 5, 6])) for _ in range(r.range(2, 6))]]
    for argv in argvs:
        its = []
        for kind in ("os", "args"):
            for sc in gen_scripts(r, max(len(argv), 1), (120 if quick else 2000) if full else (40 if quick else 400),
                                  exhaustive=full or len(argv) == 3):
                its.append((kind, sc))
        case = {"argv": argv, "env": [b"A=b"], "keys": [], "stack": True, "its": its}
        rec = run_case(exe, case)
        ctx.evaluations += 1 + len(its)
        ctx.hist("runs", "iter-" + tag)
        base = judge_run(case, rec, exe)
        if base:
            report(ctx, tag, case, rec, base, exe)
            if any(b[1] == "crash" for b in base):
                ctx.violation({"op": "iter", "kind": "crash", "mode": mode},
                              {"mode": tag, "exe": exe, "argv": [hx(x) for x in argv], "scripts": len(its),
                               "answered": len(rec.get("it", [])), "first_unanswered": " ".join(its[len(rec.get("it", []))][1]) if len(rec.get("it", [])) < len(its) else None,
                               "why": "the probe died or hung while running iterator scripts"})
            continue
        img_argv = parse_image(int(rec["sp"][0]), C.unhex(rec["stack"][0]))[1]
        got_all = rec.get("it", [])
        lines.append("stack %s %s" % (rec["sp"][0], rec["stack"][0]))
        impl.append(None)
        origin.append((argv, None))
        for i, (kind, sc) in enumerate(its):
            got = got_all[i] if i < len(got_all) else []
            items = it_items(img_argv, kind)
            for b_kind, why, at in judge_iter(items, sc, got):
                key = (b_kind, kind)
                size = (at, len(sc), len(argv))
                if key not in worst or size < worst[key][0]:
                    worst[key] = (size, argv, sc, got, why, items)
                ctx.hist("iter_spec_failures", "%s:%s:%s" % (tag, kind, b_kind))
            lines.append("it %s %s" % (kind, " ".join(sc)))
            impl.append(" ".join(["it"] + got))
            origin.append((argv, (kind, sc)))
            for op in sc:
                ctx.hist("iter_ops", IT_NAME[op[0]])
            ctx.count(("iter", kind, min(len(img_argv), 6), sc[0][0], sc[-1][0] if sc[-1] in IT_LAST else "-"))
    for (b_kind, kind), (_, argv, sc, got, why, items) in sorted(worst.items()):
        want = spec_iter(items, sc)[0]
        ctx.violation({"op": "iter", "kind": b_kind, "iter": kind, "mode": mode},
                      {"mode": tag, "exe": exe, "argv": [hx(x) for x in argv], "env": [hx(b"A=b")], "keys": [],
                       "iterator": "args_os()" if kind == "os" else "args()", "script": sc,
                       "implementation": got, "arguments_demand": want, "why": why,
                       "how_to_replay": "python3 %s --replay <this file>   # or: echo 'it %s %s' | %s <argv>" % (
                           os.path.abspath(__file__), kind, " ".join(sc), exe)})
    if not release and mode == "dyn":
        ctx.sample({"mode": tag, "iterator_script": "it os n N:1 l c", "argv": [hx(a) for a in IT_ARGVS[4]],
                    "demanded": spec_iter(it_items(IT_ARGVS[4], "os"), ["n", "N:1", "l", "c"])[0]})

    def replay_of(i):
        argv, it = origin[i]
        return {"mode": tag, "exe": exe, "argv": [hx(x) for x in argv], "env": [hx(b"A=b")], "keys": [],
                "script": it[1] if it else None, "iter": it[0] if it else None}
    model_compare(ctx, "iter-" + tag, lines, impl, replay_of)


def model_iter_stream(ctx, quick):
    """no probe: the Lean iterator model on spec-side images (argc 0 included, which execve cannot produce on this kernel)
    against the oracle, every answer (len / size_hint included) exactly"""
    r = iter_rng(ctx, "model")
    lines, exp = [], []
    for argc in range(0, 7):
        argv = IT_ARGVS[6][:argc]
        lines.append("build 4096 a %s e x" % " ".join(hx(a) for a in argv))
        exp.append(None)
        for kind in ("os", "args"):
            for sc in gen_scripts(r, argc, 60 if quick else 1500, exhaustive=argc in (0, 2, 4)):
                lines.append("it %s %s" % (kind, " ".join(sc)))
                exp.append(" ".join(["it"] + spec_iter(it_items(argv, kind), sc)[0]))
    model_compare(ctx, "model-iter-vs-spec", lines, exp, lambda i: {"line": lines[i][:300]})


# ------------------------------------------------------------------ the check

def report(ctx, mode, case, rec, bad, exe):
    for op, kind, why in bad[:6]:
        rp = {"mode": mode, "exe": exe, "argv": [hx(x) for x in case["argv"]], "env": [hx(x) for x in case["env"]],
              "keys": [hx(x) for x in case["keys"]], "why": why,
              "implementation": [l[:400] for l in rec["lines"] if not l.startswith(("stack", "procauxv"))][:60],
              "how_to_replay": "python3 %s --replay <this file>" % os.path.abspath(__file__)}
        if sum(len(x) for x in rp["argv"]) > 20000:
            rp["argv"] = [x if len(x) < 200 else "len:%d" % (len(x) // 2) for x in rp["argv"]]
        ctx.violation({"op": op, "kind": kind, "mode": mode.split("-")[0]}, rp)


def model_compare(ctx, name, lines, impl, replay_of):
    """feed `lines` to drv_c07 and compare with the implementation-side lines `impl` (None = no comparison)"""
    st = ctx.extra.setdefault("streams", {})
    if not lines:
        st[name] = {"cases": 0, "disagreements": 0}
        return []
    rc, outs, err = C.run_filter([C.driver_path("drv_c07")], lines, timeout=900)
    st[name] = {"cases": len(lines), "disagreements": 0}
    ctx.evaluations += len(lines)
    if len(outs) != len(lines):
        ctx.broken.append({"driver_failed": name, "rc": rc, "stderr": err.splitlines()[-5:]})
        ctx.violation({"stream": name, "kind": "driver-failed"}, {"stream": name, "driver_rc": rc, "stderr": err.splitlines()[-5:]}, no_input=True)
        return outs
    dis = [(i, l, a, b) for i, (l, a, b) in enumerate(zip(lines, impl, outs)) if a is not None and a != b]
    st[name]["disagreements"] = len(dis)
    if dis:
        i, l, a, b = dis[0]
        ctx.broken.append({"correspondence": name, "count": len(dis),
                           "first_disagreement": {"case": l[:300], "implementation": a[:300], "model": b[:300]}})
        ctx.violation({"stream": name, "kind": "model-disagreement"},
                      {"broken_correspondence": name, "count": len(dis),
                       "first_disagreement": {"line_index": i, "case": l[:2000], "implementation": a[:2000], "model": b[:2000],
                                              "probe_run": replay_of(i)},
                       "note": "implementation and Lean model differ on this input"},
                      no_input=not any(not v[2] for v in ctx.violations))
    return outs


def run_mode(ctx, mode, release, cases, quick):
    tag = mode + ("-release" if release else "-debug")
    exe, err = build_probe(ctx, mode, release)
    if exe is None:
        ctx.broken.append({"probe_build_failed": tag, "error": err})
        ctx.violation({"kind": "probe-build-failed", "mode": tag}, {"error": err}, no_input=True)
        return
    lines, impl, origin = [], [], []
    consts = None
    for ci, case in enumerate(cases):
        rec = run_case(exe, case)
        ctx.evaluations += 1
        bad = judge_run(case, rec, exe)
        ctx.hist("runs", tag)
        if bad:
            report(ctx, tag, case, rec, bad, exe)
            ctx.hist("spec_failures", tag, len(bad))
        if not rec["complete"] or "stack" not in rec or rec["sp"][0] == "none" or rec["aux"][0] == "na":
            continue
        consts = " ".join(["consts"] + rec["consts"])
        lines.append("stack %s %s" % (rec["sp"][0], rec["stack"][0]))
        impl.append(impl_observation_line(case, rec))
        origin.append(ci)
        lines.append("env " + " ".join(hx(e) for e in case["env"]))
        impl.append("ok")
        origin.append(ci)
        for k in case["keys"]:
            for op in ("var", "varu"):
                ans = rec.get(op, {}).get(hx(k))
                if ans is not None:
                    lines.append("%s %s" % (op, hx(k)))
                    impl.append(ans)
                    origin.append(ci)
                    ctx.hist("lookups", op + ":" + ans.split()[0] + (":in-quantifier" if in_quantifier(k) else ":outside"))
                    name_rel = "exact" if any(e.split(b"=", 1)[0] == k for e in case["env"] if b"=" in e) else (
                        "prefix-of-name" if any(e.startswith(k) for e in case["env"]) else (
                            "name-is-prefix" if any(b"=" in e and k.startswith(e.split(b"=", 1)[0]) and e.split(b"=", 1)[0] for e in case["env"]) else "unrelated"))
                    ctx.count((op, ans.split()[0], name_rel, min(len(k), 3), b"=" in k))
        ctx.count(("argv", mode, min(len(case["argv"]), 5), any(len(a) == 0 for a in case["argv"]), any(not is_utf8(a) for a in case["argv"]),
                   any(len(a) > 60000 for a in case["argv"]), min(len(case["env"]), 4)))
        if ci < 3 and not release and mode == "spie":
            ctx.sample({"mode": tag, "argv": [hx(a)[:40] for a in case["argv"][:6]], "env": [hx(e)[:40] for e in case["env"][:6]],
                        "lookups": {k: v for k, v in list(rec.get("varu", {}).items())[:6]}})
    if consts is not None:
        lines.append("consts")
        impl.append(consts)
        origin.append(0)

    def replay_of(i):
        c = cases[origin[i]]
        return {"mode": tag, "exe": exe, "argv": [hx(x)[:400] for x in c["argv"][:50]], "env": [hx(x)[:400] for x in c["env"][:50]], "keys": [hx(x) for x in c["keys"]]}
    model_compare(ctx, "observe-" + tag, lines, impl, replay_of)


def reloc_and_clock(ctx, mode, release, quick):
    tag = mode + ("-release" if release else "-debug")
    exe, err = build_probe(ctx, mode, release)
    if exe is None:
        return
    n = 2000 if quick else 100000
    case = {"argv": [b"c07probe", b"x"], "env": [b"A=b"], "keys": [], "stack": True, "clock": n, "reloc": True}
    rec = run_case(exe, case)
    ctx.evaluations += 1
    if not rec["complete"]:
        ctx.violation({"op": "start", "kind": "crash", "mode": mode}, {"mode": tag, "lines": rec["lines"][-3:], "status": rec["status"]})
        return
    ck = rec.get("clock")
    obs = ctx.extra.setdefault("observations", {}).setdefault(tag, {})
    if ck:
        obs["clock"] = {"iterations": int(ck[0]), "monotonic_not_sandwiched_or_decreasing": int(ck[1]), "realtime_not_sandwiched": int(ck[2]), "max_bracket_ns": int(ck[3])}
        if int(ck[1]) or int(ck[2]):
            ctx.violation({"op": "clock", "kind": "vdso-disagrees", "mode": mode},
                          {"mode": tag, "exe": exe, "observation": obs["clock"],
                           "why": "a now() reading (vDSO path) fell outside the two clock_gettime system calls around it, or went backwards",
                           "how_to_replay": "echo 'clock %d' | %s" % (n, exe)})
    # is the vDSO really in use?  count clock_gettime system calls: 4 per iteration come from the direct calls
    if not release:
        rc, out = C.sh(["strace", "-f", "-c", "-e", "trace=clock_gettime", "-o", "/dev/stderr", exe], input="clock 50\n", timeout=120)
        calls = [l.split() for l in out.splitlines() if l.strip().endswith("clock_gettime")]
        if calls:
            n_calls = int(calls[0][3])
            obs["vdso_in_use"] = (n_calls == 200)
            obs["clock_gettime_syscalls_for_50_iterations"] = n_calls
    if rec.get("dyn", ["none"])[0] in ("none", "interp"):
        obs["relocation"] = "not applicable (%s)" % ("no PT_DYNAMIC / _DYNAMIC = 0" if rec.get("dyn", ["none"])[0] == "none" else "ld.so relocated the image; AT_BASE != 0, relocate_symbols skips")
        return
    line, impl, problems, stats = reloc_lines(rec)
    obs["relocation"] = stats
    ctx.count(("reloc", tag, stats["relative_entries"] > 0))
    if stats["pt_dynamic_index"] == 0:
        ctx.violation({"op": "relocate", "kind": "pt-dynamic-first", "mode": mode},
                      {"mode": tag, "why": "PT_DYNAMIC is the first program header: the ELF hypothesis of relocate_exact does not hold for this link"}, no_input=True)
    for p in problems:
        ctx.violation({"op": "relocate", "kind": "wrong", "mode": mode},
                      {"mode": tag, "exe": exe, "why": p, "how_to_replay": "echo reloc | %s   # relv = words at the R_RELATIVE targets, compare with bias + addend from the rela line" % exe})
    model_compare(ctx, "relocate-" + tag, [line], [impl], lambda i: {"mode": tag, "exe": exe, "stdin": "reloc"})


def model_streams(ctx, quick):
    """streams that need no probe: the spec-side image through the model, the UTF-8 validator, legacy witness"""
    r = ctx.rng
    lines, exp = [], []
    for i in range(150 if quick else 3000):
        argv = [gen_string(r, r.choice([0, 1, 4, 5, 6, 9])) for _ in range(r.choice([0, 1, 2, 3, 7]))]
        env = [gen_string(r, r.choice([0, 1, 8, 9, 4])) for _ in range(r.choice([0, 1, 2, 5]))]
        aux = []
        for _ in range(r.choice([0, 1, 4, 12])):
            aux.append((r.choice([3, 4, 5, 6, 7, 11, 13, 23, 25, 31, 33, 51, 52, 2**32 + 3, 2**63, 9, 15, 16, 17]), r.choice([0, 1, r.below(2**64), 2**64 - 1])))
        sp = r.choice([8, 4096, 0x7ffc12345670, 2**63])
        lines.append("build %d a %s e %s x %s" % (sp, " ".join(hx(a) for a in argv), " ".join(hx(e) for e in env), " ".join("%d %d" % kv for kv in aux)))
        exp.append("ok argc=%d len=%d args_os=%s args=%s env=%s aux=%s" % (
            len(argv), len(argv), hexlist(argv), ",".join(("ok:" + hx(a)) if is_utf8(a) else "err" for a in argv) if argv else ".",
            hexlist(env), ",".join(str(aux_last(aux, k)) for k in AUX_ORDER)))
    model_compare(ctx, "model-buildStack-vs-spec", lines, exp, lambda i: {"line": lines[i][:500]})
    lines, exp = [], []
    samples = [gen_string(r, k) for k in (5, 6, 4, 4, 1) for _ in range(60 if quick else 2000)]
    for a in range(0x80, 0x100):
        for b in (0x7f, 0x80, 0x8f, 0x90, 0x9f, 0xa0, 0xbf, 0xc0):
            samples += [bytes([a, b]), bytes([a, b, 0x80]), bytes([a, b, 0xbf, 0x80]), bytes([a, b, 0x80, 0xc0])]
    for s in samples:
        lines.append("utf8 " + hx(s))
        exp.append("ok" if is_utf8(s) else "err")
    model_compare(ctx, "utf8-validator-vs-python", lines, exp, lambda i: {"line": lines[i]})
    # the pre-fix bodies keep exhibiting the defect (the witness proved in Props/C07 by `decide`)
    model_compare(ctx, "legacy-witness", ["env 484f4d453d78", "legacy-var 484f4d4552", "legacy-varu 484f4d4552", "var 484f4d4552", "varu 484f4d4552"],
                  ["ok", "ok 78", "ok 78", "missing", "missing"], lambda i: {})
    # ... and so do the pre-d3e06ee bodies of len() / size_hint() (Props/C07 legacy_len_not_remaining_witness): 3 and (0, None)
    # after one next() over three arguments where the repaired code (and the arguments passed) say 2 and (2, Some(2))
    model_compare(ctx, "legacy-iter-witness", ["build 4096 a 61 - fffe e x", "legacy-it os n l h", "it os n l h", "legacy-it args n l h", "it args n l h"],
                  [None, "it n=S:61 l=3 h=0,none", "it n=S:61 l=2 h=2,2", "it n=S:ok:61 l=3 h=0,none", "it n=S:ok:61 l=2 h=2,2"], lambda i: {})
    model_compare(ctx, "malformed", ["", "stack", "stack 12 zz", "var", "var 4", "env 4", "reloc 1 2", "build x", "nop 1", "utf8 1 2",
                                     "it os n", "build 4096 a 61 e x", "it os", "it xx n", "it os q", "it os N", "it os N:x", "it os t:0",
                                     "it os c n", "it args L l", "it os N:18446744073709551616", "it os n:1"],
                  ["bad-op"] * 11 + [None] + ["bad-op"] * 10, lambda i: {})
    model_iter_stream(ctx, quick)


# ------------------------------------------------------------------ in-process stream (harness/c07: include!d aux.rs / dynlink.rs)

def gen_synthetic(ctx, n):
    """aux vectors and ELF tables the kernel / linker never produce here: duplicate keys, keys > 51, REL entries,
    duplicate DT_* tags, several PT_DYNAMIC headers.  Returns (case lines, expected answers by the property's spec)."""
    r = ctx.rng
    cases, exp = [], []
    for _ in range(n):
        aux = []
        for _ in range(r.choice([0, 1, 3, 8, 20])):
            aux.append((r.choice([3, 4, 5, 7, 11, 13, 23, 25, 31, 33, 33, 3, 7, 1, 2, 6, 9, 15, 16, 17, 26, 51, 52, 2**32 + 3, 2**32 + 33, 2**63 + 7]),
                        r.choice([0, 1, r.below(2**64), 2**64 - 1, r.below(4096)])))
        cases.append("auxv " + " ".join("%d %d" % kv for kv in aux))
        exp.append(",".join(str(aux_last(aux, k)) for k in AUX_ORDER))
    for _ in range(n):
        size, phoff, dynoff, reloff, relaoff = 8192, r.choice([0, 64]), 512, 1024, 2048
        phent = r.choice([56, 56, 64])
        phnum = r.range(2, 7)
        d = r.range(1, phnum - 1)
        words = {}      # off -> (a, b): value a + b*base
        for j in range(phnum):
            ty = 2 if (j == d or (j > d and r.chance(1, 4))) else r.choice([1, 6, 4, 3, 0x6474e551])
            words[phoff + phent * j] = (ty | (r.below(8) << 32), 0)
            words[phoff + phent * j + 16] = (dynoff if j == d else r.below(4096), 0)
        nrel, nrela = r.choice([0, 1, 3, 9]), r.choice([0, 1, 4, 12])
        dyn = []
        for tag, val in [(17, reloff), (18, nrel * 16 + r.choice([0, 0, 7, 15])), (7, relaoff), (8, nrela * 24 + r.choice([0, 0, 8, 23]))]:
            if r.chance(1, 4):
                dyn.append((tag, r.below(64) * 8))           # an earlier duplicate: the later one must win
            dyn.append((tag, val))
        for _ in range(r.below(5)):
            dyn.insert(r.below(len(dyn) + 1), (r.choice([1, 5, 6, 9, 11, 19, 24, 30, 0x6ffffff9, 0x6ffffffb, 2**32 + 7]), r.below(2**32)))
        # duplicates inserted before their real entry only: re-sort so that the real (last listed) entry is last per tag
        for i, kv in enumerate(dyn):
            words[dynoff + 16 * i] = (kv[0], 0)
            words[dynoff + 16 * i + 8] = (kv[1], 0)
        words[dynoff + 16 * len(dyn)] = (0, 0)
        final = {}
        for tag, val in dyn:
            if tag in (7, 8, 17, 18):
                final[tag] = val
        slots = r.shuffle(list(range(4096, 8192 - 8, 8)))
        tgt = []
        mem = {}
        def info():
            return r.choice([8, 8, 8, 6, 7, 0, 2**32 + 8, 8 + 2**33])
        rels = [(None, info()) for _ in range(final[18] // 16)]
        relas = [(None, info(), r.below(2**40)) for _ in range(final[8] // 24)]
        # (only the counts that the *last* DT_RELSZ / DT_RELASZ give are laid out; they equal nrel / nrela)
        for i in range(len(rels)):
            off = slots.pop()
            rels[i] = (off, rels[i][1])
            old = r.below(2**40)
            mem[off] = (old, 0) if rels[i][1] == 8 else (old, 1)
            words[final[17] + 16 * i] = (off, 0)
            words[final[17] + 16 * i + 8] = (rels[i][1], 0)
        for i in range(len(relas)):
            off = slots.pop()
            relas[i] = (off, relas[i][1], relas[i][2])
            mem[off] = (r.below(2**40), 1)
            words[final[7] + 24 * i] = (off, 0)
            words[final[7] + 24 * i + 8] = (relas[i][1], 0)
            words[final[7] + 24 * i + 16] = (relas[i][2], 0)
        for _ in range(4):
            mem[slots.pop()] = (r.below(2**40), 1)       # bystanders: must stay as they are
        words.update(mem)
        want = dict(mem)
        for off, inf in rels:
            if inf == 8:
                want[off] = (want[off][0], want[off][1] + 1)
        for off, inf, add in relas:
            if inf == 8:
                want[off] = (add, 1)
        qs = sorted(mem)
        cases.append("relocsyn %d %d %d %d %d %s %s" % (size, phoff, phent, phnum, dynoff,
                     " ".join("%s %d %d" % ("wb" if b else "w", o, a) for o, (a, b) in sorted(words.items())), " ".join("q %d" % q for q in qs)))
        assert all(want[q][1] == 1 for q in qs)
        exp.append("ok " + " ".join(str(want[q][0]) for q in qs) if qs else "ok")
    return cases, exp


def synthetic_stream(ctx, quick):
    exe, err = C.cargo_build(ctx, "c07")
    if exe is None:
        ctx.broken.append({"harness_build_failed": err})
        ctx.violation({"kind": "harness-build-failed"}, {"error": err}, no_input=True)
        return
    cases, exp = gen_synthetic(ctx, 400 if quick else 20000)
    want = dict(zip(cases, exp))

    def judge(c, o):
        if o.strip() == want[c].strip():
            return None
        if c.startswith("auxv"):
            return "from_auxv: not the last listed value of each kept key (expected %s)" % want[c]
        return "relocate_symbols: words after relocation differ from old+base / base+addend / unchanged (expected %s)" % want[c][:200]
    C.correspond(ctx, "synthetic-aux-and-elf-tables", cases, [exe], [C.driver_path("drv_c07")], judge,
                 lambda c, o, why: {"op": c.split()[0], "kind": why.split(":")[0]})
    for c in cases:
        w = c.split()
        ctx.count((w[0], min(len(w), 12), "wb" in w))


def run(ctx):
    quick = ctx.tier == "quick"
    try:
        soft, hard = resource.getrlimit(resource.RLIMIT_STACK)
        want = 1 << 30
        resource.setrlimit(resource.RLIMIT_STACK, (want if hard == resource.RLIM_INFINITY else min(want, hard), hard))
    except Exception:  # noqa
        pass
    ctx.rule = ("runs = raw execve of the no-libc probe (3 link modes x debug/release) with generated argv (0..3000 arguments, empty, non-UTF-8, "
                "malformed UTF-8, up to 131071 bytes) and envp (empty, duplicate names, names that are prefixes of each other, empty names/values, "
                "values with '=', entries without '=', empty entries, non-UTF-8); lookup keys derived from the block's names (each name, every proper "
                "prefix, name+1 byte, name+'=', case variants); distinct_nontrivial = distinct (var|var_unix, answer kind, relation of key to the "
                "names present, key length capped at 3, key has '=') classes + (link mode, argc class, has empty/non-UTF-8/very long argument, env size class) classes "
                "+ shapes of the synthetic in-process cases (aux vectors with duplicate/unknown keys; ELF tables with REL and RELA entries, duplicate DT_* tags, several PT_DYNAMIC headers) "
                "+ iterator scripts: calls on ONE fresh args_os() / args() object (next, nth(k), skip(k).next(), step_by(k) polled to the end, len, size_hint, then optionally "
                "count / last / fold by value), exhaustively every sequence of <= 2 of 13 stepping calls x 4 endings plus random scripts of 3..9 calls with k in "
                "{0,1,2,3,5,7,argc-1,argc,argc+1,2^63,2^64-1}, over argc 1..6 (distinct arguments: empty, non-UTF-8) in every link mode and profile; argc 0 on spec-side images "
                "through the model only; classes counted = (iterator, argc, first call, ending)")
    ctx.assumptions += [
        "Model/Start.lean + Model/Env.lean describe tiny-start resolve/from_auxv/relocate_symbols and tiny-std env.rs (checked by this run: the model is run on the raw kernel stack image, the environment and the executable's own relocation tables captured from each probe run)",
        "ELF well-formedness assumed by relocate_exact: R_RELATIVE targets pairwise distinct 8-byte words, disjoint from the relocation tables, .dynamic and program headers; no address arithmetic overflow; the PT_DYNAMIC program header is not at index 0 (the scan starts at index 1) — each is checked on the probes' own tables by this run",
        "the kernel places the ABI's initial stack (argc, argv, NULL, envp, NULL, auxv, AT_NULL) at the entry stack pointer and passes argv/envp bytes unchanged (checked: raw image parsed independently and compared with what execve was given and with /proc/self/auxv); Linux >= 5.18 turns an empty argv into one empty argument",
        "observed only, not modelled: the `_start` assembly (rsp -> rdi, &_DYNAMIC -> rsi), the vDSO symbol lookup (vdso.rs) and the vDSO clock's agreement with the clock_gettime system call (each now() reading must lie between two system-call readings and never decrease)",
        "tiny-std has no environment iterator and four aux getters: the `env=` part of an observation line is what execve was given, aux addresses are taken from the process's own /proc/self/auxv with the getters' answers substituted/dereferenced",
        "release-profile probes supply their own `strlen` symbol (rustc 1.95 turns rusl's strlen loop into a call to the C symbol, which a no-libc link cannot resolve: observation, not a C07 violation)",
    ]
    ctx.assumptions += [
        "the argument iterators are observed as stateful objects: the probe runs each script through the methods a program calls (it.nth, it.by_ref().skip(k).next(), "
        "it.by_ref().step_by(k), it.len, it.size_hint, it.count, it.last, it.fold), so a library override of any of them is the code that runs; answers are judged by a plain-Python "
        "cursor over the arguments the kernel image holds (every call relative to the current position, len/size_hint = exact remainder) and compared with Model/Env.lean runOps on the same raw image. "
        "On the unchanged tree ArgsOs/Args override only next, size_hint and len; the default bodies of nth / Skip::next / StepBy::next / fold / count / last in the model are core's "
        "(rustc 1.95), tied by this correspondence, not extracted. DoubleEndedIterator / Clone are not implemented by the library, so next_back / clone cannot be scripted; "
        "count / last / fold take the iterator by value and therefore end a script (an override of them is not reached through by_ref())",
        "len() / size_hint() of ArgsOs/Args are judged like every other call (theorem iter_ops_exact covers every well-formed script, these two calls included): "
        "the exact number of arguments not yet yielded at every point of a script. The two findings of the earlier rounds (len() of a partly consumed iterator was argc, "
        "size_hint() was the default (0, None)) are repaired in /repo by d3e06ee and listed as `fixed` in known_findings.d/C07.jsonl, which suppresses nothing: a regression "
        "is an ordinary VIOLATION, reported under the same signatures (kind len-is-argc-not-remaining / size-hint-not-exact); the pre-fix bodies are kept as Env.Legacy.itStep "
        "with the witness legacy_len_not_remaining_witness (stream legacy-iter-witness)",
    ]
    ctx.assumptions += ["tiny-start/src/elf/aux.rs and dynlink.rs are additionally include!d into harness/c07 and run in-process on synthetic aux vectors / ELF tables (buffer address = load base); the REL relocation loop is exercised only there (x86-64 links emit RELA)"]
    ctx.trusted += ["no-libc probe /verif/harness-nolibc/c07probe (prints what tiny-std's API returns and dumps raw memory), the raw fork+execve launcher in checks/c07.py, strace (vDSO-in-use observation)"]
    ok = C.lean_prove(ctx, "TinyVerif.Props.C07", drivers=["drv_c07"])
    if not os.path.exists(C.driver_path("drv_c07")):
        ctx.violation({"kind": "driver-missing"}, {"broken": ctx.broken}, no_input=True)
        return
    model_streams(ctx, quick)
    synthetic_stream(ctx, quick)
    n = 70 if quick else 1500
    cases = gen_cases(ctx, n, quick)
    for mode in MODES:
        run_mode(ctx, mode, False, cases, quick)
        reloc_and_clock(ctx, mode, False, quick)
        iter_mode(ctx, mode, False, quick, full=(mode == "dyn"))
    rel_cases = cases[:4] + cases[4::4][: (12 if quick else 300)]
    for mode in MODES:
        run_mode(ctx, mode, True, rel_cases, quick)
        reloc_and_clock(ctx, mode, True, quick)
        iter_mode(ctx, mode, True, quick, full=(mode == "static" or not quick))
    # the start-up without aux values (features start + symbols only): its own `resolve`, judged against what was passed
    # (static PIE is excluded: `resolve` without aux "does not relocate symbols. Do not use if symbol relocation is wanted or
    #  required, such as when compiling a static-pie-linked" binary - start.rs; a static PIE without relocation crashes by design)
    for mode in (["static+noaux"] if quick else [m + "+noaux" for m in MODES if m != "spie"]):
        run_mode(ctx, mode, False, rel_cases if quick else cases, quick)
        iter_mode(ctx, mode, False, quick, full=False)
        if not quick:
            run_mode(ctx, mode, True, rel_cases, quick)
    # the release link without the probe's own strlen: recorded as an observation (DESIGN §4 #22)
    ctx.extra.setdefault("observations", {})["release_link_without_probe_strlen"] = \
        "fails with `undefined symbol: strlen` under rustc 1.95 (tried once when the probe was written); the release probe defines strlen itself"
    if not ok and not ctx.violations:
        ctx.violation({"kind": "proof-broken"}, {"broken": ctx.broken}, no_input=True)


def replay(ctx, rp):
    r = rp.get("replay", rp)
    if "first_disagreement" in r:
        r = r["first_disagreement"].get("probe_run", r)
    if "argv" not in r or any(x.startswith("len:") for x in r["argv"]):
        print("replay file carries no complete probe run")
        return 2
    mode, rel = r["mode"].rsplit("-", 1)[0], r["mode"].endswith("release")
    exe, err = build_probe(ctx, mode, rel)
    if exe is None:
        print(err)
        return 2
    case = {"argv": [C.unhex(x) for x in r["argv"]], "env": [C.unhex(x) for x in r["env"]], "keys": [C.unhex(x) for x in r["keys"]]}
    if r.get("script"):
        kind = r.get("iter") or ("args" if r.get("iterator") == "args()" else "os")
        case["its"] = [(kind, r["script"])]
    rec = run_case(exe, case)
    for l in rec["lines"]:
        print(l[:300])
    bad = judge_run(case, rec, exe)
    if case.get("its") and not bad:
        kind, sc = case["its"][0]
        items = it_items(parse_image(int(rec["sp"][0]), C.unhex(rec["stack"][0]))[1], kind)
        print("arguments demand: it " + " ".join(spec_iter(items, sc)[0]))
        bad = judge_iter(items, sc, (rec.get("it") or [[]])[0])
        for b in bad:
            if ctx.known and any(k.get("status") == "known" and C.sig_match(k.get("signature", {}), {"op": "iter", "kind": b[0]}) for k in ctx.known):
                print("KNOWN-FINDING:", b)
        bad = [b for b in bad if not any(k.get("status") == "known" and C.sig_match(k.get("signature", {}), {"op": "iter", "kind": b[0]}) for k in ctx.known)]
    for b in bad:
        print("FAILS:", b)
    return 1 if bad else 0


if __name__ == "__main__":
    if len(sys.argv) == 3 and sys.argv[1] == "--replay":
        sys.exit(replay(C.Ctx("C07", "quick", 1), json.load(open(sys.argv[2]))))
    print(__doc__)
