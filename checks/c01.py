"""C01 — Mutex: exclusion, visibility, no lost wake-up, try_lock; every schedule."""
import json
import os

from . import common as C
from . import sync_extract

ACQ = {"acq", "acqrel", "sc"}
REL = {"rel", "acqrel", "sc"}
ORDMAP = {"relaxed": "rlx", "acquire": "acq", "release": "rel", "acqrel": "acqrel", "seqcst": "sc"}


def cfg_from_table(t):
    """the model configuration (5 ordering bits + spin count) from the regenerated site table"""
    m = t["tables"]["mutex"]

    def o(k, j=0):
        try:
            return ORDMAP[m[k]["ords"][j]]
        except Exception:
            return "rlx"
    return {
        "tryAcq": o(0) in ACQ, "lockAcq": o(1) in ACQ, "cas2Acq": o(2) in ACQ, "swap2Acq": o(3) in ACQ,
        "unlockRel": o(6) in REL, "spin": max(0, int(t["extra"]["mutex_spin"])),
    }


def cfg_bits(c):
    return "%d %d %d %d %d %d" % (c["lockAcq"], c["tryAcq"], c["cas2Acq"], c["swap2Acq"], c["unlockRel"], c["spin"])


def gen_programs(r, which):
    n = r.choice([2, 2, 3, 3, 4])
    progs = []
    for _ in range(n):
        k = r.range(1, 3)
        if which == "mutex":
            progs.append(" ".join(("d0" if r.chance(1, 8) else "%s%d" % (r.choice(["l", "l", "l", "t"]), r.below(3))) for _ in range(k)))
        else:
            progs.append(" ".join("%s%d" % (r.choice(["r", "r", "w", "w", "tr", "tw"]), r.below(3)) for _ in range(k)))
    return progs


def gen_cases(ctx, which, n):
    r = ctx.rng
    cases = []
    for i in range(n):
        progs = gen_programs(r, which)
        stick = r.choice([0, 30, 70, 95])
        spur = r.choice([0, 0, 3, 10])
        weak = r.choice([0, 10, 30]) if which == "rw" else 0
        slow = r.below(16) if r.chance(3, 4) else 0
        cases.append("%s %d %d %d %d %d %d : %s" % (which, r.next() % (2**32), 8000, stick, spur, weak, slow, " | ".join(progs)))
    return cases


def split_out(line):
    head, _, trace = line.partition(" :: ")
    f = head.split()
    verdict = f[0]
    viol = "-"
    lost = None
    for x in f[1:]:
        if x.startswith("viol="):
            viol = x[5:]
        if x.startswith("lost-update"):
            lost = x
    return verdict, viol, lost, trace


def shape_of(trace):
    """coverage class of a run: which protocol paths it went through"""
    s = set()
    for ev in trace.split(" ; "):
        w = ev.split()
        if len(w) != 5:
            continue
        op, r = w[1], w[4]
        if op.startswith("cas"):
            s.add(op + ":" + w[2] + ":" + w[3] + ":" + ("ok" if r.startswith("ok") else ("spur" if r.startswith("spur") else "fail")))
        elif op.startswith("swap") or op.startswith("fadd") or op.startswith("fsub"):
            s.add(op + ":" + w[3] + ":old" + (r if int(r) < 3 else "big"))
        elif op.startswith("fwait"):
            s.add(op + ":" + r)
        elif op.startswith("fwake"):
            s.add(op + ":" + w[4])
        elif op in ("spur", "tryfail", "deadlock"):
            s.add(op + ":" + r)
    return tuple(sorted(s))


def observed_orderings(traces):
    obs = {}
    for t in traces:
        for ev in t.split(" ; "):
            w = ev.split()
            if len(w) == 5 and (w[1].startswith(("cas", "swap", "load", "fadd", "fsub", "store"))):
                key = w[1] + (":" + w[3] if w[1].startswith(("swap", "cas")) and w[3] != "-" else "")
                obs.setdefault(key, set()).add(w[2])
    return obs


def run(ctx):
    which = "mutex"
    ctx.rule = ("cases = (thread count 2..4, per-thread programs of 1..3 lock/try_lock transactions with 0..2 guarded writes, "
                "scheduler policy: stickiness, spurious-wake rate, holder-starvation mask, seed) drawn from VERIF_SEED; each runs the real "
                "mutex.rs under the deterministic scheduler; distinct_nontrivial = distinct sets of protocol paths taken "
                "(op x operands x outcome classes: CAS ok/fail, swap old value, futex park/eagain, wake count, spurious returns, try failures)")
    ctx.assumptions += [
        "memory model: release/acquire view semantics restricted to RMW-only writes of the lock word (no load buffering / promises); a failed CAS and the kernel's futex comparison read the latest value",
        "futex contract: wait compares the current value and enqueues atomically; wake(1) releases one waiter if any exists; waits may return spuriously (Ok or EINTR)",
        "the implementation is explored under sequentially consistent interleavings only (x86 run under a baton scheduler); stale relaxed loads are covered by the theorems, which allow a load to observe any value",
        "liveness is proved as: whenever a thread is parked some other thread can step (no deadlock, no lost wake-up); 'every lock() eventually returns' additionally needs a fair scheduler and is not proved (barging starvation is inherent to this lock)",
    ]
    table = sync_extract.generate()
    cfg = cfg_from_table(table)
    ctx.extra["extracted_cfg"] = cfg
    ok = C.lean_prove(ctx, "TinyVerif.Props.C01", drivers=["drv_c01"])
    ctx.trusted.append("checks/sync_extract.py (translator of atomic call sites; cross-checked each run against the orderings/operands the running code actually passes to the shimmed atomics)")
    # the exploration runs on a debug build (overflow checks, debug_assert!) and on a release build (neither)
    for release in (False, True):
        exe, err = C.cargo_build(ctx, "c01", release=release)
        if exe is None:
            ctx.broken.append({"harness_build_failed": err})
            ctx.violation({"kind": "harness-build-failed"}, {"error": err}, no_input=True)
            return
        n = (6000 if ctx.tier == "quick" else 120000) // (3 if release else 1)
        cases = gen_cases(ctx, which, n)
        # directed cases that force parking: a starved holder with many contenders
        for k in range(60 if ctx.tier == "quick" else 600):
            cases.append("mutex %d 12000 %d %d 0 %d : l2 l1 | l1 l0 | l1 | t0 l1" % (1000 + k, [0, 50, 90][k % 3], [0, 5][k % 2], 1 + k % 15))
        chunks = [cases[i::16] for i in range(16)]
        import concurrent.futures as cf
        outs = {}

        def work(chunk):
            rc, o, e = C.run_filter([exe], chunk, timeout=3000)
            return chunk, o, rc

        with cf.ThreadPoolExecutor(16) as ex:
            for chunk, o, rc in ex.map(work, chunks):
                if len(o) != len(chunk):
                    if o and o[-1].startswith("livelock"):
                        idx = len(o) - 1
                        ctx.violation({"kind": "livelock"},
                                      {"case": chunk[idx], "verdict": "livelock: a thread never returned from lock()/unlock() although every holder released (threads free-running for 20 s)",
                                       "trace_tail": o[-1].split(" :: ", 1)[-1].split(" ; ")[-60:], "how_to_replay": "echo '%s' | %s" % (chunk[idx], exe)})
                        o = o[:-1]
                    else:
                        idx = len(o)
                        ctx.violation({"kind": "harness-died", "case": chunk[idx] if idx < len(chunk) else "?"},
                                      {"case": chunk[idx] if idx < len(chunk) else None, "rc": rc})
                for c, l in zip(chunk, o):
                    outs[c] = l
        ctx.evaluations += len(outs)
        drv_lines, drv_cases = [], []
        traces = []
        for c in cases:
            if c not in outs:
                continue
            verdict, viol, lost, trace = split_out(outs[c])
            ctx.hist("verdicts", verdict)
            ctx.count(shape_of(trace))
            traces.append(trace)
            progs = c.split(" : ", 1)[1]
            if viol != "-" or lost or verdict == "deadlock":
                kind = "panic" if "panic" in viol else "exclusion" if "exclusion" in viol else ("try_lock" if "try:" in viol else ("deadlock" if verdict == "deadlock" else "lost-update"))
                ctx.violation({"kind": kind}, {"case": c, "verdict": verdict, "oracle": viol, "lost_update": lost,
                                                "trace": trace.split(" ; ")[-60:],
                                                "how_to_replay": "echo '%s' | %s" % (c, exe)})
            drv_lines.append("mutex %s : %s :: %s" % (cfg_bits(cfg), progs, trace))
            drv_cases.append((c, verdict))
        for c in cases[:3]:
            if c in outs:
                ctx.sample({"case": c, "result": outs[c][:400]})
        # tie C: every implementation trace must be a behaviour of the model
        rc, mo, err = C.run_filter([C.driver_path("drv_c01")], drv_lines, timeout=3000)
        if len(mo) != len(drv_lines):
            ctx.violation({"kind": "driver-failed"}, {"rc": rc, "stderr": err[-400:]}, no_input=True)
            return
        rejected, raced = [], []
        for (c, verdict), line, m in zip(drv_cases, drv_lines, mo):
            if m.startswith("reject") or m == "bad-op":
                rejected.append((c, m))
            elif "raced=true" in m:
                raced.append((c, m, line))
            elif verdict == "complete" and "finished=true" not in m:
                rejected.append((c, "complete run but model not finished: " + m))
            elif verdict == "deadlock" and not m.startswith("accept-deadlock"):
                rejected.append((c, m))
        ctx.extra["traces_validated_against_impl"] = len(drv_lines) - len(rejected)
        ctx.extra["model_rejections"] = len(rejected)
        # translator validation: orderings the code passed at run time vs the extracted table
        obs = observed_orderings(traces)
        ctx.extra["observed_orderings"] = {k: sorted(v) for k, v in sorted(obs.items())}
        tb = table["tables"]["mutex"]
        exp_cas = "%s/%s" % (ORDMAP[tb[1]["ords"][0]], ORDMAP[tb[1]["ords"][1]]) if len(tb) > 1 and len(tb[1]["ords"]) == 2 else "?"
        if "cas0:0>1" in obs and any(x != exp_cas for x in obs["cas0:0>1"]) and len({t["ords"][0] for t in tb[:3] if t["ords"]}) == 1:
            ctx.broken.append({"translator_mismatch": {"observed": sorted(obs["cas0:0>1"]), "extracted": exp_cas}})
            ctx.violation({"kind": "translator-mismatch"}, {"observed": sorted(obs["cas0:0>1"]), "extracted": exp_cas}, no_input=True)
        for c, m, line in raced[:3]:
            ctx.violation({"kind": "data-race-in-model"},
                          {"case": c, "model": m, "note": "with the memory orderings now in the source the release/acquire view model exhibits a race on the guarded data along this schedule of the real code (not observable on x86 hardware)",
                           "driver_line": line[:3000]})
        if rejected and not ctx.violations:
            c, m = rejected[0]
            ctx.broken.append({"correspondence": "mutex-trace", "first_rejection": {"case": c, "model": m}, "count": len(rejected)})
            ctx.violation({"kind": "model-rejects-trace"}, {"broken_correspondence": "mutex-trace", "case": c, "model": m, "count": len(rejected),
                                                             "note": "no oracle (exclusion, try_lock, deadlock, lost update) failed on any explored schedule"}, no_input=True)
    if not ok and not ctx.violations:
        ctx.violation({"kind": "proof-broken"}, {"broken": ctx.broken,
                                                 "note": "Props/C01.lean no longer checks against the regenerated Gen/SyncSites.lean (gen_shape_ok / gen_cfg_good) and no explored schedule fails an oracle"}, no_input=True)
