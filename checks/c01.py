"""C01 — Mutex: exclusion, visibility, no lost wake-up, try_lock; every schedule.

How the model's parameters are obtained (tie T) — nothing here depends on the *position* of a call site:
 * memory orderings: the scheduler shim logs, with every atomic operation, the ordering the running code passed.
   The Lean driver replays each RMW with exactly that ordering (`drv_c01`: the event updates the ordering bit
   `step` consults for it), so a guard obtained through a too-weak RMW shows as `raced=true` on a concrete
   schedule.  The classes (operation, role, ordering) observed — role `acquire` = the RMW that returned the guard,
   `release` = the first RMW of the guard's drop — are written to Gen/MutexObs.lean, and Props/C01.lean proves
   `genCfg.Good` from them *and* from the static site table (Gen/SyncSites.lean, roles derived from what each RMW
   does to the word) whenever that table was understood;
 * spin budget: taken from the traces (a first spin that ends although every load returned "locked" has
   budget+1 loads), cross-checked with the statically resolved constant; it only decides which traces the model
   accepts, no oracle depends on it;
 * futex key kind: the operation words the real rusl::futex passes to the (scripted) kernel, cross-checked with
   the source text when understood.
The shared engine `run_sync` is also used by checks/c02.py."""
import collections
import concurrent.futures as cf
import re

from . import common as C
from . import sync_extract

ACQ = {"acq", "acqrel", "sc"}
REL = {"rel", "acqrel", "sc"}
ORDMAP = {"relaxed": "rlx", "acquire": "acq", "release": "rel", "acqrel": "acqrel", "seqcst": "sc"}
MASK30 = (1 << 30) - 1
WW = 1 << 31


def gen_programs(r, which):
    n = r.choice([2, 2, 3, 3, 4])
    progs = []
    for _ in range(n):
        k = r.range(1, 3)
        if which == "mutex":
            progs.append(" ".join(("d0" if r.chance(1, 8) else "%s%d" % (r.choice(["l", "l", "l", "t"]), r.below(3))) for _ in range(k)))
        else:
            progs.append(" ".join("%s%d" % (r.choice(["r", "r", "w", "w", "tr", "tw"]), r.below(3)) for _ in range(k)))
    return progs


def gen_cases(ctx, which, n):
    r = ctx.rng
    cases = []
    for i in range(n):
        progs = gen_programs(r, which)
        stick = r.choice([0, 30, 70, 95])
        spur = r.choice([0, 0, 3, 10])
        weak = r.choice([0, 10, 30]) if which == "rw" else 0
        slow = r.below(16) if r.chance(3, 4) else 0
        cases.append("%s %d %d %d %d %d %d : %s" % (which, r.next() % (2**32), 8000, stick, spur, weak, slow, " | ".join(progs)))
    return cases


def split_out(line):
    head, _, trace = line.partition(" :: ")
    f = head.split()
    verdict = f[0]
    viol = "-"
    lost = None
    for x in f[1:]:
        if x.startswith("viol="):
            viol = x[5:]
        if x.startswith("lost-update"):
            lost = x
    return verdict, viol, lost, trace


def shape_of(trace):
    """coverage class of a run: which protocol paths it went through"""
    s = set()
    for ev in trace.split(" ; "):
        w = ev.split()
        if len(w) != 5:
            continue
        op, r = w[1], w[4]
        if op.startswith("cas"):
            s.add(op + ":" + w[2] + ":" + w[3] + ":" + ("ok" if r.startswith("ok") else ("spur" if r.startswith("spur") else "fail")))
        elif op.startswith("swap") or op.startswith("fadd") or op.startswith("fsub"):
            s.add(op + ":" + w[3] + ":old" + (r if int(r) < 3 else "big"))
        elif op.startswith("fwait"):
            s.add(op + ":" + r)
        elif op.startswith("fwake"):
            s.add(op + ":" + w[4])
        elif op in ("spur", "tryfail", "deadlock"):
            s.add(op + ":" + r)
    return tuple(sorted(s))


def observed_by_op(traces):
    """{operation+location: set of orderings the running code passed}, plus the flag words given to futex_wait"""
    obs, flags = {}, set()
    for t in traces:
        for ev in t.split(" ; "):
            w = ev.split()
            if len(w) != 5:
                continue
            if re.match(r"(cas|casw|swap|load|fadd|fsub|store)\d+$", w[1]):
                obs.setdefault(w[1], set()).add(w[2])
            elif w[1].startswith("fwait") and w[2].isdigit():
                flags.add(int(w[2]))
    return obs, flags


def infer_spin_mutex(traces):
    """lock(): failed CAS, then spin() — a run of loads that all returned 1 (locked, uncontended) and is followed
    by the swap to 2 ended because the budget ran out: it has budget+1 loads"""
    counts = collections.Counter()
    for t in traces:
        per = {}
        for ev in t.split(" ; "):
            w = ev.split()
            if len(w) != 5 or w[0] == "-":
                continue
            tid, op = w[0], w[1]
            st = per.get(tid)
            if op in ("cas0", "casw0") and w[4].startswith("fail"):
                per[tid] = 0
            elif op == "load0" and st is not None and w[4] == "1":
                per[tid] = st + 1
            elif op == "swap0" and w[3] == "2" and st:
                counts[st - 1] += 1
                per[tid] = None
            else:
                per[tid] = None
    return counts


def infer_spin_rw(traces):
    """write(): failed fast CAS, then spin_until — loads that all say "locked, no writer waiting" followed by the
    strong CAS that sets a waiting bit: budget+1 loads.  read(): the same after its fast path, with loads that all
    say "write-locked, nobody waiting"."""
    counts = collections.Counter()
    for t in traces:
        per = {}
        for ev in t.split(" ; "):
            w = ev.split()
            if len(w) != 5 or w[0] == "-":
                continue
            tid, op = w[0], w[1]
            st = per.get(tid)
            if op in ("call-write", "call-read"):
                per[tid] = (op, None)
            elif st and st[0] == "call-write" and st[1] is None and op == "casw0" and not w[4].startswith("ok"):
                per[tid] = ("w", 0)
            elif st and st[0] == "call-read" and st[1] is None and op == "load0":
                v = int(w[4])
                lockable = (v & MASK30) < MASK30 - 1 and v >> 30 == 0
                per[tid] = ("call-read", "loaded") if lockable else ("r", 0)
            elif st and st == ("call-read", "loaded") and op == "casw0" and not w[4].startswith("ok"):
                per[tid] = ("r", 0)
            elif st and st[0] in ("w", "r") and op == "load0":
                v = int(w[4])
                keep = ((v & MASK30) != 0 and not v & WW) if st[0] == "w" else (v == MASK30)
                per[tid] = (st[0], st[1] + 1) if keep else None
            elif st and st[0] in ("w", "r") and op == "cas0" and st[1]:
                counts[st[1] - 1] += 1
                per[tid] = None
            else:
                per[tid] = None
    return counts


def explore(ctx, which, exe, cases, what):
    """run the cases through the harness (16 processes); report livelocks / harness deaths; return {case: line}"""
    chunks = [cases[i::16] for i in range(16)]
    outs = {}

    def work(chunk):
        rc, o, e = C.run_filter([exe], chunk, timeout=3000)
        return chunk, o, rc

    with cf.ThreadPoolExecutor(16) as ex:
        for chunk, o, rc in ex.map(work, chunks):
            if len(o) != len(chunk):
                if o and o[-1].startswith("livelock"):
                    idx = len(o) - 1
                    ctx.violation({"kind": "livelock"},
                                  {"case": chunk[idx], "verdict": "livelock: a thread never returned from %s although every holder released (threads free-running for 20 s)" % what,
                                   "trace_tail": o[-1].split(" :: ", 1)[-1].split(" ; ")[-60:], "how_to_replay": "echo '%s' | %s" % (chunk[idx], exe)})
                    o = o[:-1]
                else:
                    idx = len(o)
                    ctx.violation({"kind": "harness-died", "case": chunk[idx] if idx < len(chunk) else "?"},
                                  {"case": chunk[idx] if idx < len(chunk) else None, "rc": rc})
            for c, l in zip(chunk, o):
                outs[c] = l
    return outs


def futex_probe(exe, flag_words):
    """operation words of the real rusl::futex::{futex_wait, futex_wake} → (wait_private, wake_private, detail)"""
    words = sorted(flag_words) or [128]
    rc, o, e = C.run_filter([exe], ["futexops %d" % f for f in words], timeout=120)
    res = []
    for f, line in zip(words, o):
        m = re.match(r"futexops wait=(\d+) wake=(\d+)", line)
        if not m:
            return None, None, {"probe_failed": line, "flags": f}
        res.append((f, int(m.group(1)), int(m.group(2))))
    if len(res) != len(words):
        return None, None, {"probe_failed": "no output", "rc": rc}
    waits = {bool(r[1] & 128) for r in res}
    wakes = {bool(r[2] & 128) for r in res}
    if len(waits) != 1 or len(wakes) != 1:
        return None, None, {"probe_mixed": res}
    return waits.pop(), wakes.pop(), {"flags_passed_by_futex_wait_fast": words,
                                      "op_words": [{"flags": f, "wait_op": a, "wake_op": b} for f, a, b in res]}


def run_sync(ctx, P):
    which = P["which"]
    table = sync_extract.generate()
    ctx.trusted.append("checks/sync_extract.py (translator of atomic call sites into roles/orderings; cross-checked each run against the orderings the running code actually passes to the shimmed atomics; when it does not understand the source the configuration rests on the observation)")
    tie = {"static_shape": table["shape"]}
    ctx.extra["tie_T"] = tie
    runs = []       # (case, verdict, trace)
    exes = {}
    # the exploration runs on a debug build (overflow checks, debug_assert!) and on a release build (neither)
    for release in (False, True):
        exe, err = C.cargo_build(ctx, "c01", release=release)
        if exe is None:
            ctx.broken.append({"harness_build_failed": err})
            ctx.violation({"kind": "harness-build-failed"}, {"error": err}, no_input=True)
            return
        exes[release] = exe
        cases = P["cases"](ctx, release)
        outs = explore(ctx, which, exe, cases, P["what"])
        ctx.evaluations += len(outs)
        for c in cases:
            if c not in outs:
                continue
            verdict, viol, lost, trace = split_out(outs[c])
            ctx.hist("verdicts", verdict)
            ctx.count(shape_of(trace))
            if viol != "-" or lost or verdict == "deadlock":
                kind = "panic" if "panic" in viol else "exclusion" if "exclusion" in viol else "debug-format" if viol.startswith("debug-format:") else (P["trykind"] if "try:" in viol else ("deadlock" if verdict == "deadlock" else "lost-update"))
                ctx.violation({"kind": kind}, {"case": c, "verdict": verdict, "oracle": viol, "lost_update": lost,
                                                "trace": trace.split(" ; ")[-P["tail"]:],
                                                "how_to_replay": "echo '%s' | %s" % (c, exe)})
            runs.append((c, verdict, trace))
        for c in cases[:3]:
            if c in outs:
                ctx.sample({"case": c, "result": outs[c][:400]})
    traces = [t for _, _, t in runs]

    # ---- what the running code did: orderings per role, spin budget, futex key kind
    rows = sync_extract.roles_observed(traces)
    obs, flag_words = observed_by_op(traces)
    ctx.extra["observed_orderings"] = {k: sorted(v) for k, v in sorted(obs.items())}
    tie["observed_roles"] = sorted("%s as %s: %s" % r for r in rows)
    static_spin = int(table["extra"][P["spin_key"]])
    counts = P["infer_spin"](traces)
    spin_obs = counts.most_common(1)[0][0] if counts else None
    tie["spin_budget"] = {"static": static_spin if static_spin >= 0 else "not understood", "observed": spin_obs,
                          "observed_runs": dict(counts.most_common(4))}
    if spin_obs is not None:
        spin = spin_obs
        if static_spin >= 0 and static_spin != spin_obs:
            tie["spin_budget"]["note"] = "static and observed budgets differ; the observed one is used (it only decides which traces the model accepts)"
    elif static_spin >= 0:
        spin = static_spin
        tie["spin_budget"]["note"] = "no schedule spun the budget out; the statically resolved budget is used"
    else:
        ctx.broken.append({"spin_budget": "neither resolvable from the source nor observable in the traces"})
        ctx.violation({"kind": "spin-budget-unknown"}, {"note": "the spin budget could neither be resolved from the source nor observed in any trace; the model cannot be instantiated"}, no_input=True)
        return
    tie["spin_budget"]["used"] = spin
    wait_p, wake_p, detail = futex_probe(exes[False], flag_words)
    tie["futex_key"] = {"static": {"understood": table["key_understood"], "wait_private": table["wait_private"], "wake_private": table["wake_private"]},
                        "observed": detail}
    if wait_p is None:
        ctx.broken.append({"futex_probe": detail})
        ctx.violation({"kind": "futex-probe-failed"}, {"detail": detail}, no_input=True)
        wait_p, wake_p = table["wait_private"], not table["wait_private"]  # makes futexKeyOk fail
    sync_extract.write_observed(P["obs_module"], rows, spin, wait_p, wake_p)
    # the atomics of the file, lock word first — which is also the order in which the running code first touches them
    tie["atomics"] = table["lock_locs"][P["table"]]
    understood, mism, notes = sync_extract.static_vs_observed(table["tables"][P["table"]], table["lock_locs"][P["table"]], obs)
    tie["static_orderings_understood"] = understood
    if notes:
        tie["static_not_understood_because"] = notes
    tie["configuration_source"] = ("static site table (roles, all orderings literal) and run-time observation, which agree" if understood and not mism
                                   else "run-time observation only: the static table was not understood (see static_not_understood_because)" if not understood
                                   else "static table and observation DISAGREE")

    # ---- the theorems, with the obligations of tie T over the regenerated Gen files
    ok = C.lean_prove(ctx, P["module"], drivers=[P["driver"]], more_props=P.get("more_props", ()))

    # ---- tie C: every implementation trace must be a behaviour of the model, replayed with the orderings it carried
    drv_lines = ["%s %d : %s :: %s" % (which, spin, c.split(" : ", 1)[1], t) for c, _, t in runs]
    rc, mo, err = C.run_filter([C.driver_path(P["driver"])], drv_lines, timeout=3000)
    if len(mo) != len(drv_lines):
        ctx.violation({"kind": "driver-failed"}, {"rc": rc, "stderr": err[-400:]}, no_input=True)
        return
    rejected, raced = [], []
    for (c, verdict, _), line, m in zip(runs, drv_lines, mo):
        if m.startswith("reject") or m == "bad-op":
            rejected.append((c, m))
        elif "raced=true" in m:
            raced.append((c, m, line))
        elif verdict == "complete" and "finished=true" not in m:
            rejected.append((c, "complete run but model not finished: " + m))
        elif verdict == "deadlock" and not m.startswith("accept-deadlock"):
            rejected.append((c, m))
    ctx.extra["traces_validated_against_impl"] = len(drv_lines) - len(rejected)
    ctx.extra["model_rejections"] = len(rejected)
    for c, m, line in raced[:3]:
        ctx.violation({"kind": "data-race-in-model"},
                      {"case": c, "model": m, "note": "replayed with the memory orderings the running code passed to each atomic operation, the release/acquire view model exhibits a race on the guarded data along this schedule of the real code (not observable on x86 hardware)",
                       "orderings_observed": tie["observed_roles"], "driver_line": line[:3000]})
    if mism:
        ctx.broken.append({"translator_mismatch": mism})
        ctx.violation({"kind": "translator-mismatch"}, {"mismatch": mism, "note": "the running code passes an ordering that no static site of that operation kind has: the static extraction misreads the source"}, no_input=True)
    if rejected and not ctx.violations:
        c, m = rejected[0]
        ctx.broken.append({"correspondence": P["corr"], "first_rejection": {"case": c, "model": m}, "count": len(rejected)})
        ctx.violation({"kind": "model-rejects-trace"}, {"broken_correspondence": P["corr"], "case": c, "model": m, "count": len(rejected),
                                                         "note": "no oracle (exclusion, try, deadlock, lost update, livelock) failed on any explored schedule"}, no_input=True)
    if not ok and not ctx.violations:
        ctx.violation({"kind": "proof-broken"}, {"broken": ctx.broken, "tie_T": tie,
                                                 "note": "%s no longer checks against the regenerated Gen/SyncSites.lean + Gen/%s.lean (gen_shape_ok / gen_cfg_good: every acquiring RMW Acquire, every releasing RMW Release, no store, same futex key kind) and no explored schedule fails an oracle" % (P["module"], P["obs_module"])}, no_input=True)


def mutex_cases(ctx, release):
    n = (6000 if ctx.tier == "quick" else 120000) // (3 if release else 1)
    cases = gen_cases(ctx, "mutex", n)
    # directed cases that force parking: a starved holder with many contenders
    for k in range(60 if ctx.tier == "quick" else 600):
        cases.append("mutex %d 12000 %d %d 0 %d : l2 l1 | l1 l0 | l1 | t0 l1" % (1000 + k, [0, 50, 90][k % 3], [0, 5][k % 2], 1 + k % 15))
    return cases


def run(ctx):
    ctx.rule = ("cases = (thread count 2..4, per-thread programs of 1..3 lock/try_lock transactions with 0..2 guarded writes, "
                "scheduler policy: stickiness, spurious-wake rate, holder-starvation mask, seed) drawn from VERIF_SEED; each runs the real "
                "mutex.rs under the deterministic scheduler; distinct_nontrivial = distinct sets of protocol paths taken "
                "(op x operands x outcome classes: CAS ok/fail, swap old value, futex park/eagain, wake count, spurious returns, try failures)")
    ctx.assumptions += [
        "memory model: release/acquire view semantics restricted to RMW-only writes of the lock word (no load buffering / promises); a failed CAS and the kernel's futex comparison read the latest value",
        "futex contract: wait compares the current value and enqueues atomically; wake(1) releases one waiter if any exists; waits may return spuriously (Ok or EINTR)",
        "the implementation is explored under sequentially consistent interleavings only (x86 run under a baton scheduler); stale relaxed loads are covered by the theorems, which allow a load to observe any value",
        "liveness is proved as: whenever a thread is parked some other thread can step (no deadlock, no lost wake-up); 'every lock() eventually returns' additionally needs a fair scheduler and is not proved (barging starvation is inherent to this lock)",
    ]
    run_sync(ctx, {
        "which": "mutex", "what": "lock()/unlock()", "cases": mutex_cases, "trykind": "try_lock", "tail": 60,
        "spin_key": "mutex_spin", "infer_spin": infer_spin_mutex, "obs_module": "MutexObs", "table": "mutex",
        "module": "TinyVerif.Props.C01", "driver": "drv_c01", "corr": "mutex-trace",
    })
