"""C02 — RwLock: writer exclusion, reader sharing, visibility, try variants; every schedule."""
import os

from . import common as C
from . import sync_extract
from . import c01 as M

ACQ, REL, ORDMAP = M.ACQ, M.REL, M.ORDMAP


def cfg_from_table(t):
    r = t["tables"]["rwlock"]

    def o(k, j=0):
        try:
            return ORDMAP[r[k]["ords"][j]]
        except Exception:
            return "rlx"
    return {
        "readAcq": all(o(k) in ACQ for k in (0, 2, 4)),
        "writeAcq": all(o(k) in ACQ for k in (7, 8, 10)),
        "readRel": o(3) in REL, "writeRel": o(9) in REL, "spin": max(0, int(t["extra"].get("rwlock_spin", 100))),
    }


def cfg_bits(c):
    return "%d %d %d %d %d" % (c["readAcq"], c["writeAcq"], c["readRel"], c["writeRel"], c["spin"])


def run(ctx):
    ctx.rule = ("cases = (thread count 2..4, per-thread programs of 1..3 read/write/try_read/try_write transactions with 0..2 guarded "
                "accesses, scheduler policy: stickiness, spurious-wake rate, spurious weak-CAS failure rate, holder-starvation mask, seed) "
                "drawn from VERIF_SEED; each runs the real rwlock.rs under the deterministic scheduler; distinct_nontrivial = distinct sets of "
                "protocol paths taken (op x operands x outcome classes)")
    ctx.assumptions += [
        "memory model: release/acquire view semantics; every write to `state` is an RMW so released views form one chain; a failed/successful CAS and the kernel's futex comparison read the latest value; relaxed loads may observe any value",
        "futex contract as in C01; wake(i32::MAX) releases every waiter on the address",
        "the implementation is explored under sequentially consistent interleavings only",
        "wake-up: reader queue proved for all executions; writer queue proved for executions whose two hand-shake loads (writer_notify Acquire load, re-read of state) observe current values and without writer_notify wrap (ReachableW); the derived no-deadlock statement is NOT proved: stated in Props/C02.lean, supported by the deadlock and livelock oracles of the schedule exploration",
        "no-panic of the two assert!s is proved only as far as `rw_write_unlock_leaves_unlocked`; the `too many active read locks` assert is reachable in the model through stale loads and is not claimed",
    ]
    table = sync_extract.generate()
    cfg = cfg_from_table(table)
    ctx.extra["extracted_cfg"] = cfg
    ok = C.lean_prove(ctx, "TinyVerif.Props.C02", drivers=["drv_c02"], more_props=["TinyVerif.Props.C02Live"])
    ctx.trusted.append("checks/sync_extract.py (translator of atomic call sites; cross-checked each run against the orderings/operands the running code passes to the shimmed atomics)")
    # the exploration runs on a debug build (overflow checks, debug_assert!) and on a release build (neither)
    for release in (False, True):
        exe, err = C.cargo_build(ctx, "c01", release=release)
        if exe is None:
            ctx.broken.append({"harness_build_failed": err})
            ctx.violation({"kind": "harness-build-failed"}, {"error": err}, no_input=True)
            return
        n = (5000 if ctx.tier == "quick" else 100000) // (3 if release else 1)
        cases = M.gen_cases(ctx, "rw", n)
        for k in range(80 if ctx.tier == "quick" else 800):
            progs = ["w2 r1 | w1 | r1 w0 | tr1 tw0", "w1 | w1 | w1 | r1", "r2 | r1 | w1 r0 | w0", "w2 | r0 r0 | r1 | tw1 w0"][k % 4]
            cases.append("rw %d 14000 %d %d %d %d : %s" % (2000 + k, [0, 50, 90][k % 3], [0, 5][k % 2], [0, 20][(k // 2) % 2], 1 + k % 15, progs))
        chunks = [cases[i::16] for i in range(16)]
        import concurrent.futures as cf
        outs = {}

        def work(chunk):
            rc, o, e = C.run_filter([exe], chunk, timeout=3000)
            return chunk, o, rc

        with cf.ThreadPoolExecutor(16) as ex:
            for chunk, o, rc in ex.map(work, chunks):
                if len(o) != len(chunk):
                    if o and o[-1].startswith("livelock"):
                        idx = len(o) - 1
                        ctx.violation({"kind": "livelock"},
                                      {"case": chunk[idx], "verdict": "livelock: a thread never returned from read()/write()/unlock although every holder released (threads free-running for 20 s)",
                                       "trace_tail": o[-1].split(" :: ", 1)[-1].split(" ; ")[-60:], "how_to_replay": "echo '%s' | %s" % (chunk[idx], exe)})
                        o = o[:-1]
                    else:
                        idx = len(o)
                        ctx.violation({"kind": "harness-died", "case": chunk[idx] if idx < len(chunk) else "?"},
                                      {"case": chunk[idx] if idx < len(chunk) else None, "rc": rc})
                for c, l in zip(chunk, o):
                    outs[c] = l
        ctx.evaluations += len(outs)
        drv_lines, drv_cases, traces = [], [], []
        for c in cases:
            if c not in outs:
                continue
            verdict, viol, lost, trace = M.split_out(outs[c])
            ctx.hist("verdicts", verdict)
            ctx.count(M.shape_of(trace))
            traces.append(trace)
            progs = c.split(" : ", 1)[1]
            if viol != "-" or lost or verdict == "deadlock":
                kind = "panic" if "panic" in viol else "exclusion" if "exclusion" in viol else ("try" if "try:" in viol else ("deadlock" if verdict == "deadlock" else "lost-update"))
                ctx.violation({"kind": kind}, {"case": c, "verdict": verdict, "oracle": viol, "lost_update": lost,
                                                "trace": trace.split(" ; ")[-80:], "how_to_replay": "echo '%s' | %s" % (c, exe)})
            drv_lines.append("rw %s : %s :: %s" % (cfg_bits(cfg), progs, trace))
            drv_cases.append((c, verdict))
        for c in cases[:3]:
            if c in outs:
                ctx.sample({"case": c, "result": outs[c][:400]})
        rc, mo, err = C.run_filter([C.driver_path("drv_c02")], drv_lines, timeout=3000)
        if len(mo) != len(drv_lines):
            ctx.violation({"kind": "driver-failed"}, {"rc": rc, "stderr": err[-400:]}, no_input=True)
            return
        rejected, raced = [], []
        for (c, verdict), line, m in zip(drv_cases, drv_lines, mo):
            if m.startswith("reject") or m == "bad-op":
                rejected.append((c, m))
            elif "raced=true" in m:
                raced.append((c, m, line))
            elif verdict == "complete" and "finished=true" not in m:
                rejected.append((c, "complete run but model not finished: " + m))
            elif verdict == "deadlock" and not m.startswith("accept-deadlock"):
                rejected.append((c, m))
        ctx.extra["traces_validated_against_impl"] = len(drv_lines) - len(rejected)
        ctx.extra["model_rejections"] = len(rejected)
        obs = M.observed_orderings(traces)
        ctx.extra["observed_orderings"] = {k: sorted(v) for k, v in sorted(obs.items())}
        # translator validation: run-time orderings of the acquiring / releasing RMWs vs the extracted configuration
        rt_bad = []
        for k, v in obs.items():
            if k.startswith("fsub0") and any(x not in REL for x in v) and cfg["readRel"] and cfg["writeRel"]:
                rt_bad.append((k, sorted(v)))
        if rt_bad:
            ctx.broken.append({"translator_mismatch": rt_bad})
            ctx.violation({"kind": "translator-mismatch"}, {"observed": rt_bad, "extracted": cfg}, no_input=True)
        for c, m, line in raced[:3]:
            ctx.violation({"kind": "data-race-in-model"},
                          {"case": c, "model": m, "note": "with the memory orderings now in the source the release/acquire view model exhibits a race on the guarded data along this schedule of the real code (not observable on x86 hardware)",
                           "driver_line": line[:3000]})
        if rejected and not ctx.violations:
            c, m = rejected[0]
            ctx.broken.append({"correspondence": "rwlock-trace", "first_rejection": {"case": c, "model": m}, "count": len(rejected)})
            ctx.violation({"kind": "model-rejects-trace"}, {"broken_correspondence": "rwlock-trace", "case": c, "model": m, "count": len(rejected),
                                                             "note": "no oracle (exclusion, try, deadlock, lost update, livelock) failed on any explored schedule"}, no_input=True)
    if not ok and not ctx.violations:
        ctx.violation({"kind": "proof-broken"}, {"broken": ctx.broken,
                                                 "note": "Props/C02.lean no longer checks against the regenerated Gen/SyncSites.lean (gen_shape_ok / gen_cfg_good) and no explored schedule fails an oracle"}, no_input=True)
