"""C02 — RwLock: writer exclusion, reader sharing, visibility, try variants; every schedule.

Uses the engine of checks/c01.py (`run_sync`): the model's ordering bits, spin budget and futex key kind are
obtained from what the running code does (orderings logged with every atomic operation and replayed event by event
by `drv_c02`; Gen/RwObs.lean), and from the static, role-based site table (Gen/SyncSites.lean) whenever that was
understood — never from the position of a call site."""
from . import c01 as M


def rw_cases(ctx, release):
    n = (5000 if ctx.tier == "quick" else 100000) // (3 if release else 1)
    cases = M.gen_cases(ctx, "rw", n)
    for k in range(80 if ctx.tier == "quick" else 800):
        progs = ["w2 r1 | w1 | r1 w0 | tr1 tw0", "w1 | w1 | w1 | r1", "r2 | r1 | w1 r0 | w0", "w2 | r0 r0 | r1 | tw1 w0"][k % 4]
        cases.append("rw %d 14000 %d %d %d %d : %s" % (2000 + k, [0, 50, 90][k % 3], [0, 5][k % 2], [0, 20][(k // 2) % 2], 1 + k % 15, progs))
    return cases


def run(ctx):
    ctx.rule = ("cases = (thread count 2..4, per-thread programs of 1..3 read/write/try_read/try_write transactions with 0..2 guarded "
                "accesses, scheduler policy: stickiness, spurious-wake rate, spurious weak-CAS failure rate, holder-starvation mask, seed) "
                "drawn from VERIF_SEED; each runs the real rwlock.rs under the deterministic scheduler; distinct_nontrivial = distinct sets of "
                "protocol paths taken (op x operands x outcome classes)")
    ctx.assumptions += [
        "memory model: release/acquire view semantics; every write to `state` is an RMW so released views form one chain; a failed/successful CAS and the kernel's futex comparison read the latest value; relaxed loads may observe any value",
        "futex contract as in C01; wake(i32::MAX) releases every waiter on the address",
        "the implementation is explored under sequentially consistent interleavings only",
        "wake-up: reader queue proved for all executions; writer queue proved for executions whose two hand-shake loads (writer_notify Acquire load, re-read of state) observe current values and without writer_notify wrap (ReachableW); the derived no-deadlock statement is NOT proved: stated in Props/C02.lean, supported by the deadlock and livelock oracles of the schedule exploration",
        "no-panic of the two assert!s is proved only as far as `rw_write_unlock_leaves_unlocked`; the `too many active read locks` assert is reachable in the model through stale loads and is not claimed",
    ]
    M.run_sync(ctx, {
        "which": "rw", "what": "read()/write()/unlock", "cases": rw_cases, "trykind": "try", "tail": 80,
        "spin_key": "rwlock_spin", "infer_spin": M.infer_spin_rw, "obs_module": "RwObs", "table": "rwlock",
        "module": "TinyVerif.Props.C02", "driver": "drv_c02",
        "more_props": ["TinyVerif.Props.C02Live"], "corr": "rwlock-trace",
    })
