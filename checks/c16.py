"""C16 — stream sockets deliver bytes intact; waits, timeouts, fd passing as specified.

Model tie (implementation and Lean driver answer the same lines):
  wrap      tiny-std's socket wrappers (UnixStream/TcpStream/listeners/TcpStreamInProgress) over a FULLY SCRIPTED kernel
            (sc-shim): outcome + issued syscalls (names, timespec and event passed to ppoll) against Model/SockWrap.lean;
  inet/unix byte images handed to connect(2) by the real constructors against Model/SockAddr.lean;
  csend     control buffer built by create_send / update_control against Model/Cmsg.lean `createSend`;
  cmsgiter  the real ControlMessageIterator over crafted receive buffers (end abutting a PROT_NONE page, or followed by
            garbage / stale headers) against `iterate`; the model reports `oob` for any read at or past msg_controllen;
  kfill     real sendmsg/recvmsg of n descriptors over a socketpair into a guarded control buffer of every interesting
            size against `kernelFill` + `iterate` (ties the kernel model too), descriptors compared by fstat (dev, ino).
Observations of kernel behaviour (no theorem can carry them; reported separately under `observations`):
  real Unix / TCP(loopback) streams through tiny-std with random chunking and relative speeds, checksummed both ends;
  timed variants bracketed by a monotonic clock; try-variants on idle sockets; blocking accept/read completing when the
  peer acts; connect to a closed port.
Every judge below is the property's own statement evaluated on the implementation's output, independent of the model."""
import struct
from . import common as C

I64_MAX = 2**63 - 1
EINTR, EAGAIN, EINPROGRESS = 4, 11, 115

KINDS = {
    # kind: (op name, blocking errno, poll event, timed, try)
    "uread": ("read", EAGAIN, 1, False, False), "tread": ("read", EAGAIN, 1, False, False),
    "treadto": ("read", EAGAIN, 1, True, False),
    "uwrite": ("write", EAGAIN, 4, False, False), "twrite": ("write", EAGAIN, 4, False, False),
    "uaccept": ("accept4", EAGAIN, 1, False, False), "uacceptto": ("accept4", EAGAIN, 1, True, False),
    "taccept": ("accept4", EAGAIN, 1, False, False), "tacceptto": ("accept4", EAGAIN, 1, True, False),
    "uconnect": ("connect", EAGAIN, 4, False, False), "tconnect": ("connect", EINPROGRESS, 4, False, False),
    "tconnectto": ("connect", EINPROGRESS, 4, True, False), "tipblock": ("connect", EINPROGRESS, 4, False, False),
    "utryaccept": ("accept4", EAGAIN, 1, False, True), "ttryaccept": ("accept4", EAGAIN, 1, False, True),
    "utryconnect": ("connect", EAGAIN, 4, False, True), "ttryconnect": ("connect", EINPROGRESS, 4, False, True),
    "tiptry": ("connect", EINPROGRESS, 4, False, True),
}


# ------------------------------------------------------------------ wrappers over the scripted kernel

def gen_wrap(ctx, thorough):
    r = ctx.rng
    cases = []
    timeouts = ["0.0", "0.1", "1.0", "3.500000000", "0.999999999", "%d.0" % I64_MAX, "%d.5" % (I64_MAX + 1), "%d.0" % (2**64 - 1)]

    def okval(op):
        if op == "connect":
            return "k0"
        if op == "accept4":
            return "k%d" % r.range(100, 900)
        return "k%d" % r.choice([0, 1, 2, 5, 100, 4096, 65536])

    def errs(kind):
        blk = KINDS[kind][1]
        return ["e%d" % blk, "e%d" % EINTR, "e%d" % r.choice([5, 9, 32, 104, 111, 110, 13, EAGAIN, EINPROGRESS])]

    for kind, (op, blk, ev, timed, is_try) in KINDS.items():
        tos = timeouts if timed else ["none"]
        # exhaustive scripts of length <= 4 over a small alphabet
        alpha = [okval(op), "k0" if op != "accept4" else "k300", "k1" if op != "connect" else "k0", "e%d" % blk, "e%d" % EINTR, "e5"]
        alpha = list(dict.fromkeys(alpha))
        maxlen = 1 if is_try else (4 if thorough else 3)
        scripts = [[]]
        frontier = [[]]
        for _ in range(maxlen):
            frontier = [s + [a] for s in frontier for a in alpha]
            scripts += frontier
        for s in scripts:
            # for connect an op answer is 0; for ppoll any count is fine — alphabet already respects that for ops at
            # positions where an op can be issued (positions 0 and after a positive poll); keep only valid ones
            cases.append("wrap %s %s %s" % (kind, tos[0] if not timed else r.choice(tos), " ".join(s)))
        # directed: long EINTR runs, every timeout value
        for to in tos:
            for n_intr in (0, 1, 3, 17):
                for tail in (["k0"], ["k1", okval(op)], ["k2", "e%d" % blk], ["e9"], ["k1", "e104"], []):
                    if is_try:
                        continue
                    cases.append("wrap %s %s e%d %s %s" % (kind, to, blk, " ".join(["e4"] * n_intr), " ".join(tail)))
        # random
        for _ in range(60 if not thorough else 600):
            n = 1 if is_try else r.range(0, 8)
            s = []
            for _ in range(n):
                k = r.below(6)
                s.append(okval(op) if k == 0 else ("k%d" % r.choice([0, 1, 1, 2])) if k == 1 else r.choice(errs(kind)))
            to = r.choice(tos)
            cases.append("wrap %s %s %s" % (kind, to, " ".join(s)))
    # connect ops must answer 0 on success (the wrapper maps any non-negative value to Ok(())): normalise
    out = []
    for c in cases:
        w = c.split()
        if KINDS[w[1]][0] == "connect":
            # a positive count is only meaningful as a ppoll answer; positions where an op is issued get k0
            out.append(c)
        else:
            out.append(c)
    # malformed lines: both sides must say bad-op
    out += ["wrap nosuchkind none k1", "wrap uread 1.0 k1", "wrap treadto none k1", "wrap uread none x1", "wrap treadto 1.1000000000 k1"]
    return list(dict.fromkeys(out))


def parse_resp(tokens):
    if any(t[0] not in "ke" or not t[1:].isdigit() for t in tokens):
        raise ValueError
    return [("ok", int(t[1:])) if t[0] == "k" else ("err", int(t[1:])) for t in tokens]


def fmt_ts(to):
    if to == "none":
        return "inf"
    a, b = to.split(".")
    return "%d.%d" % (int(a), int(b))


def spec_wrap(kind, to, resp):
    """the specification of DESIGN/C16 'Facts', restated: returns (outcome, log)"""
    op, blk, ev, timed, is_try = KINDS[kind]
    it = iter(resp)
    exhausted = [False]

    def nxt():
        v = next(it, None)
        if v is None:
            exhausted[0] = True
            return ("err", 14)
        return v
    if is_try:
        a = nxt()
        out = ("some %d" % (0 if op == "connect" else a[1])) if a[0] == "ok" else ("wouldblock" if a[1] == blk else "os %d" % a[1])
        return ("exhausted" if exhausted[0] else out), [op]
    if to != "none" and int(to.split(".")[0]) > I64_MAX:
        return "badto", []
    ts = fmt_ts(to)
    log = [op]
    a = nxt()
    okv = lambda v: "ok %d" % (0 if op == "connect" else v)
    if a[0] == "ok":
        out = okv(a[1])
    elif a[1] != blk:
        out = "os %d" % a[1]
    else:
        while True:
            log.append("ppoll:%s:%d" % (ts, ev))
            p = nxt()
            if p[0] == "ok":
                if p[1] == 0:
                    out = "timeout"
                else:
                    log.append(op)
                    b = nxt()
                    out = okv(b[1]) if b[0] == "ok" else "os %d" % b[1]
                break
            if p[1] == EINTR and not exhausted[0]:
                continue
            out = "os %d" % p[1]
            break
    return ("exhausted" if exhausted[0] else out), log


def judge_wrap(case, out):
    w = case.split()
    if len(w) < 3 or w[1] not in KINDS:
        return None if out == "bad-op" else "malformed line accepted"
    kind, to, toks = w[1], w[2], w[3:]
    op, blk, ev, timed, is_try = KINDS[kind]
    try:
        resp = parse_resp(toks)
        if timed != (to != "none"):
            raise ValueError
        if to != "none" and int(to.split(".")[1]) >= 10**9:
            raise ValueError
    except (ValueError, IndexError):
        return None if out == "bad-op" else "malformed line accepted"
    if out == "panic":
        return "panicked"
    parts = [p.strip() for p in out.split("|")]
    if len(parts) == 3:
        return "every socket non-blocking / calls on the right descriptor: " + parts[2]
    if len(parts) != 2:
        return "unexpected output: " + out[:80]
    res, logs = parts
    log = [] if logs == "-" else logs.split(",")
    answers = resp + [("err", 14)] * max(0, len(log) - len(resp))
    pairs = list(zip(log, answers))
    if res != "exhausted":
        succ = [a[1] for (c, a) in pairs if not c.startswith("ppoll") and a[0] == "ok"]
        if res.startswith("ok ") or res.startswith("some "):
            v = int(res.split()[1])
            if len(succ) != 1:
                return "one_effective_op: Ok returned after %d successful underlying transfers" % len(succ)
            if op != "connect" and succ[0] != v:
                return "one_effective_op: returned %d but the successful transfer moved %d" % (v, succ[0])
        elif succ:
            return "one_effective_op: a successful transfer of %s was dropped (result %s)" % (succ, res)
    polls = [c for c in log if c.startswith("ppoll")]
    if is_try and polls:
        return "try_never_polls: try-variant issued ppoll"
    if is_try and len(log) != 1:
        return "try-variant issued %d syscalls" % len(log)
    want_poll = "ppoll:%s:%d" % (fmt_ts(to), ev)
    for c in polls:
        if c != want_poll:
            return "timeout/event passed to ppoll is %s, caller's is %s" % (c, want_poll)
    if res == "timeout":
        if not pairs or pairs[-1][0] != want_poll or pairs[-1][1] != ("ok", 0):
            return "timeout_only_after_poll_zero: Timeout without a ppoll(full timeout) == 0 directly before"
    exp_res, exp_log = spec_wrap(kind, to, resp)
    if log != exp_log:
        return "issued calls differ from the specified sequence: expected " + ",".join(exp_log)
    if res != exp_res:
        return "wrong result: expected " + exp_res
    return None


def sig_wrap(case, out, why):
    w = case.split()
    return {"stream": "wrap", "kind": w[1] if len(w) > 1 else "?", "why": why.split(":")[0]}


# ------------------------------------------------------------------ addresses

def gen_addr(ctx, thorough):
    r = ctx.rng
    cases = []
    ports = [0, 1, 80, 255, 256, 257, 443, 8080, 0x1234, 0x3412, 0xFF00, 0x00FF, 65534, 65535]
    ips = ["0.0.0.0", "127.0.0.1", "255.255.255.255", "1.2.3.4", "4.3.2.1", "10.0.0.255", "192.168.1.77", "0.0.0.1", "1.0.0.0"]
    for ip in ips:
        for p in ports:
            cases.append("inet %s %d" % (ip, p))
    for _ in range(300 if not thorough else 5000):
        cases.append("inet %d.%d.%d.%d %d" % (r.below(256), r.below(256), r.below(256), r.below(256), r.below(65536)))
    seven = list(range(1, 128))
    for n in list(range(0, 8)) + [50, 100, 105, 106, 107, 108, 109, 110, 120, 200, 300]:
        cases.append("unix " + C.hexs(bytes((0x61 + i % 26) for i in range(n))))
        cases.append("unix " + C.hexs(r.bytes(n, seven)))
        for pos in sorted(set([0, n // 2, max(0, n - 1), 106, 107, 108]) & set(range(n))):
            b = bytearray(r.bytes(n, seven))
            b[pos] = r.choice([128, 129, 200, 255])
            cases.append("unix " + C.hexs(bytes(b)))
    for _ in range(200 if not thorough else 3000):
        n = r.choice([r.below(20), r.range(100, 115), r.below(300)])
        alph = seven if r.chance(3, 4) else list(range(1, 256))
        cases.append("unix " + C.hexs(r.bytes(n, alph)))
    cases += ["inet 1.2.3 80", "inet 1.2.3.4 65536", "inet 256.1.1.1 1", "unix zz", "unix 6100"]
    return list(dict.fromkeys(cases))


def judge_addr(case, out):
    w = case.split()
    if w[0] == "inet":
        try:
            ip = [int(x) for x in w[1].split(".")]
            port = int(w[2])
            if len(ip) != 4 or any(x > 255 for x in ip) or port > 65535:
                raise ValueError
        except ValueError:
            return None if out == "bad-op" else "malformed line accepted"
        img = struct.pack("<H", 2) + struct.pack(">H", port) + bytes(ip) + bytes(8)
        exp = "img %s rt %s %d" % (img.hex(), w[1].strip(), port)
        exp = "img %s rt %d.%d.%d.%d %d" % (img.hex(), ip[0], ip[1], ip[2], ip[3], port)
        if out.startswith("img-mismatch"):
            return "bytes handed to connect differ from the struct"
        if out.split(" rt ")[0] != exp.split(" rt ")[0]:
            return "sockaddr_in image is not network byte order: expected " + img.hex()
        return None if out == exp else "ipv4_addr does not return what new was given"
    if w[0] == "unix":
        try:
            p = C.unhex(w[1])
            if 0 in p:
                raise ValueError
        except ValueError:
            return None if out == "bad-op" else "malformed line accepted"
        if out == "panic" or out.startswith("signal"):
            return "panicked / crashed"
        first8 = next((i for i, b in enumerate(p) if b >= 128), None)
        if first8 is not None and first8 <= 107:
            exp = "err eightbit"
        elif len(p) > 107:
            exp = "err toolong"
        else:
            exp = "ok %s %d" % ((struct.pack("<H", 1) + p + bytes(108 - len(p))).hex(), 2 + len(p) + 1)
        return None if out == exp else "wrong unix address: expected " + exp[:60]
    return "unknown op"


# ------------------------------------------------------------------ control messages

def align8(n):
    return (n + 7) & ~7


def enc_rights(fds):
    return struct.pack("<Qii", 16 + 4 * len(fds), 1, 1) + b"".join(struct.pack("<i", f) for f in fds)


def py_kfill(msgs, L, garbage):
    """what the kernel leaves (net/core/scm.c): msgs = [("r", fds) | ("o", level, type, data)]; returns (memory, controllen, delivered)"""
    mem = bytearray(garbage)
    off = 0
    delivered = []
    for m in msgs:
        rem = L - off
        if rem < 16:
            continue
        if m[0] == "r":
            k = min(len(m[1]), (rem - 16) // 4)
            if k == 0:
                continue
            body = enc_rights(m[1][:k])
            space = align8(16 + 4 * k)
            delivered.append(list(m[1][:k]))
        else:
            cmlen = min(16 + len(m[3]), rem)
            body = struct.pack("<Qii", cmlen, m[1], m[2]) + m[3][:cmlen - 16]
            space = align8(16 + len(m[3]))
        mem[off:off + len(body)] = body
        off += min(space, rem)
    return bytes(mem), off, delivered


def gen_cmsg(ctx, thorough):
    r = ctx.rng
    cases, expect = [], {}
    stale = enc_rights([99]) + bytes(4)

    def garbage(kind, n):
        if kind == 0:
            return bytes([0xAA]) * n
        if kind == 1:
            return bytes(n)
        if kind == 2:
            return (stale * (n // len(stale) + 1))[:n]
        return r.bytes(n)

    def add(msgs, L, gk):
        mem, ctl, deliv = py_kfill(msgs, L, garbage(gk, align8(L) + 96))
        exp = "ok" + "".join(" %d:%s" % (len(f), ",".join(str(x) for x in f)) for f in deliv)
        for place in ("guard", "tail"):
            c = "cmsgiter %s %d %s" % (place, ctl, C.hexs(mem))
            cases.append(c)
            expect[c] = exp
    counts = [1, 2, 3, 4, 5, 8] + ([16, 33, 64, 253] if thorough else [16])
    for n in counts:
        need = align8(16 + 4 * n)
        fds = [r.range(3, 1000) for _ in range(n)]
        for L in sorted(set([max(0, need - 8), max(0, need - 4), need, need + 4, need + 8, need + 16, need + 24, 4096, 16, 19, 20, 23, 24])):
            for gk in range(4):
                add([("r", fds)], L, gk)
    # several messages, and a foreign message type in front / between (the iterator must skip it and go on)
    for _ in range(150 if not thorough else 1500):
        msgs = []
        for _ in range(r.range(1, 3)):
            if r.chance(1, 4):
                msgs.append(("o", 1, 2, r.bytes(r.choice([12, 4, 8, 16]))))
            else:
                msgs.append(("r", [r.range(3, 5000) for _ in range(r.range(1, 6))]))
        need = sum(align8(16 + (4 * len(m[1]) if m[0] == "r" else len(m[3]))) for m in msgs)
        L = max(0, need + r.choice([-24, -16, -8, -4, 0, 0, 4, 8, 16, 64]))
        add(msgs, L, r.below(4))
    for c in ["cmsgiter nowhere 24 00", "cmsgiter guard x 00", "cmsgiter guard 24 0000"]:
        cases.append(c)
        expect[c] = "bad-op"
    return cases, expect


def gen_csend(ctx, thorough):
    r = ctx.rng
    cases = []
    for n in list(range(0, 10)) + [16, 17, 64, 253]:
        fds = [r.choice([0, 1, 2, 3, 2**31 - 1, r.below(70000)]) for _ in range(n)]
        for v in (0, 1, 2):
            cases.append("csend %d %s" % (v, ",".join(str(f) for f in fds) if fds else "-"))
    cases += ["csend 0 -1", "csend 9 1", "csend 0 x"]
    return cases


def judge_csend(case, out):
    w = case.split()
    try:
        fds = [] if w[2] == "-" else [int(x) for x in w[2].split(",")]
        if w[1] not in ("0", "1", "2") or any(f < 0 or f >= 2**31 for f in fds):
            raise ValueError
    except ValueError:
        return None if out == "bad-op" else "malformed line accepted"
    n = len(fds)
    body = enc_rights(fds)
    space = align8(4 * n) + 16
    exp = "ctl %d %s" % (space, (body + bytes(space - len(body))).hex())
    return None if out == exp else "send_layout: control buffer is not header(CMSG_LEN(4n), SOL_SOCKET, SCM_RIGHTS) ++ fds ++ zero padding of CMSG_SPACE(4n)"


def gen_kfill(ctx, thorough):
    r = ctx.rng
    cases = []
    counts = [0, 1, 2, 3, 4, 7, 8] + ([15, 16, 33, 100, 253] if thorough else [33])
    for n in counts:
        need = align8(16 + 4 * n)
        for L in sorted(set([max(0, need - 8), max(0, need - 4), need, need + 4, need + 8, 4096, 0, 8, 15, 16, 19, 20, 24])):
            cases.append("kfill %d %d" % (L, n))
    for _ in range(20 if not thorough else 300):
        n = r.range(0, 40)
        cases.append("kfill %d %d" % (r.below(align8(16 + 4 * n) + 24), n))
    return list(dict.fromkeys(cases))


def judge_kfill(case, out):
    w = case.split()
    L, n = int(w[1]), int(w[2])
    if out.startswith("signal") or out == "panic":
        return "iter_in_bounds: receiver crashed (%s) with the control buffer against a guard page" % out
    k = min(n, (L - 16) // 4) if L >= 16 else 0
    ctl = min(align8(16 + 4 * k), L) if k > 0 else 0
    shape = str(k) if k > 0 else "-"
    exp = "ctl=%d msgs=%s fit=%s ids=ok" % (ctl, shape, shape)
    if out == exp:
        return None
    if "ids=bad" in out:
        return "received descriptors are not new descriptors for the files sent, in order"
    return "descriptors delivered differ from those that fit: expected " + exp


# ------------------------------------------------------------------ arbitrary control-buffer contents

M64 = 1 << 64
RAW_SLACK_NS = 3 * 10**9


def py_walk(img, ctl, kernel=False):
    """the kernel's view of a control buffer: for (c = CMSG_FIRSTHDR; c; c = CMSG_NXTHDR(c)) { if (!CMSG_OK(c)) stop }.
    CMSG_OK: 16 <= cmsg_len <= msg_controllen - offset.  Stepping: userland CMSG_NXTHDR (strictly more than a header must
    remain after the aligned message) or, kernel=True, the kernel's __cmsg_nxthdr (a header must fit).
    Returns ([(off, len, level, type)], stop) with stop = ("done",) | ("malformed", off, len, level, type)."""
    hs = []
    if ctl < 16:
        return hs, ("done",)
    off = 0
    while True:
        l, lv, ty = struct.unpack_from("<QII", img, off)
        if l < 16 or l > ctl - off:
            return hs, ("malformed", off, l, lv, ty)
        hs.append((off, l, lv, ty))
        nxt = off + align8(l)
        if (nxt + 16 > ctl) if kernel else (nxt + 16 >= ctl):
            return hs, ("done",)
        off = nxt


def py_rights(img, hs):
    out = []
    for (off, l, lv, ty) in hs:
        if lv == 1 and ty == 1:
            n = (l - 16) // 4
            out.append(list(struct.unpack_from("<%di" % n, img, off + 16)))
    return out


def fmt_rights(ms):
    return "ok" + "".join(" %d:%s" % (len(f), ",".join(str(x) for x in f)) for f in ms)


def fmt_walk(hs, stop):
    a = ",".join("%d:%d:%d:%d" % h for h in hs) if hs else "-"
    b = "done" if stop[0] == "done" else "malformed@%d:%d:%d:%d" % stop[1:]
    return a + " " + b


def raw_class(img, ctl):
    """a label for the streams and histograms only — the oracle is the same for all three: clean; hostile-rights /
    hostile-overflow = the two input classes on which the code before commit 8263fff crashed or read out of bounds"""
    hs, stop = py_walk(img, ctl)
    if stop[0] == "done":
        return "clean"
    _, off, l, lv, ty = stop
    if lv == 1 and ty == 1:
        return "hostile-rights"
    if l >= 16 and l + 23 >= M64:
        return "hostile-overflow"
    return "clean"


def gen_raw(ctx, thorough):
    r = ctx.rng
    out = {}

    def layout(msgs, padfill):
        """msgs = [(len_field, level, type, payload bytes)] laid out back to back at CMSG_ALIGN; returns (bytes, offsets)"""
        b = bytearray()
        offs = []
        for (l, lv, ty, pay) in msgs:
            offs.append(len(b))
            b += struct.pack("<QII", l % M64, lv % (1 << 32), ty % (1 << 32)) + pay
            while len(b) % 8:
                b.append(padfill())
        return b, offs

    def add(body, ctl, tailkind):
        body = bytearray(body)
        stale = enc_rights([99]) + bytes(4)
        tail_len = r.choice([0, 0, 8, 16, 24, 40])
        if tailkind == 0:
            tail = bytes(tail_len)
        elif tailkind == 1:
            tail = (stale * 3)[:tail_len]
        else:
            tail = r.bytes(tail_len)
        img = bytes(body) + tail
        img += bytes((-len(img)) % 8)
        if len(img) == 0:
            img = bytes(8)
        ctl = max(0, min(ctl, len(img)))
        out["cmsgraw %d %s" % (ctl, C.hexs(img))] = (img, ctl)

    def rand_msg():
        k = r.below(6)
        if k <= 2:
            fds = [r.choice([0, 1, 3, 7, 1000, 2**31 - 1, -1 % (1 << 32), r.below(70000)]) for _ in range(r.choice([0, 1, 1, 2, 3, 5]))]
            pay = b"".join(struct.pack("<I", f) for f in fds)
            return (16 + len(pay), 1, 1, pay)
        if k == 3:          # SCM_CREDENTIALS: pid, uid, gid
            return (28, 1, 2, struct.pack("<III", r.below(70000), r.below(70000), r.below(70000)))
        lv, ty = r.choice([(0, 0), (1, 3), (1, 0), (0, 1), (41, 50), (6, 1), (1, 257), (257, 1), (2**32 - 1, 2**32 - 1), (1, 2**32 - 1)])
        n = r.choice([0, 0, 1, 4, 7, 8, 12, 16, 33])
        return (16 + n, lv, ty, r.bytes(n))

    lens_small = [0, 1, 8, 15, 16, 17, 19, 20, 23, 24, 31, 32, 33, 4096, 65536]
    lens_huge = [2**31, 2**32, 2**32 + 16, 2**63 - 1, 2**63 + 15, 2**63 + 19, 2**63 + 20, 2**63 + 32, M64 - (1 << 48) - 1,
                 M64 - (1 << 47), M64 - (1 << 40), M64 - 65536, M64 - 4096, M64 - 25, M64 - 24, M64 - 23, M64 - 17, M64 - 16, M64 - 9, M64 - 8, M64 - 7, M64 - 1]
    levels = [0, 1, 2, 41, 257, 2**32 - 1, 2**31]
    n_lists = 40 if not thorough else 400
    for _ in range(n_lists):
        msgs = [rand_msg() for _ in range(r.range(1, 4))]
        padfill = r.choice([lambda: 0, lambda: 0xAA, lambda: r.below(256)])
        body, offs = layout(msgs, padfill)
        total = len(body)
        tk = r.below(3)
        # the valid list itself: controllen = the whole, and as the kernel reports it for a last message cut at its unpadded end
        add(body, total, tk)
        last_end = offs[-1] + msgs[-1][0]
        add(body, last_end, tk)
        # controllen moved: into the last header, into its payload, one short, one header short, beyond the data
        for ctl in sorted(set([offs[-1], offs[-1] + r.range(1, 15), offs[-1] + 16, last_end - 1, total - 1, total - 8, total - 16,
                               total + 8, total + 16, 0, 8, 15, 16, 17, 24])):
            if 0 <= ctl:
                add(body + bytes(16), ctl, tk) if ctl > total else add(body, ctl, tk)
        # one field of one header mutated at a time
        for i in range(len(msgs)):
            (l, lv, ty, pay) = msgs[i]
            rem = total - offs[i]
            cand = lens_small + [l - 1, l + 1, l + 3, l + 4, l + 8, rem, rem + 1, rem + 3, rem + 4, rem + 8, rem - 1]
            cand = r.shuffle(sorted(set(c for c in cand if 0 <= c)))[:(8 if not thorough else 40)] + r.shuffle(lens_huge)[:(4 if not thorough else 20)]
            for nl in cand:
                m2 = list(msgs)
                m2[i] = (nl, lv, ty, pay)
                b2, _ = layout(m2, padfill)
                add(b2, total, tk)
            for nlv in levels:
                m2 = list(msgs)
                m2[i] = (l, nlv, ty, pay)
                b2, _ = layout(m2, padfill)
                add(b2, total, tk)
            for nty in levels:
                m2 = list(msgs)
                m2[i] = (l, lv, nty, pay)
                b2, _ = layout(m2, padfill)
                add(b2, total, tk)
    # single headers: every interesting length x (rights, credentials, unknown) x buffer of 16 / 24 / 32 / 48 bytes
    for l in lens_small + lens_huge:
        for (lv, ty) in ((1, 1), (1, 2), (0, 0), (41, 50)):
            for ctl in (16, 24, 32, 48):
                add(struct.pack("<QII", l, lv, ty) + bytes([7, 0, 0, 0] * ((ctl - 16) // 4)), ctl, 0)
    # chains of minimal headers (the trailing 16-byte slot), rights and foreign mixed
    for k in range(1, 7):
        for pat in range(1 << k) if k <= 3 else [r.below(1 << k) for _ in range(6)]:
            b = b"".join(struct.pack("<QII", 16, 1, 1 if (pat >> j) & 1 else 2) for j in range(k))
            add(b, len(b), 0)
            add(b + struct.pack("<I", 5) + bytes(4), len(b) + 4, 0)
    # random: random field values from the pools / random bytes with a small length field / plain random bytes
    for _ in range(150 if not thorough else 3000):
        n = r.choice([16, 24, 32, 40, 48, 64, 96, 128])
        b = bytearray(r.bytes(n))
        mode = r.below(3)
        if mode < 2:
            off = 0
            while off + 16 <= n:
                l = r.choice([16, 16, 20, 24, 28, 32, r.below(64), r.choice(lens_small), r.choice(lens_huge)]) if mode == 0 else r.below(48)
                lv, ty = r.choice([(1, 1), (1, 1), (1, 2), (0, 0), (r.below(4), r.below(4))])
                struct.pack_into("<QII", b, off, l, lv, ty)
                off += max(16, align8(l)) if l < 4096 else 16
        add(b, r.choice([n, n, n - 1, n - 4, n - 8, r.below(n + 1)]), r.below(3))
    clean, hostile = [], []
    for c, (img, ctl) in out.items():
        (clean if raw_class(img, ctl) == "clean" else hostile).append(c)
    return clean, hostile, out


def judge_raw(images):
    def judge(case, outp):
        w = case.split()
        if w[0] != "cmsgraw" or case not in images:
            return None if outp == "bad-op" else "malformed line accepted"
        img, ctl = images[case]
        hs, stop = py_walk(img, ctl)
        exp = fmt_rights(py_rights(img, hs))
        if outp == exp:
            return None
        cls = raw_class(img, ctl)
        where = "" if stop[0] == "done" else " (first header that is not CMSG_OK: offset %d, cmsg_len %d, level %d, type %d)" % stop[1:]
        if cls == "hostile-rights":
            return "iter_full (malformed SCM_RIGHTS header): the iterator does not stop at it%s: %s, the well-formed prefix holds [%s]" % (where, outp[:60], exp[:60])
        if cls == "hostile-overflow":
            return "iter_full (cmsg_len within 23 of 2^64): the iterator does not stop cleanly%s: %s" % (where, outp[:40])
        if outp.startswith("signal") or outp == "panic":
            return "iter_in_bounds / no crash: the iterator crashed (%s) on a control buffer%s" % (outp, where)
        if outp.startswith("oob"):
            return "iter_in_bounds: a slice outside [msg_control, msg_control + msg_controllen) was handed out%s: %s" % (where, outp[:60])
        return "iter_exact: iterator returned [%s], the well-formed prefix holds [%s]%s" % (outp[:60], exp[:60], where)
    return judge


def sig_raw(case, outp, why):
    return {"stream": "cmsgraw", "why": why.split(":")[0]}


# ------------------------------------------------------------------ observations on real sockets

def gen_obs(ctx, thorough):
    r = ctx.rng
    cases = []
    sizes_u = [0, 1, 4, 4095, 4096, 65536, 212992, 300000, 1 << 20] + ([4 << 20, 8 << 20] if thorough else [])
    sizes_t = [0, 1, 4096, 65536, 1 << 20, 3 << 20] + ([8 << 20, 16 << 20] if thorough else [])
    for fam, sizes in (("unix", sizes_u), ("tcp", sizes_t)):
        for size in sizes:
            for rep in range(2 if not thorough else 4):
                seed = r.range(1, 2**40)
                wmax = r.choice([1 << 20, 65536, 17, 4096, 300000])
                rmax = r.choice([65536, 4096, 100000, 1000, 333])
                if size > (1 << 20) and min(wmax, rmax) < 1000:
                    wmax, rmax = 65536, 8192
                if size >= 65536 and wmax < 1000 and rmax < 1000:
                    rmax = 65536
                # relative speeds: slow reader (buffers fill, writer waits), slow writer (reader waits), both fast
                ws, rs = r.choice([(0, 0), (0, 400), (300, 0), (0, 1500), (50, 50)])
                if size > (1 << 20) and rs == 0 and ws == 0:
                    rs = 300
                cases.append("stream %s %d %d %d %d %d %d %s" % (fam, size, seed, wmax, rmax, ws, rs, r.choice(["c2s", "s2c"])))
    ms = [0, 1, 5, 20, 50] + ([200, 500] if thorough else [])
    for m in ms:
        cases += ["timedaccept unix %d" % m, "timedaccept tcp %d" % m, "timedread %d" % m]
    # a stream from EVERY constructor, peer silent: the time-limited read reports Timeout within [limit, limit + slack]
    for m in ([0, 5, 30] if not thorough else [0, 1, 5, 30, 120]):
        for ctor in ("accept", "accept_with_timeout", "try_accept", "connect", "try_connect"):
            cases.append("timedfrom unix %s %d" % (ctor, m))
        for ctor in ("accept", "accept_with_timeout", "try_accept", "connect", "connect_with_timeout", "try_connect", "connect_blocking"):
            cases.append("timedfrom tcp %s %d" % (ctor, m))
    cases += ["tryidle unix", "tryidle tcp"] * 3
    for d in ([0, 10, 40] if not thorough else [0, 5, 10, 40, 150]):
        cases += ["blockaccept unix %d" % d, "blockaccept tcp %d" % d, "blockread unix %d" % d, "blockread tcp %d" % d]
    cases += ["connrefused"]
    return cases


def kv(out):
    d = {}
    for t in out.replace("[", " ").replace("]", " ").split():
        if "=" in t:
            k, v = t.split("=", 1)
            d[k] = v
    return d


def judge_obs(case, out):
    w = case.split()
    d = kv(out)
    if w[0] == "stream":
        if not out.startswith("w[ok ") or " r[ok " not in out:
            return "stream transfer failed: " + out[:120]
        if d.get("eq") != "1" or d.get("rcvd") != w[2] or d.get("wsum") != d.get("rsum") or d.get("wrote") != w[2]:
            return "bytes received differ from bytes written (size %s rcvd %s first difference at %s)" % (w[2], d.get("rcvd"), d.get("firstdiff"))
        return None
    if w[0] in ("timedaccept", "timedread"):
        ms = int(w[-1])
        if not out.startswith("timeout "):
            return "time-limited call on an idle socket did not report Timeout: " + out[:80]
        if int(d["elapsed"]) < ms * 1000000:
            return "Timeout reported after %s ns, before the limit of %d ms" % (d["elapsed"], ms)
        if int(d["elapsed"]) > ms * 1000000 + RAW_SLACK_NS:
            return "Timeout reported after %s ns, later than the limit of %d ms + slack" % (d["elapsed"], ms)
        return None
    if w[0] == "timedfrom":
        ms = int(w[3])
        what = "stream from %s::%s" % (w[1], w[2])
        if out.startswith("signal 14"):
            return "time-limited read never timed out: %s with a silent peer blocked until the watchdog" % what
        if d.get("nonblock") != "1":
            return "time-limited read cannot time out: %s is a blocking socket: %s" % (what, out[:80])
        if w[1] == "tcp":
            if not out.startswith("timeout "):
                return "time-limited read on an idle stream did not report Timeout: %s: %s" % (what, out[:80])
            if int(d["elapsed"]) < ms * 1000000:
                return "Timeout reported before the limit: %s after %s ns, limit %d ms" % (what, d["elapsed"], ms)
            if int(d["elapsed"]) > ms * 1000000 + RAW_SLACK_NS:
                return "Timeout reported later than limit + slack: %s after %s ns, limit %d ms" % (what, d["elapsed"], ms)
            if d.get("polls") != "1":
                return "time-limited read on an idle stream: expected read, ppoll(limit): %s: %s" % (what, out[:80])
            return None
        if not out.startswith("wouldblock ") or int(d["elapsed"]) > RAW_SLACK_NS:
            return "read(2) on an idle stream did not come back at once with EAGAIN: %s: %s" % (what, out[:80])
        return None
    if w[0] == "tryidle":
        if not out.startswith("none "):
            return "try-variant on an idle socket did not return the would-block result: " + out[:80]
        if d["polls"] != "0" or d["calls"] != "1" or int(d["elapsed"]) > 10**9:
            return "try-variant blocked / polled: " + out[:80]
        return None
    if w[0] == "blockaccept":
        return None if out.startswith("accepted 70696e67 ") else "blocking accept did not complete with the peer's connection: " + out[:80]
    if w[0] == "blockread":
        return None if out.startswith("read 706f6e67 ") else "blocking read did not complete with the peer's bytes: " + out[:80]
    if w[0] == "connrefused":
        return None if out.startswith("os 111 ") else "connect to a closed port: expected ECONNREFUSED, got " + out[:80]
    return "unknown op"


# ------------------------------------------------------------------ run

def run(ctx):
    thorough = ctx.tier != "quick"
    ctx.rule = ("wrap: every kernel script of length <= 3 (4 thorough) over {Ok(count), Ok(0), blocking errno, EINTR, EIO} for each of 18 wrapper "
                "entry points (Unix/TCP read, write, accept, connect, their timed and try variants, TcpStreamInProgress), long EINTR runs, every "
                "timeout class (0, sub-second, i64::MAX, > i64::MAX), random longer scripts; addresses: boundary ports/ips, path lengths around "
                "107/108, 8-bit bytes at every boundary position; cmsg: 1..16 (253 thorough) descriptors x control lengths needed-8..needed+24, "
                "4096, 16..24 x four kinds of garbage after the data (0xAA, zeros, stale valid-looking headers, random) x {guard page, tail}, "
                "multi-message and foreign-type lists; ARBITRARY buffer contents against a guard page (cmsgraw): valid lists of rights / "
                "SCM_CREDENTIALS / unknown-level messages incl. zero-length payloads, msg_controllen moved into the last header / its "
                "payload / beyond the data, every header's cmsg_len, level, type mutated one at a time (0, 15..33, +-1/3/4/8 around the "
                "true value and around the space left, 2^31..2^64-1 incl. every overflow boundary), chains of minimal headers, random "
                "fields and random bytes, each followed by zeros / stale valid-looking headers / random bytes; real kernel fills for "
                "0..33 (253) descriptors; time-limited read on a stream from each of 12 constructor paths (Unix/TCP accept, "
                "accept_with_timeout, try_accept, connect, connect_with_timeout, try_connect, connect_blocking) with a silent peer, "
                "limit <= elapsed <= limit + 3 s; distinct_nontrivial = distinct "
                "(stream, entry point / op, result kind, number of polls (0,1,2+), EINTR seen, timeout class | truncated / exact / roomy control "
                "buffer, garbage kind, message count) classes")
    ctx.assumptions += [
        "Model/SockWrap.lean describes tiny-std/src/sock.rs and the try-variants of net.rs (checked: outcome and issued syscalls incl. ppoll's timespec/event on every scripted-kernel case of this run)",
        "the syscall result decoding (negative errno) is property C09; close() calls are property C12 and are not compared here",
        "socket model of stream_exact: a stream socket is a FIFO byte queue; a successful write appends a non-empty prefix of the offered bytes, a successful read removes a non-empty prefix of the queued bytes; everything else (readiness, EAGAIN, errors, capacity, scheduling) is adversarial — the kernel's conformance is OBSERVED on real Unix and TCP loopback sockets by this run, not proved",
        "Model/Cmsg.lean `kfill` describes net/core/scm.c scm_detach_fds (checked against the running kernel by the kfill cases); x86_64 layout: cmsghdr 16 bytes, usize 8, Fd 4, little endian",
        "iter_full (and iter_terminates, iter_wellformed) hold for EVERY content of the control buffer under: msg_control 8-byte aligned, buffer mapped, msg_controllen < 2^63, no wrap of the address space; the model (code since commit 8263fff, debug-build checks included) is compared with the real iterator on every cmsgraw / cmsghostile case; the model of the code before the repair (`fixed := false`, orig_* theorems) is no longer tied to anything in /repo",
        "stack depth of the iterator's recursive skip over non-SCM_RIGHTS headers is not modelled (observed: ~32 600 consecutive foreign headers, a 510 KiB control buffer, overflow the 8 MiB stack in the debug build); generated buffers are <= 4 KiB",
        "timing: `limit <= elapsed <= limit + 3 s` by CLOCK_MONOTONIC is checked, never exact times; Unix streams have no public time-limited read: their O_NONBLOCK flag and an immediate EAGAIN from read(2) are checked instead",
    ]
    ctx.trusted += ["sc-shim syscall interposer (fully scripted kernel for the wrapper runs, pass-through + log for the observations)",
                    "fork + PROT_NONE guard page as the out-of-bounds detector for the real iterator"]
    ok = C.lean_prove(ctx, "TinyVerif.Props.C16", drivers=["drv_c16"])
    exe, err = C.cargo_build(ctx, "c16")
    if exe is None:
        ctx.broken.append({"harness_build_failed": err})
        ctx.violation({"kind": "harness-build-failed"}, {"error": err}, no_input=True)
        return
    drv = [C.driver_path("drv_c16")]

    # 1. wrappers
    wcases = gen_wrap(ctx, thorough)
    C.correspond(ctx, "wrap", wcases, [exe], drv, judge_wrap, sig_wrap)
    _, outs, _ = C.run_filter([exe], wcases)
    for c, o in zip(wcases, outs):
        w = c.split()
        if w[1] not in KINDS or "|" not in o:
            continue
        res, log = [p.strip() for p in o.split("|")][:2]
        calls = [] if log == "-" else log.split(",")
        npoll = sum(1 for x in calls if x.startswith("ppoll"))
        to = w[2]
        tclass = "none" if to == "none" else ("huge" if int(to.split(".")[0]) > I64_MAX else ("zero" if to in ("0.0",) else "finite"))
        ctx.count(("wrap", w[1], res.split()[0], min(npoll, 2), "e4" in w[3:], tclass))
        ctx.hist("wrap_outcomes", res.split()[0])
        ctx.hist("wrap_polls", min(npoll, 3))
    for c, o in list(zip(wcases, outs))[40:44]:
        ctx.sample({"case": c, "implementation": o})

    # 2. addresses
    acases = gen_addr(ctx, thorough)
    C.correspond(ctx, "addr", acases, [exe], drv, judge_addr, lambda c, o, why: {"stream": "addr", "op": c.split()[0], "why": why.split(":")[0]})
    _, outs, _ = C.run_filter([exe], acases)
    for c, o in zip(acases, outs):
        w = c.split()
        if w[0] == "unix" and o != "bad-op":
            n = len(C.unhex(w[1])) if all(ch in "0123456789abcdef-" for ch in w[1]) else -1
            ctx.count(("unix", " ".join(o.split()[:2]) if o.startswith("err") else "ok", "le107" if n <= 107 else "gt107"))
            ctx.hist("unix_outcomes", " ".join(o.split()[:2]) if o.startswith("err") else "ok")
        elif w[0] == "inet" and o != "bad-op":
            p = int(w[2])
            ctx.count(("inet", p < 256, p % 256 == 0, p // 256 == p % 256))
    ctx.sample({"case": acases[3], "implementation": outs[3]})

    # 3. control messages
    scases = gen_csend(ctx, thorough)
    C.correspond(ctx, "csend", scases, [exe], drv, judge_csend, lambda c, o, why: {"stream": "csend", "why": why.split(":")[0]})
    ccases, expect = gen_cmsg(ctx, thorough)

    def judge_cmsg(case, out):
        exp = expect[case]
        if out == exp:
            return None
        if out.startswith("signal") or out == "panic":
            return "iter_in_bounds: the iterator crashed (%s): read outside the supplied control buffer" % out
        return "iter_exact: iterator returned [%s], the buffer holds [%s]" % (out[:60], exp[:60])
    C.correspond(ctx, "cmsgiter", ccases, [exe], drv, judge_cmsg,
                 lambda c, o, why: {"stream": "cmsgiter", "place": c.split()[1], "why": why.split(":")[0]}, timeout=1800)
    for c in ccases:
        w = c.split()
        if w[0] == "cmsgiter" and c in expect and expect[c] != "bad-op":
            ctl = int(w[2])
            ctx.count(("cmsgiter", w[1], min(expect[c].count(":"), 3), ctl % 8, "aaaa" in w[3][-8:], w[3].endswith("00")))
            ctx.hist("cmsg_messages_delivered", expect[c].count(":"))
    ctx.sample({"case": ccases[8][:160], "expected": expect[ccases[8]]})
    kcases = gen_kfill(ctx, thorough)
    C.correspond(ctx, "kfill", kcases, [exe], drv, judge_kfill, lambda c, o, why: {"stream": "kfill", "why": why.split(":")[0]}, timeout=1800)
    for c in kcases:
        w = c.split()
        L, n = int(w[1]), int(w[2])
        need = align8(16 + 4 * n)
        ctx.count(("kfill", min(n, 4), "small" if L < need else ("exact" if L == need else "roomy"), L % 8))
        ctx.hist("kfill_buffer", "smaller" if L < need else ("equal" if L == need else "larger"))

    # 3b. arbitrary control-buffer contents against a guard page: valid lists of rights / credentials / unknown messages,
    # controllen moved, one header field mutated at a time, chains of minimal headers, random
    rclean, rhostile, images = gen_raw(ctx, thorough)
    jr = judge_raw(images)
    C.correspond(ctx, "cmsgraw", rclean, [exe], drv, jr, sig_raw, timeout=1800)
    # the two input classes on which the code BEFORE commit 8263fff did not satisfy the statement (first malformed header
    # tagged SCM_RIGHTS; cmsg_len within 23 of 2^64): same strict oracle now
    C.correspond(ctx, "cmsghostile", rhostile, [exe], drv, jr, lambda c, o, why: {"stream": "cmsghostile", "why": why.split(":")[0]},
                 timeout=1800)
    _, houts, _ = C.run_filter([exe], rhostile, timeout=1800)
    for c, o in zip(rhostile, houts):
        ctx.hist("cmsg_hostile_outcomes", o.split()[0] if not o.startswith("signal") else o)
    # the Lean specification walk (CMSG_OK + both steppings) against this file's oracle, on every image
    allraw = rclean + rhostile
    _, wouts, werr = C.run_filter(drv, [c.replace("cmsgraw", "cmsgwf", 1) for c in allraw], timeout=1800)
    ctx.evaluations += len(allraw)
    wbad = 0
    if len(wouts) != len(allraw):
        ctx.violation({"stream": "cmsgwf", "kind": "driver-failed"}, {"stderr": werr.splitlines()[-5:]}, no_input=True)
    for c, o in zip(allraw, wouts):
        img, ctl = images[c]
        hu, su = py_walk(img, ctl)
        hk, sk = py_walk(img, ctl, kernel=True)
        exp = "u %s k %s rights %s" % (fmt_walk(hu, su), fmt_walk(hk, sk), fmt_rights(py_rights(img, hu)))
        if o != exp:
            wbad += 1
            ctx.violation({"stream": "cmsgwf", "kind": "spec-oracle-disagreement"},
                          {"case": c.replace("cmsgraw", "cmsgwf", 1), "lean_spec": o, "python_oracle": exp}, no_input=True)
        cls = raw_class(img, ctl)
        nforeign = sum(1 for h in hu if not (h[2] == 1 and h[3] == 1))
        trailing = len(hk) - len(hu) if sk[0] == "done" and su[0] == "done" else (1 if sk != su else 0)
        ctx.count(("cmsgraw", cls, su[0], min(len(hu), 3), min(nforeign, 2), ctl % 8, trailing,
                   ("short" if su[2] < 16 else "huge" if su[2] >= 2**63 else "long") if su[0] == "malformed" else "-"))
        ctx.hist("cmsgraw_class", cls)
        ctx.hist("cmsgraw_stop", su[0] + ("" if su[0] == "done" else ("-rights" if (su[3], su[4]) == (1, 1) else "-foreign")))
        ctx.hist("cmsgraw_trailing_slot_header_seen_only_by_kernel_walk", trailing)
    ctx.extra.setdefault("streams", {})["cmsgwf"] = {"cases": len(allraw), "disagreements": wbad}
    if rclean:
        ctx.sample({"case": rclean[len(rclean) // 2][:200], "expected": fmt_rights(py_rights(*[images[rclean[len(rclean) // 2]][0], py_walk(*images[rclean[len(rclean) // 2]])[0]]))})

    # 4. observations on real sockets (implementation vs oracle only)
    ocases = gen_obs(ctx, thorough)
    # a small probe batch first: when real transfers hang (each costs a watchdog period) the remaining cases add
    # nothing but minutes, so the rest is skipped once the probe batch already shows hangs
    probe = ocases[:3]
    rc, outs, errtxt = C.run_filter([exe], probe, timeout=600)
    hung = sum(1 for o in outs if o.startswith("signal 14"))
    if hung >= 2 or len(outs) != len(probe):
        ocases = probe
        ctx.extra["observations_truncated_after_hangs"] = hung
    else:
        rc, outs2, errtxt = C.run_filter([exe], ocases[len(probe):], timeout=1700)
        outs = outs + outs2
    obs = {"cases": len(ocases), "failures": 0, "streams": 0, "bytes": 0, "writer_waited_for_readiness": 0, "reader_waited_for_readiness": 0,
           "timed": 0, "try": 0, "blocking": 0}
    if len(outs) != len(ocases):
        ctx.violation({"stream": "observations", "kind": "impl-crash"}, {"case": ocases[len(outs)] if len(outs) < len(ocases) else None,
                                                                          "rc": rc, "stderr": errtxt.splitlines()[-5:]})
    for c, o in zip(ocases, outs):
        ctx.evaluations += 1
        why = judge_obs(c, o)
        w = c.split()
        d = kv(o)
        if w[0] == "stream":
            obs["streams"] += 1
            obs["bytes"] += int(w[2])
            obs["writer_waited_for_readiness"] += 1 if int(d.get("wpoll", "0")) > 0 else 0
            obs["reader_waited_for_readiness"] += 1 if int(d.get("rpoll", "0")) > 0 else 0
            ctx.count(("stream", w[1], min(int(w[2]).bit_length() // 4, 6), int(d.get("wpoll", "0")) > 0, int(d.get("rpoll", "0")) > 0, w[8]))
        elif w[0] == "timedfrom":
            obs["timed"] += 1
            ctx.count((w[0], w[1], w[2], o.split()[0], w[3] == "0"))
            ctx.hist("timed_stream_constructors", w[1] + "::" + w[2])
        elif w[0].startswith("timed"):
            obs["timed"] += 1
            ctx.count((w[0], w[1] if w[0] == "timedaccept" else "tcp", o.split()[0]))
        elif w[0] == "tryidle":
            obs["try"] += 1
            ctx.count((w[0], w[1], o.split()[0]))
        else:
            obs["blocking"] += 1
            ctx.count((w[0], w[1] if len(w) > 1 else "", o.split()[0], d.get("polls", "0") != "0"))
        if why:
            obs["failures"] += 1
            ctx.violation({"stream": "observations", "op": w[0], "why": why.split(":")[0]},
                          {"case": c, "implementation": o, "why": why, "how_to_replay": "echo '%s' | %s" % (c, exe)})
    for c, o in list(zip(ocases, outs))[12:14]:
        ctx.sample({"observation": c, "implementation": o})
    ctx.extra["observations"] = obs
    if not ok and not ctx.violations:
        ctx.violation({"kind": "proof-broken"}, {"broken": ctx.broken}, no_input=True)
