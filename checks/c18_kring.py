"""C18 — the `kring` stream: the real ring methods of rusl over harness-owned ring memory against a simulated
kernel that obeys the C18 KERNEL CONTRACT (Model/Ring.lean `kstep`), vs the Lean driver (`krun2` with `nopKern`).

Case generation (out-of-order completion, completion ring full, overflow list, IOSQE_IO_LINK chains with failing
members, SQPOLL idle/wake, counters at the 32-bit wrap) and the property's own oracle: an independent, plain
Python reading of "every submitted operation produces exactly one completion carrying its user data and the
result of the direct call" on the IMPLEMENTATION's outputs (unbounded integers, FIFO bookkeeping; it knows the
io_uring ABI — slot = counter & (entries-1) — only where it checks the index of a returned reference)."""

W = 2 ** 32
SQPOLL, SQE128, CQE32 = 2, 1 << 10, 1 << 11
IO_LINK = 4
ECANCELED = W - 125


def start_counters(size):
    return [0, 1, 2 ** 31 - 1, 2 ** 31] + [W - k for k in range(1, 2 * size + 2)]


def _entry(r, ud, chain):
    fl = 0
    if chain and r.chance(2, 3):
        fl |= IO_LINK
    if r.chance(1, 8):
        fl |= r.choice([1, 2, 8, 16, 32, 64])            # other IOSQE_* bits: no meaning in the contract
    if r.chance(1, 3):
        ln = r.choice([0, 1, 7, 2 ** 31 - 1, 2 ** 31, W - 1, W - 125, W - 2])
    else:
        ln = r.below(100)
    return "g %d %d %d" % (ud if r.chance(19, 20) else r.below(2 ** 64), fl, ln)


class _Est:
    """rough bookkeeping for the generator only (ignores link order and the sleeping SQ thread): keeps most `x`,
    `o`, `r` ops meaningful instead of hitting empty queues"""

    def __init__(self, E, CE):
        self.E, self.CE = E, CE
        self.unpub = self.pub = self.pend = self.cq = self.ovf = 0

    def note(self, op):
        w = op.split()
        o = w[0]
        if o == "g":
            if self.unpub + self.pub < self.E:
                self.unpub += 1
        elif o == "f":
            self.pub += self.unpub
            self.unpub = 0
        elif o == "k":
            n = min(int(w[1]), self.pub)
            self.pub -= n
            self.pend += n
        elif o == "x":
            if int(w[1]) < self.pend:
                self.pend -= 1
                if self.ovf == 0 and self.cq < self.CE:
                    self.cq += 1
                else:
                    self.ovf += 1
        elif o == "o":
            n = min(int(w[1]), self.ovf, self.CE - self.cq)
            self.ovf -= n
            self.cq += n
        elif o in ("r", "rb"):
            if self.cq:
                self.cq -= 1


def gen_ops(r, sqk, cqk, n, sqpoll, split):
    E, CE = 1 << sqk, 1 << cqk
    ops = []
    est = _Est(E, CE)
    ud = r.range(1, 1000)

    def emit(*xs):
        for x in xs:
            ops.append(x)
            est.note(x)

    def some_x():
        return "x %d" % (r.below(est.pend) if est.pend and r.chance(7, 8) else r.below(E + 2))

    while len(ops) < n:
        ph = r.below(14)
        if ph == 0:                       # fill the submission ring to (beyond) full, flush, one batch
            chain = r.chance(1, 2)
            for _ in range(E + r.below(2)):
                ud += 1
                emit(_entry(r, ud, chain))
            emit("f", "k %d" % r.choice([E, E + 1, max(1, E // 2)]))
        elif ph == 1:
            emit("k %d" % r.choice([1, E, E + 1, 2 * E]))
        elif ph == 2:                     # complete a lot, in any order, without reaping: completion ring full, overflow
            for _ in range(min(r.range(1, CE + 3), est.pend + 1)):
                emit(some_x())
        elif ph == 3:
            emit("o %d" % r.choice([1, CE, CE + 2]))
        elif ph == 4:                     # reap all and one more
            for _ in range(est.cq + r.below(2) if r.chance(1, 2) else r.range(1, CE + 1)):
                emit("r")
                if est.ovf and r.chance(1, 2):
                    emit("o 1")
        elif ph == 5 and sqpoll:
            emit("i")
            if r.chance(1, 2):
                ud += 1
                emit(_entry(r, ud, False), "f", "k 1")
            if r.chance(3, 4):
                emit("w")
        elif ph == 6 and split:           # the reference is held across kernel steps
            emit("rb")
            for _ in range(r.below(4)):
                emit(r.choice(["o 1", "o %d" % CE, some_x(), "k 1", "r", "f"]))
            emit("rr")
        else:
            o = r.below(12)
            if o < 3:
                ud += 1
                emit(_entry(r, ud, r.chance(1, 3)))
            elif o < 5:
                emit("f")
            elif o < 7:
                if est.cq or r.chance(1, 3):
                    emit("r")
                elif est.ovf:
                    emit("o %d" % r.range(1, CE))
                else:
                    emit("f")
            elif o < 8:
                emit("k %d" % r.below(E + 2))
            elif o < 10:
                if est.pend or r.chance(1, 4):
                    emit(some_x())
                else:
                    emit("k %d" % r.range(1, E))
            elif o < 11:
                emit("o %d" % r.below(3))
            else:
                emit(r.choice(["w", "i"]) if sqpoll else "w")
    return ops[:n]


def directed_cases():
    """every small ring, counters at the wrap: a full ring of submissions (an IOSQE_IO_LINK chain whose second
    member fails), consumed in one batch, completed BACKWARDS (the chain forces part of the order) into a completion
    ring that is too small (overflow), flushed and reaped alternately; twice"""
    out = []
    for sqk in range(3):
        E = 1 << sqk
        for cqk in sorted({0, sqk, sqk + 1}):
            CE = 1 << cqk
            for fl in (0, SQE128 | CQE32):
                for c in start_counters(E):
                    ops, st = [], 100
                    for cyc in range(2):
                        for j in range(E):
                            st += 1
                            ops.append("g %d %d %d" % (st, IO_LINK if (cyc == 1 and j + 1 < E) else 0, (W - 5) if j == 1 else 10 + j))
                        ops += ["g 999 0 0", "f", "k %d" % (E + 1)]
                        for i in range(E, -1, -1):
                            ops.append("x %d" % i)
                        for _ in range(E):
                            ops.append("x 0")
                        for _ in range(E + 1):
                            ops += ["r", "o 1"]
                        ops += ["r"] * (CE + 1)
                    out.append("kring %d %d %d %d %d : %s" % (fl, sqk, cqk, c, c, " : ".join(ops)))
    return out


def gen_cases(rng, n, maxlen, split=False):
    cases = []
    for _ in range(n):
        sqk = rng.below(4)
        cqk = rng.choice([sqk, sqk + 1, rng.below(3), 0])
        fl = rng.choice([0, 0, SQPOLL, SQPOLL, SQE128, CQE32, SQE128 | CQE32, SQPOLL | SQE128 | CQE32])
        c = rng.choice(start_counters(1 << sqk)) if rng.chance(5, 6) else rng.below(W)
        cc = rng.choice(start_counters(1 << cqk)) if rng.chance(5, 6) else rng.below(W)
        ops = gen_ops(rng, sqk, cqk, rng.range(4, maxlen), bool(fl & SQPOLL), split)
        cases.append("kring %d %d %d %d %d : %s" % (fl, sqk, cqk, c, cc, " : ".join(ops)))
    return cases


MALFORMED = ["kring", "kring 0 1 1 0", "kring 0 11 1 0 0 : f", "kring 1 1 1 0 0 : f", "kring 0 1 1 4294967296 0 : f", "kring 0 1 1 0 0 : y",
             "kring 0 1 1 0 0 : g 1", "kring 0 1 1 0 0 : g 1 256 0", "kring 0 1 1 0 0 : g 1 0 4294967296", "kring 0 1 1 0 0 : g 18446744073709551616 0 0",
             "kring 0 1 1 0 0 : x", "kring 0 1 1 0 0 : x -1", "kring 0 1 1 0 0 : o a", "kring 0 1 1 0 0 : rb 1", "kring 4 1 1 0 0 : r",
             "kring 0 1 1 0 0 : k 4294967296", "kring 0 1 1 0 0 : f 1"]


def parse_case(case):
    parts = case.split(" : ")
    hd = parts[0].split()
    fl, sqk, cqk, c, cc = (int(x) for x in hd[1:6])
    return fl, sqk, cqk, c, cc, [p.split() for p in parts[1:]]


def well_formed(case):
    try:
        if not case.startswith("kring "):
            return False
        hd = case.split(" : ")[0].split()
        if len(hd) != 6:
            return False
        fl, sqk, cqk, c, cc, ops = parse_case(case)
        if min(fl, sqk, cqk, c, cc) < 0 or fl & ~(SQPOLL | SQE128 | CQE32) or sqk > 10 or cqk > 10 or c >= W or cc >= W:
            return False
        for op in ops:
            a = [int(x) for x in op[1:]]
            if any(x < 0 for x in a) or any(not x.isdigit() for x in op[1:]):
                return False
            if op[0] == "g":
                if len(a) != 3 or a[0] >= 2 ** 64 or a[1] >= 256 or a[2] >= W:
                    return False
            elif op[0] in ("k", "x", "o"):
                if len(a) != 1 or a[0] >= W:
                    return False
            elif op[0] in ("f", "r", "w", "i", "rb", "rr"):
                if a:
                    return False
            else:
                return False
        return True
    except Exception:
        return False


def judge_detail(case, out):
    """returns None or (op, kind, why).  `kind` is the stable class of the failure."""
    if not well_formed(case):
        return None if out == "bad-op" else ("parse", "malformed", "malformed case accepted")
    if out == "bad-op":
        return ("parse", "rejected", "well-formed case rejected")
    fl, sqk, cqk, c, cc, ops = parse_case(case)
    toks = out.split()
    if not ops:
        return None if out == "ok" else ("kring", "unexpected", "unexpected output for an empty op list")
    if len(toks) != len(ops):
        return ("run", "token-count", "got %d outputs for %d ops" % (len(toks), len(ops)))
    E, CE = 1 << sqk, 1 << cqk
    sh = 1 if fl & SQE128 else 0
    csh = 1 if fl & CQE32 else 0
    filled = []            # (slot, ud, flags, len) in filling order
    published = consumed = 0
    pend = []              # [seq, dep]
    done, failed = set(), set()
    generated = {}         # seq -> (ud, res)
    posted = []            # seqs in completion-ring order
    ovf = []               # seqs waiting on the overflow list
    head = 0               # completions handed to the application (get_next_cqe returned Some)
    delivered = []         # what the application READ: (ud, res)
    held = None            # number of the completion the kept reference designates
    relp = False           # the entry the last get_next_cqe returned still occupies its slot (released by the NEXT call)
    asleep = False

    def room(early=False):
        """free completion slots as the kernel sees them; `early` = as a kernel would see them if get_next_cqe had released
        the slot of the entry it returned before the caller read it (then the held entry gets overwritten: reported at `rr`)"""
        return CE - (len(posted) - (head - (0 if early or not relp else 1)))
    for op, t in zip(ops, toks):
        o = op[0]
        if t == "panic":
            return (o, "panicked", "panicked")
        if held is not None and o in ("g", "f", "r", "w"):
            if t != "bw":
                return (o, "borrow", "ring method ran while a completion reference is held")
            continue
        if o == "g":
            inflight = len(filled) - consumed
            if inflight >= E:
                if t != "sn":
                    return ("g", "slot handed out while full", "slot handed out while all %d entries are in flight" % E)
                continue
            if t == "sn":
                return ("g", "no slot although room", "no slot although only %d of %d entries are in flight" % (inflight, E))
            if not (t.startswith("s") and t[1:].isdigit()):
                return ("g", "slot outside", "slot outside the entry array (%s)" % t)
            i = int(t[1:])
            if i >= (E << sh) or i % (1 << sh):
                return ("g", "slot outside", "slot outside the entry array (%s)" % t)
            if i in [s for s, _, _, _ in filled[consumed:]]:
                return ("g", "slot reused", "slot %d handed out again before the kernel consumed it" % i)
            filled.append((i, int(op[1]), int(op[2]), int(op[3])))
        elif o == "f":
            published = len(filled)
            if t != "f%d" % (len(filled) - consumed):
                return ("f", "flush count", "flush count %s, expected %d unconsumed entries" % (t, len(filled) - consumed))
        elif o == "k":
            n = 0 if asleep else min(int(op[1]), published - consumed)
            want, prev = [], None
            for j in range(n):
                slot, ud, efl, ln = filled[consumed + j]
                seq = consumed + j
                want.append("%d@%d=%d/%d/%d/%s" % (seq, slot, ud, efl, ln, "-" if prev is None else prev))
                pend.append([seq, prev])
                prev = seq if efl & IO_LINK else None
            consumed += n
            if t != "k:" + (",".join(want) if want else "-"):
                return ("k", "kernel consumed", "kernel consumed %s, the application published %s" % (t, "k:" + (",".join(want) or "-")))
        elif o == "x":
            i = int(op[1])
            if i >= len(pend):
                if t != "xn":
                    return ("x", "completion for nothing", "a completion (%s) although fewer than %d requests are in flight" % (t, i + 1))
                continue
            seq, dep = pend[i]
            if dep is not None and dep not in done:
                if t != "xw":
                    return ("x", "link order", "request %d completed (%s) before request %d it is linked behind" % (seq, t, dep))
                continue
            pend.pop(i)
            _, ud, efl, ln = filled[seq]
            cancelled = dep is not None and dep in failed
            res = ECANCELED if cancelled else ln
            if cancelled or res >= 2 ** 31:
                failed.add(seq)
            done.add(seq)
            direct = (not ovf) and room() > 0
            if not direct and (not ovf) and room(True) > 0 and t.endswith(":d"):
                direct = True
            generated[seq] = (ud, res)
            (posted if direct else ovf).append(seq)
            if t != "x%d=%d:%d:%s" % (seq, ud, res, "d" if direct else "o"):
                return ("x", "wrong completion generated", "completion %s generated, the contract owes x%d=%d:%d:%s" % (t, seq, ud, res, "d" if direct else "o"))
        elif o == "o":
            n = min(int(op[1]), len(ovf), max(0, room()))
            n_early = min(int(op[1]), len(ovf), max(0, room(True)))
            if t == "o%d" % n_early:
                n = n_early
            for _ in range(n):
                posted.append(ovf.pop(0))
            if t != "o%d" % n:
                return ("o", "overflow flush", "kernel moved %s overflowed completions into the ring, expected %d (free slots seen through the shared head)" % (t, n))
        elif o == "r":
            relp = False
            if head < len(posted):
                want = generated[posted[head]]
                if t == "cn":
                    return ("r", "no completion returned", "no completion returned although %d posted completions are unreaped" % (len(posted) - head))
                if t != "c%d:%d" % want:
                    return ("r", "wrong completion", "wrong completion %s, expected c%d:%d (the oldest unreaped one)" % ((t,) + want))
                delivered.append(want)
                head += 1
                relp = True
            elif t != "cn":
                return ("r", "completion invented", "completion %s returned although every posted completion was reaped" % t)
        elif o == "rb":
            if held is not None:
                if t != "bw":
                    return ("rb", "borrow", "second reference handed out")
                continue
            relp = False
            if head < len(posted):
                idx = ((cc + head) % CE) << csh
                if t != "h%d" % idx:
                    return ("rb", "wrong reference", "get_next_cqe returned %s, the oldest unreaped completion is in entry %d" % (t, idx))
                held = head
                head += 1
                relp = True
            elif t != "cn":
                return ("rb", "completion invented", "reference %s returned although every posted completion was reaped" % t)
        elif o == "rr":
            if held is None:
                if t != "bw":
                    return ("rr", "borrow", "read without a reference")
                continue
            want = generated[posted[held]]
            k = held
            held = None
            if t != "c%d:%d" % want:
                return ("rr", "held-reference-overwritten",
                        "the reference get_next_cqe returned for completion #%d (user_data %d, res %d) reads %s: the entry's slot was given "
                        "back to the kernel (head advanced) before the caller read it, the kernel has put a later completion there — this "
                        "operation's completion is lost and the later one will be reaped twice" % ((k,) + want + (t,)))
            delivered.append(want)
        elif o == "w":
            if t != ("w1" if asleep else "w0"):
                return ("w", "needs_wakeup", "needs_wakeup() answered %s while IORING_SQ_NEED_WAKEUP is %s and IORING_SQ_CQ_OVERFLOW is %s: %s"
                        % (t, "set" if asleep else "clear", "set" if ovf else "clear",
                           "the sleeping submission thread is never woken, what was flushed never completes" if asleep else "needless enter"))
            asleep = False
        elif o == "i":
            if fl & SQPOLL:
                asleep = True
            if t != "i":
                return ("i", "unexpected", "unexpected output %s" % t)
    # exactly once, nothing invented (multiset over what the application read)
    owed = sorted(generated.values())
    got = sorted(delivered)
    rest = list(owed)
    for d in got:
        if d in rest:
            rest.remove(d)
        else:
            return ("run", "not-a-sub-multiset", "completion %r was read more often than the contract generated it" % (d,))
    return None


def judge(case, out):
    d = judge_detail(case, out)
    return None if d is None else d[2]


def sig_of(case, out, why):
    d = judge_detail(case, out)
    return {"op": d[0] if d else "?", "kind": d[1] if d else why[:30]}


def coverage(ctx, cases, outs):
    for case, out in zip(cases, outs):
        if out == "bad-op":
            continue
        fl, sqk, cqk, c, cc, ops = parse_case(case)
        toks = out.split()
        nslots = sum(1 for t in toks if t.startswith("s") and t != "sn")
        ndirect = sum(1 for t in toks if t.startswith("x") and t.endswith(":d"))
        novf = sum(1 for t in toks if t.startswith("x") and t.endswith(":o"))
        nflush = sum(int(t[1:]) for t in toks if t.startswith("o") and t[1:].isdigit())
        cancelled = any(t.startswith("x") and (":%d:" % ECANCELED) in t for t in toks)
        order = [int(t[1:].split("=")[0]) for t in toks if t.startswith("x") and "=" in t]
        ooo = any(b < a for a, b in zip(order, order[1:]))
        ctx.count(("kring", sqk, cqk, fl, c + nslots >= W, cc + ndirect + nflush >= W, "sn" in toks, novf > 0, nflush > 0, ooo,
                   "xw" in toks, cancelled, "w1" in toks))
        for t in toks:
            k = t[0] + ("n" if t in ("sn", "cn", "xn") else "") + ("w" if t == "xw" else "") + (t[-2:] if t.startswith("x") and "=" in t else "")
            ctx.hist("kring_outcomes", k)
        ctx.hist("kring_features", "overflow" if novf else "-")
        ctx.hist("kring_features", "out-of-order" if ooo else "-")
        ctx.hist("kring_features", "link-cancelled" if cancelled else "-")
        ctx.hist("kring_features", "link-waits" if "xw" in toks else "-")
