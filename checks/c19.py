"""C19 — time arithmetic exact or None, never panics; monotonic clock and sleep observed.

Tie T: on every run checks/time_extract.py regenerates lean/TinyVerif/Gen/TimePure.lean from the Rust text of
tiny-std/src/time.rs + rusl/src/platform/compat/time.rs (and the module files they declare: functions are found by
name wherever they live, impls written by a local macro_rules! are expanded); Props/C19.lean proves the generated
public entry points equal to the model (gen_agrees_*), the driver evaluates model AND generated definitions against
the real code (harness/c19: build.rs copies time.rs and every file of time/ and mounts the glue as a child module)."""
import os

from . import common as C
from . import time_extract as TX

I64_MAX = 2**63 - 1
I64_MIN = -2**63
U64_MAX = 2**64 - 1
NANOS = 10**9


def gen_cases(ctx, n):
    r = ctx.rng
    secs_pos = [0, 1, 2, 59, 2**31 - 1, 2**31, 2**32, 2**62, I64_MAX - 2, I64_MAX - 1, I64_MAX]
    secs_neg = [-1, -2, -2**31, I64_MIN + 1, I64_MIN]
    nsecs = [0, 1, 2, 499999999, 500000000, 999999998, 999999999]
    # unit-conversion thresholds: seconds at which seconds * 10^k crosses an integer-width boundary (a conversion to
    # a single nanosecond / microsecond / millisecond count overflows exactly there), and the sub-second remainders
    # of those boundaries (the overflow then depends on the nanosecond field)
    for width in (2**31, 2**32, 2**63, 2**64):
        for scale in (10**3, 10**6, NANOS):
            q, rem = divmod(width - 1, scale)
            secs_pos += [x for x in (q - 1, q, q + 1) if 0 <= x <= I64_MAX]
            if scale == NANOS:
                nsecs += [x for x in (rem - 1, rem, rem + 1) if 0 <= x < NANOS]
            else:
                nsecs += [x for x in (rem * (NANOS // scale), rem * (NANOS // scale) + NANOS // scale - 1) if 0 <= x < NANOS]
    secs_neg += [-x for x in secs_pos if 2**20 < x < 2**62]

    def sec(neg_ok):
        k = r.below(10)
        if k < 5:
            return r.choice(secs_pos)
        if k < 7:
            return r.below(2**40)
        if k < 8:
            return I64_MAX - r.below(2**20)
        if neg_ok and k == 8:
            return r.choice(secs_neg) if r.chance(1, 2) else -r.below(2**62) - 1
        return r.below(2**63)

    def nsec():
        return r.choice(nsecs) if r.chance(2, 3) else r.below(NANOS)

    def dsecs(s):
        k = r.below(10)
        if k < 3:
            return r.choice([0, 1, 2, I64_MAX - 1, I64_MAX, I64_MAX + 1, U64_MAX - 1, U64_MAX])
        if k < 6 and 0 <= s:
            # neighbourhood of the representability boundary of t + d and of t - d
            return max(0, min(U64_MAX, r.choice([I64_MAX - s, s]) + r.range(-2, 2)))
        if k < 8:
            return r.below(2**34)
        return r.below(2**64)

    def rawnsec():
        """any i64 in tv_nsec (a TimeSpec can be built with `TimeSpec::new(s, n)` for every n): the agreement
        theorems and the correspondence cover it; the property's spec (judge) only speaks about normalised values"""
        k = r.below(6)
        if k == 0:
            return r.choice([I64_MIN, I64_MIN + 1, -NANOS - 1, -NANOS, -1, NANOS, NANOS + 1, 2**32 - 1, 2**32, 2**32 + NANOS,
                             I64_MAX - NANOS, I64_MAX - 1, I64_MAX])
        if k == 1:
            return -r.below(2**63) - 1
        if k == 2:
            return NANOS + r.below(2**33)
        if k == 3:
            return r.below(2**63)
        return nsec()

    cases = []
    for i in range(n):
        op = ["add", "sub", "diff", "cmp", "diffu"][i % 5]
        raw = (i % 7 == 3)
        if i % 97 == 11:
            cases.append("d2ts %d %d" % (r.choice([0, 1, I64_MAX - 1, I64_MAX, I64_MAX + 1, U64_MAX - 1, U64_MAX, r.below(2**64), r.below(2**40)]), nsec()))
        elif op in ("add", "sub"):
            s = sec(True)
            cases.append("%s %d %d %d %d" % (op, s, rawnsec() if raw else nsec(), dsecs(s), nsec()))
        elif op in ("diff", "cmp"):
            a = sec(True)
            k = r.below(4)
            b = a + r.range(-1, 1) if k == 0 else (a if k == 1 else sec(True))
            b = max(I64_MIN, min(I64_MAX, b))
            cases.append("%s %d %d %d %d" % (op, a, rawnsec() if raw else nsec(), b, rawnsec() if raw else nsec()))
        else:  # diffu: only on its documented domain l >= r >= epoch, or r = epoch (duration_since_unix_time)
            if r.chance(1, 3):
                cases.append("diffu %d %d 0 0" % (sec(True), nsec()))
            else:
                a, b = sec(False), sec(False)
                an, bn = nsec(), nsec()
                if (a, an) < (b, bn):
                    a, an, b, bn = b, bn, a, an
                cases.append("diffu %d %d %d %d" % (a, an, b, bn))
    return cases


def judge(case, out):
    """property C19's own spec, evaluated in exact integer arithmetic on the implementation's output"""
    w = case.split()
    op = w[0]
    if op == "d2ts":
        secs, nanos = int(w[1]), int(w[2])
        if out == "panic":
            return "panicked"
        if secs <= I64_MAX:
            return None if out == "some %d %d" % (secs, nanos) else "wrong conversion: expected (%d, %d)" % (secs, nanos)
        return None if out == "none" else "Ok although the seconds do not fit an i64"
    a, b, c, d = (int(x) for x in w[1:5])
    if not 0 <= b < NANOS or (op in ("diff", "diffu", "cmp") and not 0 <= d < NANOS):
        return None     # non-normalised tv_nsec: outside the property's spec; model/generated/real code are still compared
    if out == "panic":
        return "panicked"
    o = out.split()
    val = (int(o[1]), int(o[2])) if o[0] == "some" else None
    if op == "add":
        tot = a * NANOS + b + c * NANOS + d
        exp = (tot // NANOS, tot % NANOS)
        if val is not None:
            return None if val == exp and I64_MIN <= val[0] <= I64_MAX else "wrong sum: expected %s" % (exp,)
        if a >= 0:
            return None if exp[0] > I64_MAX else "None although the exact sum %s is representable" % (exp,)
        return None
    if op == "sub":
        tot = a * NANOS + b - (c * NANOS + d)
        exp = (tot // NANOS, tot % NANOS)
        if val is not None:
            return None if (val == exp and tot >= 0) else "wrong difference: expected %s" % (exp if tot >= 0 else None,)
        return None if tot < 0 else "None although the exact result %s is non-negative" % (exp,)
    if op == "diff":
        tot = a * NANOS + b - (c * NANOS + d)
        exp = (tot // NANOS, tot % NANOS)
        if val is not None:
            return None if (val == exp and tot >= 0) else "wrong difference: expected %s" % (exp if tot >= 0 else None,)
        if a >= 0 and c >= 0:
            return None if tot < 0 else "None although the exact difference %s is non-negative" % (exp,)
        return None
    if op == "diffu":
        tot = a * NANOS + b - (c * NANOS + d)
        if tot >= 0 and c >= 0:
            exp = (tot // NANOS, tot % NANOS)
            return None if val == exp else "wrong difference: expected %s" % (exp,)
        return None
    if op == "cmp":
        x, y = a * NANOS + b, c * NANOS + d
        exp = "lt" if x < y else ("gt" if x > y else "eq")
        return None if out == exp else "ordering disagrees with exact values: expected " + exp
    return "unknown op"


def sig_of(case, out, why):
    return {"op": case.split()[0], "kind": why.split(":")[0].split(" although")[0]}


def run(ctx):
    ctx.rule = ("cases = boundary-biased (seconds around 0, 2^31, 2^32, i64::MAX, i64::MIN; nanoseconds around 0 and 10^9-1; "
                "durations around i64::MAX - t, u64::MAX) operations add/sub/diff/cmp/diffu, drawn from VERIF_SEED; "
                "distinct_nontrivial = distinct (op, outcome kind, carry/borrow taken, sign of seconds) classes hit")
    ctx.assumptions += [
        "the model Model/Time.lean describes tiny-std/src/time.rs and the files of tiny-std/src/time/ (checked by the correspondence stream of this run, debug and release builds)",
        "derived Ord on TimeSpec compares (tv_sec, tv_nsec) lexicographically (checked by the cmp cases)",
        "monotonic clock and sleep(d) >= d are kernel behaviour: observed by this run, not proved; the retry loop of thread::sleep is proved (sleep_total) under the nanosleep remaining-time contract",
    ]
    ctx.assumptions.append(
        "tie T: checks/time_extract.py translates the Rust text faithfully (µRust fragment, Rust integer semantics as stated in "
        "the header of Gen/TimePure.lean; core's checked_*/try_from/Duration::new and the newtype erasure are its trusted "
        "prelude); the generated definitions are ALSO run against the real code (streams timegen-*), and are proved equal to the model")
    extract_problems = prepare(ctx)
    ok = C.lean_prove(ctx, "TinyVerif.Props.C19", drivers=["drv_c19"])
    n = 20000 if ctx.tier == "quick" else 400000
    cases = gen_cases(ctx, n)
    drv = [C.driver_path("drv_c19")]
    all_ok = True
    for release in (False, True):
        exe, err = C.cargo_build(ctx, "c19", release=release)
        if exe is None:
            ctx.broken.append({"harness_build_failed": err})
            ctx.violation({"kind": "harness-build-failed"}, {"error": err}, no_input=True)
            return
        mode = "release" if release else "debug"
        lines = ["mode " + mode] + cases
        good = C.correspond(ctx, "time-" + mode, lines, [exe], drv, lambda c, o: None if c.startswith("mode") else judge(c, o), sig_of)
        all_ok = all_ok and good
        # the definitions generated from the Rust text, through the same public entry point the harness uses on each line
        glines = ["mode gen-" + mode] + cases[:max(1, len(cases) // 2)]
        good = C.correspond(ctx, "timegen-" + mode, glines, [exe], drv, lambda c, o: None if c.startswith("mode") else judge(c, o), sig_of)
        all_ok = all_ok and good
        if not release:
            _, outs, _ = C.run_filter([exe], lines)
            for c, o in zip(lines[1:], outs[1:]):
                w = c.split()
                if w[0] == "d2ts":
                    ctx.count(("d2ts", o.split()[0]))
                    ctx.hist("outcomes", "d2ts:" + o.split()[0])
                    continue
                a, b, cc, d = (int(x) for x in w[1:5])
                if not 0 <= b < NANOS or (w[0] in ("diff", "diffu", "cmp") and not 0 <= d < NANOS):
                    ctx.hist("outcomes", w[0] + "-raw-nsec:" + o.split()[0])
                    continue
                carry = (w[0] == "add" and b + d >= NANOS) or (w[0] in ("sub", "diff", "diffu") and b - d < 0)
                ctx.count((w[0], o.split()[0], carry, a < 0))
                ctx.hist("outcomes", w[0] + ":" + o.split()[0])
            for c, o in list(zip(lines[1:], outs[1:]))[:8]:
                ctx.sample({"case": c, "implementation": o})
    # thread::sleep retry loop against the model's sleepLoop, over a scripted nanosleep (sc-shim)
    r = ctx.rng
    scripts = []
    for i in range(300 if ctx.tier == "quick" else 5000):
        req = r.choice([0, 1, 999999999, 1000000000, 1000000001, r.below(10**10)])
        parts = []
        for _ in range(r.below(5)):
            parts.append("eintr %d %d" % (r.choice([0, 1, req // 2, req, req + 5, r.below(10**9)]), r.choice([0, 0, 1, r.below(1000)])))
        k = r.below(4)
        if k == 0:
            parts.append("done %d" % r.below(100))
        elif k == 1:
            parts.append("err %d" % r.choice([14, 22]))
        scripts.append("sleep %d %s" % (req, " ".join(parts)))

    def judge_sleep(c, o):
        w, ow = c.split(), o.split()
        if ow[0] == "ok" and int(ow[1]) < int(w[1]):
            return "sleep returned Ok after %s ns < requested %s ns" % (ow[1], w[1])
        return None
    exe, _ = C.cargo_build(ctx, "c19", release=False)
    C.correspond(ctx, "sleep-script", scripts, [exe], drv, judge_sleep, lambda c, o, why: {"op": "sleep", "kind": "short"})
    for s_ in scripts[:2]:
        ctx.sample({"case": s_})
    # observations on the real clock (implementation-vs-oracle, reported separately from the model tie)
    exe, _ = C.cargo_build(ctx, "c19", release=False)
    k = 100000 if ctx.tier == "quick" else 2000000
    rc, outs, _ = C.run_filter([exe], ["monotonic %d" % k])
    ctx.extra["monotonic_observation"] = outs[0] if outs else "none"
    if outs and outs[0].split()[1] != "0":
        ctx.violation({"kind": "monotonic-decreased"}, {"observation": outs[0], "readings": k})
    # elapsed() entry points against the live clock: a value `delta` ns in the future (by a safe margin) must give None,
    # a value `delta` ns in the past must give Some(d) with -delta <= d < -delta + 1 s
    el = []
    for kind in ("instant", "system", "mono"):
        for delta in [-1, -999, -1000000, -999999999, -1000000000, -1000000001, -5 * 10**9, -(10**12),
                      50_000_000, 200_000_000, 700_000_000, 999_000_000, 1_000_000_000, 1_500_000_000, 10**10] + \
                     [r.range(40_000_000, 999_999_999) for _ in range(12)] + [-r.below(3 * 10**9) for _ in range(12)]:
            if kind == "mono" and delta > 0:
                continue          # MonotonicInstant cannot be in the future (it is only ever obtained from now())
            el.append("elapsed %s %d" % (kind, delta))
    rc, outs, _ = C.run_filter([exe], el, timeout=120)
    bad_el = 0
    for c, o in zip(el, outs):
        delta = int(c.split()[2])
        why = None
        if o == "panic":
            why = "panicked"
        elif delta > 0:
            if o != "none":
                why = "elapsed() of a value %d ns in the future returned %s, not None" % (delta, o)
        else:
            w = o.split()
            if w[0] != "some":
                why = "elapsed() of a value %d ns in the past returned None" % (-delta)
            else:
                d = int(w[1]) * NANOS + int(w[2])
                if not (-delta <= d < -delta + NANOS):
                    why = "elapsed() of a value %d ns in the past returned %d ns" % (-delta, d)
        if why:
            bad_el += 1
            ctx.violation({"op": "elapsed", "kind": c.split()[1] + (":future" if delta > 0 else ":past")},
                          {"case": c, "implementation": o, "why": why, "how_to_replay": "echo '%s' | %s" % (c, exe)})
    ctx.extra["elapsed_observation"] = {"cases": len(el), "failures": bad_el}
    ctx.evaluations += len(el)
    sl = [0, 1, 1000, 50000, 999999, 1000000, 3000000] + [ctx.rng.below(5_000_000) for _ in range(10 if ctx.tier == "quick" else 200)]
    rc, outs, _ = C.run_filter([exe], ["realsleep %d" % d for d in sl], timeout=600)
    short = [(d, o) for d, o in zip(sl, outs) if not (o.startswith("slept ") and int(o.split()[1]) >= d)]
    ctx.extra["sleep_observation"] = {"requests": len(sl), "shorter_than_requested": len(short)}
    for d, o in short[:3]:
        ctx.violation({"kind": "sleep-short"}, {"requested_ns": d, "observed": o})
    ctx.evaluations += 1 + len(sl)
    # broken obligations are reported after the search for a concrete failing input (no-failing-input-found):
    # a construct of the source the translator cannot carry over (fail closed), or a theorem that no longer builds
    # (e.g. gen_agrees_*: the arithmetic written in the source is no longer the arithmetic of the model)
    if extract_problems:
        ctx.violation({"kind": "extractor-cannot-translate"},
                      {"problems": extract_problems,
                       "note": "tiny-std/src/time.rs (with its module files) or rusl/src/platform/compat/time.rs left the translatable fragment: the theorems "
                               "about Gen/TimePure.lean (gen_agrees_*, src_*) no longer speak about the source; the checks above ran "
                               "with the previously generated definitions"}, no_input=True)
    if not ok:
        errs = [e for b in ctx.broken if isinstance(b, dict) for e in b.get("errors", [])]
        ctx.violation({"kind": "proof-broken"}, {"broken": ctx.broken, "lean_errors": errs[:10],
                                                 "theorems_hit": broken_theorems(errs)}, no_input=True)


def prepare(ctx):
    """tie T: regenerate Gen/TimePure.lean from the Rust text of the current tree; returns the list of problems
    (empty = translated).  On a problem nothing is written (fail closed: reported by run() as a broken obligation)."""
    try:
        good, text, problems = TX.generate(C.REPO)
    except Exception as ex:  # a translator crash is a broken obligation too
        good, text, problems = False, "", ["time_extract crashed: %r" % (ex,)]
    ctx.obligations += 1
    path = os.path.join(C.LEAN, "TinyVerif", "Gen", "TimePure.lean")
    if not good:
        ctx.broken.append({"time_extract": problems})
        return problems or ["time_extract failed"]
    ctx.discharged += 1
    old = open(path).read() if os.path.exists(path) else None
    if old != text:
        with open(path, "w") as f:
            f.write(text)
    ctx.extra["time_extract"] = {"translated_functions": sum(1 for l in text.splitlines() if l.startswith("def ") and "(rel : Bool)" in l and not l.startswith("def plain")), "regenerated": old != text}
    return []


def broken_theorems(errs):
    """names of the theorems of Props/C19.lean in which the reported Lean errors lie"""
    import re
    path = os.path.join(C.LEAN, "TinyVerif", "Props", "C19.lean")
    try:
        src = open(path).read().splitlines()
    except OSError:
        return []
    out = []
    for e in errs:
        m = re.search(r"Props/C19\.lean:(\d+):", e)
        if not m:
            continue
        for ln in range(min(int(m.group(1)), len(src)) - 1, -1, -1):
            t = re.match(r"\s*(theorem|example|def|macro)\s+(\S+)", src[ln])
            if t:
                if t.group(2) not in out:
                    out.append(t.group(2))
                break
    return out
