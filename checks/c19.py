"""C19 — time arithmetic exact or None, never panics; monotonic clock and sleep observed."""
from . import common as C

I64_MAX = 2**63 - 1
I64_MIN = -2**63
U64_MAX = 2**64 - 1
NANOS = 10**9


def gen_cases(ctx, n):
    r = ctx.rng
    secs_pos = [0, 1, 2, 59, 2**31 - 1, 2**31, 2**32, 2**62, I64_MAX - 2, I64_MAX - 1, I64_MAX]
    secs_neg = [-1, -2, -2**31, I64_MIN + 1, I64_MIN]
    nsecs = [0, 1, 2, 499999999, 500000000, 999999998, 999999999]

    def sec(neg_ok):
        k = r.below(10)
        if k < 5:
            return r.choice(secs_pos)
        if k < 7:
            return r.below(2**40)
        if k < 8:
            return I64_MAX - r.below(2**20)
        if neg_ok and k == 8:
            return r.choice(secs_neg) if r.chance(1, 2) else -r.below(2**62) - 1
        return r.below(2**63)

    def nsec():
        return r.choice(nsecs) if r.chance(2, 3) else r.below(NANOS)

    def dsecs(s):
        k = r.below(10)
        if k < 3:
            return r.choice([0, 1, 2, I64_MAX - 1, I64_MAX, I64_MAX + 1, U64_MAX - 1, U64_MAX])
        if k < 6 and 0 <= s:
            # neighbourhood of the representability boundary of t + d and of t - d
            return max(0, min(U64_MAX, r.choice([I64_MAX - s, s]) + r.range(-2, 2)))
        if k < 8:
            return r.below(2**34)
        return r.below(2**64)

    cases = []
    for i in range(n):
        op = ["add", "sub", "diff", "cmp", "diffu"][i % 5]
        if op in ("add", "sub"):
            s = sec(True)
            cases.append("%s %d %d %d %d" % (op, s, nsec(), dsecs(s), nsec()))
        elif op in ("diff", "cmp"):
            a = sec(True)
            k = r.below(4)
            b = a + r.range(-1, 1) if k == 0 else (a if k == 1 else sec(True))
            b = max(I64_MIN, min(I64_MAX, b))
            cases.append("%s %d %d %d %d" % (op, a, nsec(), b, nsec()))
        else:  # diffu: only on its documented domain l >= r >= epoch, or r = epoch (duration_since_unix_time)
            if r.chance(1, 3):
                cases.append("diffu %d %d 0 0" % (sec(True), nsec()))
            else:
                a, b = sec(False), sec(False)
                an, bn = nsec(), nsec()
                if (a, an) < (b, bn):
                    a, an, b, bn = b, bn, a, an
                cases.append("diffu %d %d %d %d" % (a, an, b, bn))
    return cases


def judge(case, out):
    """property C19's own spec, evaluated in exact integer arithmetic on the implementation's output"""
    w = case.split()
    op = w[0]
    a, b, c, d = (int(x) for x in w[1:5])
    if out == "panic":
        return "panicked"
    o = out.split()
    val = (int(o[1]), int(o[2])) if o[0] == "some" else None
    if op == "add":
        tot = a * NANOS + b + c * NANOS + d
        exp = (tot // NANOS, tot % NANOS)
        if val is not None:
            return None if val == exp and I64_MIN <= val[0] <= I64_MAX else "wrong sum: expected %s" % (exp,)
        if a >= 0:
            return None if exp[0] > I64_MAX else "None although the exact sum %s is representable" % (exp,)
        return None
    if op == "sub":
        tot = a * NANOS + b - (c * NANOS + d)
        exp = (tot // NANOS, tot % NANOS)
        if val is not None:
            return None if (val == exp and tot >= 0) else "wrong difference: expected %s" % (exp if tot >= 0 else None,)
        return None if tot < 0 else "None although the exact result %s is non-negative" % (exp,)
    if op == "diff":
        tot = a * NANOS + b - (c * NANOS + d)
        exp = (tot // NANOS, tot % NANOS)
        if val is not None:
            return None if (val == exp and tot >= 0) else "wrong difference: expected %s" % (exp if tot >= 0 else None,)
        if a >= 0 and c >= 0:
            return None if tot < 0 else "None although the exact difference %s is non-negative" % (exp,)
        return None
    if op == "diffu":
        tot = a * NANOS + b - (c * NANOS + d)
        if tot >= 0 and c >= 0:
            exp = (tot // NANOS, tot % NANOS)
            return None if val == exp else "wrong difference: expected %s" % (exp,)
        return None
    if op == "cmp":
        x, y = a * NANOS + b, c * NANOS + d
        exp = "lt" if x < y else ("gt" if x > y else "eq")
        return None if out == exp else "ordering disagrees with exact values: expected " + exp
    return "unknown op"


def sig_of(case, out, why):
    return {"op": case.split()[0], "kind": why.split(":")[0].split(" although")[0]}


def run(ctx):
    ctx.rule = ("cases = boundary-biased (seconds around 0, 2^31, 2^32, i64::MAX, i64::MIN; nanoseconds around 0 and 10^9-1; "
                "durations around i64::MAX - t, u64::MAX) operations add/sub/diff/cmp/diffu, drawn from VERIF_SEED; "
                "distinct_nontrivial = distinct (op, outcome kind, carry/borrow taken, sign of seconds) classes hit")
    ctx.assumptions += [
        "the model Model/Time.lean describes tiny-std/src/time.rs (checked by the correspondence stream of this run, debug and release builds)",
        "derived Ord on TimeSpec compares (tv_sec, tv_nsec) lexicographically (checked by the cmp cases)",
        "monotonic clock and sleep(d) >= d are kernel behaviour: observed by this run, not proved; the retry loop of thread::sleep is proved (sleep_total) under the nanosleep remaining-time contract",
    ]
    ok = C.lean_prove(ctx, "TinyVerif.Props.C19", drivers=["drv_c19"])
    n = 20000 if ctx.tier == "quick" else 400000
    cases = gen_cases(ctx, n)
    drv = [C.driver_path("drv_c19")]
    all_ok = True
    for release in (False, True):
        exe, err = C.cargo_build(ctx, "c19", release=release)
        if exe is None:
            ctx.broken.append({"harness_build_failed": err})
            ctx.violation({"kind": "harness-build-failed"}, {"error": err}, no_input=True)
            return
        mode = "release" if release else "debug"
        lines = ["mode " + mode] + cases
        good = C.correspond(ctx, "time-" + mode, lines, [exe], drv, lambda c, o: None if c.startswith("mode") else judge(c, o), sig_of)
        all_ok = all_ok and good
        if not release:
            _, outs, _ = C.run_filter([exe], lines)
            for c, o in zip(lines[1:], outs[1:]):
                w = c.split()
                a, b, cc, d = (int(x) for x in w[1:5])
                carry = (w[0] == "add" and b + d >= NANOS) or (w[0] in ("sub", "diff", "diffu") and b - d < 0)
                ctx.count((w[0], o.split()[0], carry, a < 0))
                ctx.hist("outcomes", w[0] + ":" + o.split()[0])
            for c, o in list(zip(lines[1:], outs[1:]))[:8]:
                ctx.sample({"case": c, "implementation": o})
    # thread::sleep retry loop against the model's sleepLoop, over a scripted nanosleep (sc-shim)
    r = ctx.rng
    scripts = []
    for i in range(300 if ctx.tier == "quick" else 5000):
        req = r.choice([0, 1, 999999999, 1000000000, 1000000001, r.below(10**10)])
        parts = []
        for _ in range(r.below(5)):
            parts.append("eintr %d %d" % (r.choice([0, 1, req // 2, req, req + 5, r.below(10**9)]), r.choice([0, 0, 1, r.below(1000)])))
        k = r.below(4)
        if k == 0:
            parts.append("done %d" % r.below(100))
        elif k == 1:
            parts.append("err %d" % r.choice([14, 22]))
        scripts.append("sleep %d %s" % (req, " ".join(parts)))

    def judge_sleep(c, o):
        w, ow = c.split(), o.split()
        if ow[0] == "ok" and int(ow[1]) < int(w[1]):
            return "sleep returned Ok after %s ns < requested %s ns" % (ow[1], w[1])
        return None
    exe, _ = C.cargo_build(ctx, "c19", release=False)
    C.correspond(ctx, "sleep-script", scripts, [exe], drv, judge_sleep, lambda c, o, why: {"op": "sleep", "kind": "short"})
    for s_ in scripts[:2]:
        ctx.sample({"case": s_})
    # observations on the real clock (implementation-vs-oracle, reported separately from the model tie)
    exe, _ = C.cargo_build(ctx, "c19", release=False)
    k = 100000 if ctx.tier == "quick" else 2000000
    rc, outs, _ = C.run_filter([exe], ["monotonic %d" % k])
    ctx.extra["monotonic_observation"] = outs[0] if outs else "none"
    if outs and outs[0].split()[1] != "0":
        ctx.violation({"kind": "monotonic-decreased"}, {"observation": outs[0], "readings": k})
    # elapsed() entry points against the live clock: a value `delta` ns in the future (by a safe margin) must give None,
    # a value `delta` ns in the past must give Some(d) with -delta <= d < -delta + 1 s
    el = []
    for kind in ("instant", "system", "mono"):
        for delta in [-1, -999, -1000000, -999999999, -1000000000, -1000000001, -5 * 10**9, -(10**12),
                      50_000_000, 200_000_000, 700_000_000, 999_000_000, 1_000_000_000, 1_500_000_000, 10**10] + \
                     [r.range(40_000_000, 999_999_999) for _ in range(12)] + [-r.below(3 * 10**9) for _ in range(12)]:
            if kind == "mono" and delta > 0:
                continue          # MonotonicInstant cannot be in the future (it is only ever obtained from now())
            el.append("elapsed %s %d" % (kind, delta))
    rc, outs, _ = C.run_filter([exe], el, timeout=120)
    bad_el = 0
    for c, o in zip(el, outs):
        delta = int(c.split()[2])
        why = None
        if o == "panic":
            why = "panicked"
        elif delta > 0:
            if o != "none":
                why = "elapsed() of a value %d ns in the future returned %s, not None" % (delta, o)
        else:
            w = o.split()
            if w[0] != "some":
                why = "elapsed() of a value %d ns in the past returned None" % (-delta)
            else:
                d = int(w[1]) * NANOS + int(w[2])
                if not (-delta <= d < -delta + NANOS):
                    why = "elapsed() of a value %d ns in the past returned %d ns" % (-delta, d)
        if why:
            bad_el += 1
            ctx.violation({"op": "elapsed", "kind": c.split()[1] + (":future" if delta > 0 else ":past")},
                          {"case": c, "implementation": o, "why": why, "how_to_replay": "echo '%s' | %s" % (c, exe)})
    ctx.extra["elapsed_observation"] = {"cases": len(el), "failures": bad_el}
    ctx.evaluations += len(el)
    sl = [0, 1, 1000, 50000, 999999, 1000000, 3000000] + [ctx.rng.below(5_000_000) for _ in range(10 if ctx.tier == "quick" else 200)]
    rc, outs, _ = C.run_filter([exe], ["realsleep %d" % d for d in sl], timeout=600)
    short = [(d, o) for d, o in zip(sl, outs) if not (o.startswith("slept ") and int(o.split()[1]) >= d)]
    ctx.extra["sleep_observation"] = {"requests": len(sl), "shorter_than_requested": len(short)}
    for d, o in short[:3]:
        ctx.violation({"kind": "sleep-short"}, {"requested_ns": d, "observed": o})
    ctx.evaluations += 1 + len(sl)
    if not ok and not ctx.violations:
        ctx.violation({"kind": "proof-broken"}, {"broken": ctx.broken}, no_input=True)
