"""Shared machinery for /verif/bin/check: Lean build + axiom audit, harness build,
line-protocol correspondence, violation / known-finding protocol, evidence writer.
Python 3 stdlib only."""
import hashlib
import json
import os
import re
import subprocess
import sys
import time

VERIF = os.path.dirname(os.path.dirname(os.path.abspath(__file__)))
REPO = os.environ.get("VERIF_REPO", "/repo")
LEAN = os.path.join(VERIF, "lean")
HARNESS = os.path.join(VERIF, "harness")
EVIDENCE = os.path.join(VERIF, "evidence")
REPLAYS = os.path.join(VERIF, "replays")
KNOWN = os.path.join(VERIF, "known_findings.jsonl")
GUARD_CFG = "tiny_std_verif"

ALLOWED_AXIOMS = {"propext", "Classical.choice", "Quot.sound"}
FORBIDDEN_RE = re.compile(r"\bsorry\b|\badmit\b|^\s*axiom\s|native_decide|bv_decide|implemented_by|\bunsafe\s|maxHeartbeats\s+0\b", re.M)

CARGO_ENV = {"CARGO_NET_OFFLINE": "true", "CARGO_TERM_COLOR": "never"}


class Rng:
    """splitmix64 — every random choice of a check derives from VERIF_SEED through this."""

    def __init__(self, seed):
        self.s = seed & 0xFFFFFFFFFFFFFFFF

    def next(self):
        self.s = (self.s + 0x9E3779B97F4A7C15) & 0xFFFFFFFFFFFFFFFF
        z = self.s
        z = ((z ^ (z >> 30)) * 0xBF58476D1CE4E5B9) & 0xFFFFFFFFFFFFFFFF
        z = ((z ^ (z >> 27)) * 0x94D049BB133111EB) & 0xFFFFFFFFFFFFFFFF
        return z ^ (z >> 31)

    def below(self, n):
        return self.next() % n if n > 0 else 0

    def range(self, lo, hi):
        """inclusive"""
        return lo + self.below(hi - lo + 1)

    def choice(self, xs):
        return xs[self.below(len(xs))]

    def chance(self, num, den):
        return self.below(den) < num

    def shuffle(self, xs):
        xs = list(xs)
        for i in range(len(xs) - 1, 0, -1):
            j = self.below(i + 1)
            xs[i], xs[j] = xs[j], xs[i]
        return xs

    def bytes(self, n, alphabet=None):
        if alphabet is None:
            return bytes(self.below(256) for _ in range(n))
        return bytes(self.choice(alphabet) for _ in range(n))


def hexs(b):
    return b.hex() if len(b) else "-"


def unhex(s):
    return b"" if s == "-" else bytes.fromhex(s)


def sh(cmd, cwd=None, env=None, timeout=None, input=None):
    e = dict(os.environ)
    e.update(CARGO_ENV)
    if env:
        e.update(env)
    p = subprocess.run(cmd, cwd=cwd, env=e, timeout=timeout, input=input,
                       stdout=subprocess.PIPE, stderr=subprocess.STDOUT, text=True, errors="replace")
    return p.returncode, p.stdout


class Ctx:
    """One run of one property's check."""

    def __init__(self, pid, tier, seed):
        self.pid = pid
        self.tier = tier
        self.seed = seed
        self.t0 = time.time()
        self.rng = Rng(seed ^ int(hashlib.sha256(pid.encode()).hexdigest()[:12], 16))
        self.violations = []        # (signature dict, replay path, no_input)
        self.known_hits = []
        self.obligations = 0
        self.discharged = 0
        self.theorems = []
        self.broken = []            # broken obligations (names / descriptions)
        self.evaluations = 0
        self.distinct = set()
        self.samples = []
        self.extra = {}
        self.assumptions = []
        self.trusted = [
            "Lean 4.33 kernel (lake build; thorough tier re-checks with leanchecker)",
            "axioms allowed: propext, Classical.choice, Quot.sound (audited with #print axioms; no native_decide/bv_decide/own axioms/sorry)",
            "correspondence harness + line-protocol driver (differential run of the Lean model's executable definitions against the code built from /repo's working tree)",
        ]
        self.checker_cmd = ""
        self.rule = ""
        self.known = load_known(pid)
        self.log_lines = []

    def log(self, *a):
        s = " ".join(str(x) for x in a)
        self.log_lines.append(s)
        print(s, flush=True)

    # ---- sampling / coverage ----
    def sample(self, obj, cap=12):
        if len(self.samples) < cap:
            self.samples.append(obj)

    def count(self, key):
        self.distinct.add(key)

    def hist(self, name, key, n=1):
        h = self.extra.setdefault(name, {})
        h[str(key)] = h.get(str(key), 0) + n

    # ---- violations ----
    def violation(self, signature, replay, no_input=False):
        """signature: dict identifying the failure class (matched against known_findings.jsonl).
        replay: JSON-serialisable object with the concrete failing input or the broken obligation."""
        for k in self.known:
            if k.get("status") == "known" and sig_match(k.get("signature", {}), signature):
                if k["what"] not in [h["what"] for h in self.known_hits]:
                    self.known_hits.append(k)
                return False
        os.makedirs(REPLAYS, exist_ok=True)
        blob = json.dumps({"property": self.pid, "signature": signature, "replay": replay,
                           "no_failing_input_found": no_input, "seed": self.seed, "tier": self.tier},
                          indent=1, sort_keys=True, default=str)
        h = hashlib.sha256(json.dumps(signature, sort_keys=True, default=str).encode()).hexdigest()[:10]
        path = os.path.join(REPLAYS, "%s-%s.json" % (self.pid, h))
        if not any(v[1] == path for v in self.violations):
            with open(path, "w") as f:
                f.write(blob + "\n")
            self.violations.append((signature, path, no_input))
        return True

    def finish(self, level="proof"):
        wall = time.time() - self.t0
        cov = {
            "obligations": self.obligations,
            "discharged": self.discharged,
            "checker_cmd": self.checker_cmd,
            "trusted_base": self.trusted,
            "theorems": self.theorems,
            "broken_obligations": self.broken,
            "evaluations": self.evaluations,
            "distinct_nontrivial": len(self.distinct),
            "rule": self.rule,
            "samples": self.samples if self.samples else ["(none)"],
        }
        cov.update(self.extra)
        ev = {
            "property_id": self.pid,
            "tier": self.tier,
            "seed": self.seed,
            "level": level,
            "coverage": cov,
            "assumptions": self.assumptions,
            "wall_s": round(wall, 2),
            "violations": len(self.violations),
            "known_findings_hit": [k["what"] for k in self.known_hits],
        }
        os.makedirs(EVIDENCE, exist_ok=True)
        with open(os.path.join(EVIDENCE, self.pid + ".json"), "w") as f:
            json.dump(ev, f, indent=1, default=str)
            f.write("\n")
        for k in self.known_hits:
            print("KNOWN-FINDING: property=%s %s" % (self.pid, k["what"]), flush=True)
        for sig, path, no_input in self.violations:
            print("VIOLATION property=%s replay=%s%s" % (self.pid, path, " no-failing-input-found" if no_input else ""), flush=True)
        print("%s %s: obligations %d/%d, %d evaluations (%d distinct non-trivial), %d violations, %d known findings, %.1fs"
              % (self.pid, self.tier, self.discharged, self.obligations, self.evaluations, len(self.distinct),
                 len(self.violations), len(self.known_hits), wall), flush=True)
        return 1 if self.violations else 0


def sig_match(known_sig, sig):
    """every key of the known signature must be present and equal (regex if value starts with 're:')"""
    for k, v in known_sig.items():
        if k not in sig:
            return False
        sv = str(sig[k])
        if isinstance(v, str) and v.startswith("re:"):
            if not re.fullmatch(v[3:], sv):
                return False
        elif str(v) != sv:
            return False
    return True


def load_known(pid):
    out = []
    files = [KNOWN] if os.path.exists(KNOWN) else []
    kd = os.path.join(VERIF, "known_findings.d")
    if os.path.isdir(kd):
        files += [os.path.join(kd, f) for f in sorted(os.listdir(kd)) if f.endswith(".jsonl")]
    for fn in files:
        for line in open(fn):
            line = line.strip()
            if not line or line.startswith("#"):
                continue
            d = json.loads(line)
            if d.get("property") == pid:
                out.append(d)
    return out


# ---------------------------------------------------------------- Lean side

def strip_lean_comments(src):
    out = []
    i = 0
    depth = 0
    n = len(src)
    while i < n:
        if src.startswith("/-", i):
            depth += 1
            i += 2
        elif depth > 0 and src.startswith("-/", i):
            depth -= 1
            i += 2
        elif depth > 0:
            i += 1
        elif src.startswith("--", i):
            j = src.find("\n", i)
            i = n if j < 0 else j
        else:
            out.append(src[i])
            i += 1
    return "".join(out)


def lean_forbidden(files):
    bad = []
    for f in files:
        src = strip_lean_comments(open(f).read())
        for m in FORBIDDEN_RE.finditer(src):
            bad.append("%s: %s" % (os.path.relpath(f, LEAN), m.group(0).strip()))
    return bad


def lean_files():
    out = []
    for root, _, fs in os.walk(os.path.join(LEAN, "TinyVerif")):
        for f in fs:
            if f.endswith(".lean"):
                out.append(os.path.join(root, f))
    return sorted(out)


THEOREM_RE = re.compile(r"^(?:@\[[^\]]*\]\s*)?(?:protected\s+|private\s+)?theorem\s+([A-Za-z_][\w'.]*)", re.M)
EXAMPLE_RE = re.compile(r"^example\b", re.M)
NS_RE = re.compile(r"^namespace\s+(\S+)", re.M)


def lean_prove(ctx, module, drivers=(), extra_modules=(), more_props=()):
    """Build the property's theorem module (+ drivers), audit axioms of every theorem in it (and in each
    module of `more_props`: further property-level theorem files of the same property), count
    obligations.  Returns True when everything is discharged."""
    mods = [module] + list(more_props)
    targets = mods + list(extra_modules) + list(drivers)
    ctx.checker_cmd = "cd %s && lake build %s && lake env lean <generated #print axioms audit>" % (LEAN, " ".join(targets))
    t = time.time()
    rc, out = sh(["lake", "build"] + targets, cwd=LEAN, timeout=3000)
    ctx.extra["lean_build_s"] = round(time.time() - t, 1)
    per = []
    ctx.theorems = []
    nex_all = 0
    for mod in mods:
        path = os.path.join(LEAN, mod.replace(".", "/") + ".lean")
        src = strip_lean_comments(open(path).read())
        ns = NS_RE.search(src)
        ns = ns.group(1) if ns else ""
        thms = THEOREM_RE.findall(src)
        nex = len(EXAMPLE_RE.findall(src))
        ctx.obligations += len(thms) + nex
        ctx.theorems += thms
        nex_all += nex
        per.append((mod, ns, thms, nex))
    ctx.extra["non_vacuity_examples"] = nex_all
    ok = True
    if rc != 0:
        ok = False
        errs = [l for l in out.splitlines() if "error" in l][:20]
        ctx.broken.append({"lake_build_failed": targets, "errors": errs})
        ctx.log("LEAN BUILD FAILED:\n" + "\n".join(out.splitlines()[-40:]))
        return False
    bad = lean_forbidden(lean_files())
    if bad:
        ok = False
        ctx.broken.append({"forbidden_constructs": bad})
    # axiom audit
    axioms_used = set()
    for mod, ns, thms, nex in per:
        audit = "import %s\n" % mod
        if ns:
            audit += "open %s\n" % ns
        for th in thms:
            audit += "#print axioms %s\n" % (("%s.%s" % (ns, th)) if ns else th)
        os.makedirs(os.path.join(LEAN, ".audit"), exist_ok=True)
        apath = os.path.join(LEAN, ".audit", mod.split(".")[-1] + ".lean")
        open(apath, "w").write(audit)
        rc, out = sh(["lake", "env", "lean", apath], cwd=LEAN, timeout=1200)
        audited = 0
        mod_ax = set()
        for m in re.finditer(r"'([^']+)' (depends on axioms: \[([^\]]*)\]|does not depend on any axioms)", out.replace("\n", " ")):
            audited += 1
            if m.group(3):
                for a in m.group(3).split(","):
                    mod_ax.add(a.strip())
        axioms_used |= mod_ax
        extra_ax = sorted(a for a in mod_ax if a not in ALLOWED_AXIOMS)
        mod_ok = True
        if rc != 0 or audited != len(thms) or extra_ax:
            ok = mod_ok = False
            ctx.broken.append({"axiom_audit": {"module": mod, "rc": rc, "audited": audited, "expected": len(thms), "disallowed": extra_ax,
                                               "tail": out.splitlines()[-5:]}})
        if mod_ok and not bad:
            ctx.discharged += len(thms) + nex
    ctx.extra["axioms_used"] = sorted(axioms_used)
    if ctx.tier == "thorough" and ok:
        for mod in mods:
            rc, out = sh(["lake", "env", "leanchecker", mod], cwd=LEAN, timeout=3000)
            ctx.extra["leanchecker_rc"] = max(rc, ctx.extra.get("leanchecker_rc", 0))
            ctx.obligations += 1
            if rc == 0:
                ctx.discharged += 1
            else:
                ok = False
                ctx.broken.append({"leanchecker": [mod] + out.splitlines()[-5:]})
    return ok


def driver_path(name):
    return os.path.join(LEAN, ".lake", "build", "bin", name)


# ---------------------------------------------------------------- Rust side

def cargo_build(ctx, pkg, release=False, features=None, rustflags=None, workspace=HARNESS, bin=None, extra_env=None, target_dir=None, label=None):
    """target_dir: build into this directory (CARGO_TARGET_DIR) and return the executable there — build variants
    (other RUSTFLAGS) keep their own cache and never invalidate the workspace's"""
    cmd = ["cargo", "build", "--offline", "-q", "-p", pkg]
    if release:
        cmd.append("--release")
    if features:
        cmd += ["--features", ",".join(features)]
    env = {}
    if rustflags is not None:
        env["RUSTFLAGS"] = rustflags
    if extra_env:
        env.update(extra_env)
    if target_dir is not None:
        env["CARGO_TARGET_DIR"] = target_dir
    t = time.time()
    for attempt in range(6):
        rc, out = sh(cmd, cwd=workspace, env=env, timeout=3000)
        # another builder's half-written crate makes the whole workspace manifest fail to load: retry shortly
        if rc != 0 and ("failed to load manifest for workspace member" in out or "failed to read" in out) and pkg not in out.split("Caused by")[0]:
            time.sleep(10)
            continue
        break
    ctx.extra.setdefault("cargo_build_s", {})["%s%s%s" % (pkg, "-release" if release else "", "-" + label if label else "")] = round(time.time() - t, 1)
    if rc != 0:
        tail = [l for l in out.splitlines() if l.strip()][-40:]
        return None, "\n".join(tail)
    return os.path.join(target_dir or os.path.join(workspace, "target"), "release" if release else "debug", bin or pkg), ""


# ---------------------------------------------------------------- build configuration as a dimension
# A property quantifies over the code HOWEVER IT IS BUILT: `#[cfg(target_feature = "sse4.2")]`, `cfg!(debug_assertions)`,
# `#[target_feature(enable = ..)]` select different code from the same source, and a harness built one way sees one
# of them.  cfg_dimensions() finds the configuration predicates the anchored files mention, build_variants() turns them
# (plus the standing `-C target-cpu=native` build) into extra harness builds the SAME streams and oracles are run on.

def strip_rust_comments(src):
    """// and (nested) /* */ comments removed; string, raw-string and char literals kept verbatim (a `//` inside a
    string is not a comment, a `"` inside a comment opens nothing)"""
    out = []
    i, n = 0, len(src)
    while i < n:
        c = src[i]
        if src.startswith("//", i):
            j = src.find("\n", i)
            i = n if j < 0 else j
        elif src.startswith("/*", i):
            depth, i = 1, i + 2
            while i < n and depth:
                if src.startswith("/*", i):
                    depth, i = depth + 1, i + 2
                elif src.startswith("*/", i):
                    depth, i = depth - 1, i + 2
                else:
                    if src[i] == "\n":
                        out.append("\n")
                    i += 1
            out.append(" ")
        elif c == '"':
            j = i + 1
            while j < n and src[j] != '"':
                j += 2 if src[j] == "\\" else 1
            out.append(src[i:j + 1])
            i = j + 1
        elif c == "r" and re.match(r'r#*"', src[i:i + 40]) and (i == 0 or not (src[i - 1].isalnum() or src[i - 1] == "_")):
            h = re.match(r'r(#*)"', src[i:i + 40]).group(1)
            j = src.find('"' + h, i + 2 + len(h))
            j = n if j < 0 else j + 1 + len(h)
            out.append(src[i:j])
            i = j
        elif c == "'":
            if i + 1 < n and src[i + 1] == "\\":
                j = src.find("'", i + 3)
                j = i + 1 if j < 0 else j + 1
                out.append(src[i:j])
                i = j
            elif i + 2 < n and src[i + 2] == "'":
                out.append(src[i:i + 3])
                i += 3
            else:
                out.append(c)
                i += 1
        else:
            out.append(c)
            i += 1
    return "".join(out)


def _balanced(src, i):
    """src[i] == '(' -> text between it and its matching ')'"""
    depth, j = 0, i
    while j < len(src):
        if src[j] == "(":
            depth += 1
        elif src[j] == ")":
            depth -= 1
            if depth == 0:
                return src[i + 1:j]
        elif src[j] == '"':
            j += 1
            while j < len(src) and src[j] != '"':
                j += 2 if src[j] == "\\" else 1
        j += 1
    return src[i + 1:]


CFG_WORDS_NOT_NAMES = {"all", "any", "not", "cfg", "cfg_attr"}


def rust_sources(paths, repo=None):
    """the .rs files named by `paths` (files, or directories searched recursively), relative to /repo"""
    repo = repo or REPO
    out = []
    for p in paths:
        full = p if os.path.isabs(p) else os.path.join(repo, p)
        if os.path.isdir(full):
            for root, _, fs in os.walk(full):
                out += [os.path.join(root, f) for f in fs if f.endswith(".rs")]
        elif os.path.isfile(full):
            out.append(full)
    return sorted(set(out))


def cfg_dimensions(paths, repo=None):
    """Compile-time (and run-time-detected) configuration predicates mentioned in the given source files / directories
    of /repo, comments stripped:
      target_features   {feature: [file:line how, ..]} from `target_feature = "x"` (cfg / cfg! / cfg_attr / cfg_if /
                        cfg_select, anywhere), `is_*_feature_detected!("x")`, `#[target_feature(enable = "x,y")]`
      debug_assertions, overflow_checks   mentioned at all (cfg or cfg!)
      panic             `panic = "abort|unwind"` values
      other             every other cfg name / name="value" with its count (feature="alloc", test, target_arch="x86_64", ..)
      env               env!/option_env! names (configuration read from the build environment)"""
    repo = repo or REPO
    d = {"files_scanned": 0, "target_features": {}, "runtime_detected": [], "enable_attr": [], "debug_assertions": [],
         "overflow_checks": [], "panic": [], "other": {}, "env": []}

    def at(f, src, pos):
        return "%s:%d" % (os.path.relpath(f, repo), src.count("\n", 0, pos) + 1)

    for f in rust_sources(paths, repo):
        try:
            src = strip_rust_comments(open(f, errors="replace").read())
        except OSError:
            continue
        d["files_scanned"] += 1
        for m in re.finditer(r'\btarget_feature\s*=\s*"([^"]*)"', src):
            d["target_features"].setdefault(m.group(1).strip(), []).append(at(f, src, m.start()) + " cfg")
        for m in re.finditer(r'\bis_\w+_feature_detected\s*!\s*\(\s*"([^"]*)"', src):
            d["target_features"].setdefault(m.group(1).strip(), []).append(at(f, src, m.start()) + " runtime-detected")
            d["runtime_detected"].append(m.group(1).strip())
        for m in re.finditer(r'\btarget_feature\s*\(\s*enable\s*=\s*"([^"]*)"', src):
            for x in m.group(1).split(","):
                if x.strip():
                    d["target_features"].setdefault(x.strip(), []).append(at(f, src, m.start()) + " enable-attribute")
                    d["enable_attr"].append(x.strip())
        for name in ("debug_assertions", "overflow_checks"):
            for m in re.finditer(r"\b%s\b" % name, src):
                d[name].append(at(f, src, m.start()))
        for m in re.finditer(r'\bpanic\s*=\s*"([^"]*)"', src):
            d["panic"].append(m.group(1))
        for m in re.finditer(r'\b(?:option_env|env)\s*!\s*\(\s*"([^"]*)"', src):
            d["env"].append(m.group(1))
        for m in re.finditer(r"\b(cfg_attr|cfg)\s*!?\s*\(", src):
            inner = _balanced(src, m.end() - 1)
            if m.group(1) == "cfg_attr":
                # only the predicate (up to the first top-level comma) is configuration
                depth = 0
                for k, ch in enumerate(inner):
                    depth += ch == "("
                    depth -= ch == ")"
                    if ch == "," and depth == 0:
                        inner = inner[:k]
                        break
            for n in re.finditer(r'\b([A-Za-z_][A-Za-z0-9_]*)\b(\s*=\s*"([^"]*)")?', inner):
                name = n.group(1)
                if name in CFG_WORDS_NOT_NAMES or name in ("target_feature", "debug_assertions", "overflow_checks", "panic"):
                    continue
                key = name + ('="%s"' % n.group(3) if n.group(2) else "")
                d["other"][key] = d["other"].get(key, 0) + 1
    for k in ("runtime_detected", "enable_attr", "panic", "env"):
        d[k] = sorted(set(d[k]))
    for lst in [d["debug_assertions"], d["overflow_checks"]] + list(d["target_features"].values()):
        if len(lst) > 8:
            lst[8:] = ["(+%d more)" % (len(lst) - 8)]
    return d


# rustc target-feature name -> the flag /proc/cpuinfo shows for it (where the spelling differs)
CPUINFO_NAME = {"sse4.2": "sse4_2", "sse4.1": "sse4_1", "sse3": "pni", "lzcnt": "abm", "cmpxchg16b": "cx16", "sha": "sha_ni",
                "pclmulqdq": "pclmulqdq", "rdrand": "rdrand", "rdseed": "rdseed", "avx512vpopcntdq": "avx512_vpopcntdq",
                "avx512vnni": "avx512_vnni", "avx512bitalg": "avx512_bitalg", "avx512vbmi2": "avx512_vbmi2", "avx512bf16": "avx512_bf16",
                "avx512fp16": "avx512_fp16", "xsave": "xsave", "xsaveopt": "xsaveopt", "xsavec": "xsavec", "xsaves": "xsaves"}
_host = {}


def host_features():
    """(features of the default target, features of `-C target-cpu=native`, /proc/cpuinfo flags or None)"""
    if not _host:
        def rustc_cfg(extra):
            rc, out = sh(["rustc", "--print", "cfg"] + extra)
            return set(re.findall(r'target_feature="([^"]+)"', out)) if rc == 0 else set()
        _host["default"] = rustc_cfg([])
        _host["native"] = rustc_cfg(["-C", "target-cpu=native"])
        try:
            m = re.search(r"^(?:flags|Features)\s*:\s*(.*)$", open("/proc/cpuinfo").read(), re.M)
            _host["cpuinfo"] = set(m.group(1).split()) if m else None
        except OSError:
            _host["cpuinfo"] = None
    return _host["default"], _host["native"], _host["cpuinfo"]


def feature_runnable(name):
    """can code compiled with `+name` run on this machine?  the compiler's view of the host CPU and the kernel's
    (/proc/cpuinfo) must both say yes (the kernel's only where it is available and the flag name is known)"""
    default, native, cpuinfo = host_features()
    if name in default:
        return True
    if name not in native:
        return False
    if cpuinfo is None:
        return True
    flag = CPUINFO_NAME.get(name, name.replace(".", "_").replace("-", "_"))
    return flag in cpuinfo or name.replace(".", "_") in cpuinfo or name in cpuinfo


def variant_target_dir(rustflags):
    return os.path.join(HARNESS, "target", "tf-" + hashlib.sha256(rustflags.encode()).hexdigest()[:10])


def build_variants(ctx, paths, native_quick=True, wider=()):
    """-> (dims, variants).  variants: dicts {tag, rustflags, release, why} of ADDITIONAL harness builds (beyond the
    workspace's dev and release profiles) on which a check runs its streams:
      * one per target feature the scanned files mention, and one with all of them (only features this CPU can run;
        features the default target already has are covered by the default build), in both profiles;
      * when debug_assertions / overflow_checks are mentioned: the two mixed settings the dev (both on) and release
        (both off) profiles do not give;
      * standing: `-C target-cpu=native`, release profile (quick when native_quick, else thorough only; thorough adds dev).
    `wider`: further directories scanned for target features only (a SIMD helper module next to the anchored files).
    Everything found is recorded in coverage.cfg_dimensions; what is mentioned but cannot be varied here is printed as a NOTE."""
    dims = cfg_dimensions(paths)
    if wider:
        w = cfg_dimensions(wider)
        dims["wider_scan"] = {"paths": list(wider), "files_scanned": w["files_scanned"],
                              "target_features": {k: v for k, v in w["target_features"].items() if k not in dims["target_features"]}}
        feats_src = dict(w["target_features"], **dims["target_features"])
    else:
        feats_src = dims["target_features"]
    default, native, _ = host_features()
    variants, not_runnable, baseline = [], [], []
    runnable = []
    for f in sorted(feats_src):
        if not re.fullmatch(r"[A-Za-z0-9_.\-]+", f):
            not_runnable.append(f)
        elif f in default:
            baseline.append(f)
        elif feature_runnable(f):
            runnable.append(f)
        else:
            not_runnable.append(f)
    singles = runnable[:6]
    for f in singles:
        for rel in (True, False):
            variants.append({"tag": "tf+%s-%s" % (f, "release" if rel else "debug"), "rustflags": "-C target-feature=+%s" % f, "release": rel,
                             "why": "target feature %s mentioned at %s" % (f, ", ".join(feats_src[f][:3]))})
    if len(runnable) > 1:
        fl = "-C target-feature=" + ",".join("+" + f for f in runnable)
        for rel in (True, False):
            variants.append({"tag": "tf+all-%s" % ("release" if rel else "debug"), "rustflags": fl, "release": rel,
                             "why": "all mentioned target features together"})
    if dims["debug_assertions"] or dims["overflow_checks"]:
        variants.append({"tag": "opt-da_on-oc_off", "rustflags": "-C debug-assertions=on -C overflow-checks=off", "release": True,
                         "why": "debug_assertions / overflow_checks mentioned: optimised, debug assertions ON, overflow checks off"})
        variants.append({"tag": "dev-da_off-oc_on", "rustflags": "-C debug-assertions=off -C overflow-checks=on", "release": False,
                         "why": "debug_assertions / overflow_checks mentioned: unoptimised, debug assertions OFF, overflow checks on"})
    if native_quick or ctx.tier != "quick":
        variants.append({"tag": "native-release", "rustflags": "-C target-cpu=native", "release": True,
                         "why": "standing variant: every target feature of this CPU enabled (%d features beyond the default %d)" % (len(native - default), len(default))})
        if ctx.tier != "quick":
            variants.append({"tag": "native-debug", "rustflags": "-C target-cpu=native", "release": False, "why": "standing variant, dev profile"})
    for v in variants:
        v["target_dir"] = variant_target_dir(v["rustflags"])
    not_varied = []
    if not_runnable:
        not_varied.append("target features mentioned but not runnable on this CPU: " + ", ".join(not_runnable))
    if baseline:
        not_varied.append("target features of the default target (their absence cannot be built): " + ", ".join(baseline))
    if dims["runtime_detected"]:
        not_varied.append("run-time detected features (%s): every build runs the side this CPU selects; the other side is not run" % ", ".join(dims["runtime_detected"]))
    if dims["panic"]:
        not_varied.append("panic = %s: the harness needs unwinding, panic=abort builds are not run" % "/".join(dims["panic"]))
    if dims["env"]:
        not_varied.append("build-environment reads (env!/option_env!): " + ", ".join(dims["env"]))
    arch = sorted(k for k in dims["other"] if k.startswith(("target_arch", "target_os", "target_pointer_width", "target_endian", "target_env", "target_vendor", "target_family", "target_abi", "target_has_atomic", "unix", "windows")))
    if arch:
        not_varied.append("target predicates (only this host's target x86_64-unknown-linux-gnu is built): " + ", ".join(arch))
    dims["not_varied"] = not_varied
    dims["variants"] = [{k: v[k] for k in ("tag", "rustflags", "release", "why")} for v in variants]
    dims["profiles"] = "dev (debug_assertions + overflow_checks on, opt-level 0) and release (both off, opt-level 2) always"
    ctx.extra["cfg_dimensions"] = dims
    ctx.assumptions.append(
        "the model has no notion of build configuration (profile, target features, cfg predicates — it is ONE body): that the source behaves "
        "like the model however it is built is established, by running the same streams and oracles, for exactly these builds: dev profile "
        "(debug_assertions and overflow checks on), release profile (both off)%s.  Scanned for configuration predicates: %s%s; found: target features {%s}, "
        "debug_assertions %s, overflow_checks %s, other cfg names {%s} (coverage.cfg_dimensions).  NOT covered: %s" % (
            "".join(", %s (RUSTFLAGS='%s', %s)" % (v["tag"], v["rustflags"], "release" if v["release"] else "dev") for v in variants),
            ", ".join(paths), (" and, for target features only, " + ", ".join(wider)) if wider else "",
            ", ".join(sorted(feats_src)) or "none", "mentioned" if dims["debug_assertions"] else "not mentioned",
            "mentioned" if dims["overflow_checks"] else "not mentioned", ", ".join(sorted(dims["other"])) or "none",
            "; ".join(not_varied + ["any target other than this host's x86_64-unknown-linux-gnu; cargo feature sets other than the harness's; "
                                    "code selected by a target feature this scan did not see (e.g. inside a dependency or generated by a macro) beyond what -C target-cpu=native enables"])))
    ctx.trusted.append("rustc --print cfg (default and -C target-cpu=native) and /proc/cpuinfo decide which target features can run on this machine")
    for nv in not_varied:
        ctx.log("NOTE cfg dimension not varied: " + nv)
    if [v for v in variants if not v["tag"].startswith("native")]:
        ctx.log("cfg dimensions: extra build variants " + ", ".join(v["tag"] for v in variants))
    return dims, variants


def variant_build(ctx, pkg, v, **kw):
    """build `pkg` of the harness workspace as variant v -> (exe, err, how)"""
    exe, err = cargo_build(ctx, pkg, release=v["release"], rustflags=v["rustflags"], target_dir=v["target_dir"], label=v["tag"], **kw)
    how = "cd %s && RUSTFLAGS='%s' CARGO_TARGET_DIR=%s cargo build --offline -p %s%s" % (
        kw.get("workspace", HARNESS), v["rustflags"], v["target_dir"], pkg, " --release" if v["release"] else "")
    return exe, err, how


def run_filter(cmd, lines, timeout=600, cwd=None, env=None):
    """Feed `lines` to a line filter; return its output lines (one per input line expected)."""
    e = dict(os.environ)
    if env:
        e.update(env)
    p = subprocess.run(cmd, input="\n".join(lines) + "\n", stdout=subprocess.PIPE, stderr=subprocess.PIPE,
                       text=True, errors="replace", timeout=timeout, cwd=cwd, env=e)
    return p.returncode, p.stdout.splitlines(), p.stderr


def correspond(ctx, name, cases, impl_cmd, model_cmd, judge, sig_of=None, timeout=900, env=None, variant=None, model_cache=None):
    """Run implementation and model on the same case lines and compare line by line.
    judge(case, impl_out) -> None if the implementation's output satisfies the property's own
    spec for that case, else a short reason (an implementation-vs-spec failure).
    A disagreement where the implementation satisfies the spec is a model/correspondence break
    (reported with no-failing-input-found unless some other case fails the spec).
    variant: {tag, rustflags, how} when impl_cmd is a build variant of the harness (build_variants): the tag becomes part of
    the failure signature, the build command (with its RUSTFLAGS) part of how_to_replay.
    model_cache: dict shared by the runs of one check; the model's answers to an identical list of lines are reused (the
    model has no build configuration: the variants are compared with the very same model output)."""
    rc_i, impl, err_i = run_filter(impl_cmd, cases, timeout=timeout, env=env)
    key = None
    if model_cache is not None:
        key = (tuple(model_cmd), len(cases), hashlib.sha256("\n".join(cases).encode()).hexdigest())
    if key is not None and key in model_cache:
        rc_m, model, err_m = model_cache[key]
    else:
        rc_m, model, err_m = run_filter(model_cmd, cases, timeout=timeout)
        if key is not None and len(model) == len(cases):
            model_cache[key] = (rc_m, model, err_m)
    ctx.evaluations += len(cases)
    st = ctx.extra.setdefault("streams", {})
    st[name] = {"cases": len(cases), "disagreements": 0, "spec_failures": 0}
    if len(impl) != len(cases):
        # the implementation died (abort/segfault/hang): bisect to the first case that kills it
        idx = len(impl)
        ctx.violation({"stream": name, "kind": "impl-crash", "case": cases[idx] if idx < len(cases) else "?"},
                      {"stream": name, "case_index": idx, "case": cases[idx] if idx < len(cases) else None,
                       "impl_rc": rc_i, "stderr_tail": err_i.splitlines()[-5:], "build_variant": variant,
                       "how_to_replay": "%secho '%s' | %s" % ((variant["how"] + " && ") if variant else "", cases[idx] if idx < len(cases) else "", " ".join(impl_cmd))})
        return False
    if len(model) != len(cases):
        ctx.broken.append({"driver_failed": name, "rc": rc_m, "stderr": err_m.splitlines()[-5:]})
        ctx.violation({"stream": name, "kind": "driver-failed"}, {"stream": name, "driver_rc": rc_m,
                      "stderr": err_m.splitlines()[-5:]}, no_input=True)
        return False
    spec_fail = []
    disagree = []
    for i, (c, a, b) in enumerate(zip(cases, impl, model)):
        why = judge(c, a) if judge else None
        if why:
            spec_fail.append((i, c, a, b, why))
        if a != b:
            disagree.append((i, c, a, b))
    st[name]["disagreements"] = len(disagree)
    st[name]["spec_failures"] = len(spec_fail)
    for (i, c, a, b, why) in spec_fail[:50]:
        sig = sig_of(c, a, why) if sig_of else {"stream": name, "case": c}
        rp = {"stream": name, "case_index": i, "case": c, "implementation": a, "model": b, "why": why,
              "how_to_replay": "echo '%s' | %s" % (c, " ".join(impl_cmd))}
        if variant:
            # a failure class the standard builds already showed is not specific to the variant: one report is enough
            # (nor is a second variant showing the class the first variant showed)
            if any({k: x for k, x in v[0].items() if k != "variant"} == sig for v in ctx.violations):
                continue
            # the failure belongs to ONE way of building the same source: name it, and say how to build it
            sig = dict(sig, variant=variant["tag"])
            rp["build_variant"] = {"tag": variant["tag"], "RUSTFLAGS": variant["rustflags"], "profile": "release" if variant.get("release") else "dev"}
            rp["how_to_replay"] = variant["how"] + " && " + rp["how_to_replay"]
        ctx.violation(sig, rp)
    if disagree and not spec_fail:
        (i, c, a, b) = disagree[0]
        ctx.broken.append({"correspondence": name, "first_disagreement": {"case": c, "implementation": a, "model": b},
                           "count": len(disagree)})
        ctx.violation({"stream": name, "kind": "model-disagreement"},
                      {"broken_correspondence": name, "first_disagreement": {"case_index": i, "case": c, "implementation": a, "model": b},
                       "count": len(disagree), "build_variant": variant,
                       "note": "implementation output satisfies the spec oracle on every explored case; the model no longer describes the code"},
                      no_input=True)
    return not disagree and not spec_fail


def repo_head():
    rc, out = sh(["git", "-C", REPO, "rev-parse", "--short", "HEAD"])
    rc2, st = sh(["git", "-C", REPO, "status", "--porcelain", "--untracked-files=no"])
    return out.strip() + ("+dirty" if st.strip() else "")
