"""Shared machinery for /verif/bin/check: Lean build + axiom audit, harness build,
line-protocol correspondence, violation / known-finding protocol, evidence writer.
Python 3 stdlib only."""
import hashlib
import json
import os
import re
import subprocess
import sys
import time

VERIF = os.path.dirname(os.path.dirname(os.path.abspath(__file__)))
REPO = os.environ.get("VERIF_REPO", "/repo")
LEAN = os.path.join(VERIF, "lean")
HARNESS = os.path.join(VERIF, "harness")
EVIDENCE = os.path.join(VERIF, "evidence")
REPLAYS = os.path.join(VERIF, "replays")
KNOWN = os.path.join(VERIF, "known_findings.jsonl")
GUARD_CFG = "tiny_std_verif"

ALLOWED_AXIOMS = {"propext", "Classical.choice", "Quot.sound"}
FORBIDDEN_RE = re.compile(r"\bsorry\b|\badmit\b|^\s*axiom\s|native_decide|bv_decide|implemented_by|\bunsafe\s|maxHeartbeats\s+0\b", re.M)

CARGO_ENV = {"CARGO_NET_OFFLINE": "true", "CARGO_TERM_COLOR": "never"}


class Rng:
    """splitmix64 — every random choice of a check derives from VERIF_SEED through this."""

    def __init__(self, seed):
        self.s = seed & 0xFFFFFFFFFFFFFFFF

    def next(self):
        self.s = (self.s + 0x9E3779B97F4A7C15) & 0xFFFFFFFFFFFFFFFF
        z = self.s
        z = ((z ^ (z >> 30)) * 0xBF58476D1CE4E5B9) & 0xFFFFFFFFFFFFFFFF
        z = ((z ^ (z >> 27)) * 0x94D049BB133111EB) & 0xFFFFFFFFFFFFFFFF
        return z ^ (z >> 31)

    def below(self, n):
        return self.next() % n if n > 0 else 0

    def range(self, lo, hi):
        """inclusive"""
        return lo + self.below(hi - lo + 1)

    def choice(self, xs):
        return xs[self.below(len(xs))]

    def chance(self, num, den):
        return self.below(den) < num

    def shuffle(self, xs):
        xs = list(xs)
        for i in range(len(xs) - 1, 0, -1):
            j = self.below(i + 1)
            xs[i], xs[j] = xs[j], xs[i]
        return xs

    def bytes(self, n, alphabet=None):
        if alphabet is None:
            return bytes(self.below(256) for _ in range(n))
        return bytes(self.choice(alphabet) for _ in range(n))


def hexs(b):
    return b.hex() if len(b) else "-"


def unhex(s):
    return b"" if s == "-" else bytes.fromhex(s)


def sh(cmd, cwd=None, env=None, timeout=None, input=None):
    e = dict(os.environ)
    e.update(CARGO_ENV)
    if env:
        e.update(env)
    p = subprocess.run(cmd, cwd=cwd, env=e, timeout=timeout, input=input,
                       stdout=subprocess.PIPE, stderr=subprocess.STDOUT, text=True, errors="replace")
    return p.returncode, p.stdout


class Ctx:
    """One run of one property's check."""

    def __init__(self, pid, tier, seed):
        self.pid = pid
        self.tier = tier
        self.seed = seed
        self.t0 = time.time()
        self.rng = Rng(seed ^ int(hashlib.sha256(pid.encode()).hexdigest()[:12], 16))
        self.violations = []        # (signature dict, replay path, no_input)
        self.known_hits = []
        self.obligations = 0
        self.discharged = 0
        self.theorems = []
        self.broken = []            # broken obligations (names / descriptions)
        self.evaluations = 0
        self.distinct = set()
        self.samples = []
        self.extra = {}
        self.assumptions = []
        self.trusted = [
            "Lean 4.33 kernel (lake build; thorough tier re-checks with leanchecker)",
            "axioms allowed: propext, Classical.choice, Quot.sound (audited with #print axioms; no native_decide/bv_decide/own axioms/sorry)",
            "correspondence harness + line-protocol driver (differential run of the Lean model's executable definitions against the code built from /repo's working tree)",
        ]
        self.checker_cmd = ""
        self.rule = ""
        self.known = load_known(pid)
        self.log_lines = []

    def log(self, *a):
        s = " ".join(str(x) for x in a)
        self.log_lines.append(s)
        print(s, flush=True)

    # ---- sampling / coverage ----
    def sample(self, obj, cap=12):
        if len(self.samples) < cap:
            self.samples.append(obj)

    def count(self, key):
        self.distinct.add(key)

    def hist(self, name, key, n=1):
        h = self.extra.setdefault(name, {})
        h[str(key)] = h.get(str(key), 0) + n

    # ---- violations ----
    def violation(self, signature, replay, no_input=False):
        """signature: dict identifying the failure class (matched against known_findings.jsonl).
        replay: JSON-serialisable object with the concrete failing input or the broken obligation."""
        for k in self.known:
            if k.get("status") == "known" and sig_match(k.get("signature", {}), signature):
                if k["what"] not in [h["what"] for h in self.known_hits]:
                    self.known_hits.append(k)
                return False
        os.makedirs(REPLAYS, exist_ok=True)
        blob = json.dumps({"property": self.pid, "signature": signature, "replay": replay,
                           "no_failing_input_found": no_input, "seed": self.seed, "tier": self.tier},
                          indent=1, sort_keys=True, default=str)
        h = hashlib.sha256(json.dumps(signature, sort_keys=True, default=str).encode()).hexdigest()[:10]
        path = os.path.join(REPLAYS, "%s-%s.json" % (self.pid, h))
        if not any(v[1] == path for v in self.violations):
            with open(path, "w") as f:
                f.write(blob + "\n")
            self.violations.append((signature, path, no_input))
        return True

    def finish(self, level="proof"):
        wall = time.time() - self.t0
        cov = {
            "obligations": self.obligations,
            "discharged": self.discharged,
            "checker_cmd": self.checker_cmd,
            "trusted_base": self.trusted,
            "theorems": self.theorems,
            "broken_obligations": self.broken,
            "evaluations": self.evaluations,
            "distinct_nontrivial": len(self.distinct),
            "rule": self.rule,
            "samples": self.samples if self.samples else ["(none)"],
        }
        cov.update(self.extra)
        ev = {
            "property_id": self.pid,
            "tier": self.tier,
            "seed": self.seed,
            "level": level,
            "coverage": cov,
            "assumptions": self.assumptions,
            "wall_s": round(wall, 2),
            "violations": len(self.violations),
            "known_findings_hit": [k["what"] for k in self.known_hits],
        }
        os.makedirs(EVIDENCE, exist_ok=True)
        with open(os.path.join(EVIDENCE, self.pid + ".json"), "w") as f:
            json.dump(ev, f, indent=1, default=str)
            f.write("\n")
        for k in self.known_hits:
            print("KNOWN-FINDING: property=%s %s" % (self.pid, k["what"]), flush=True)
        for sig, path, no_input in self.violations:
            print("VIOLATION property=%s replay=%s%s" % (self.pid, path, " no-failing-input-found" if no_input else ""), flush=True)
        print("%s %s: obligations %d/%d, %d evaluations (%d distinct non-trivial), %d violations, %d known findings, %.1fs"
              % (self.pid, self.tier, self.discharged, self.obligations, self.evaluations, len(self.distinct),
                 len(self.violations), len(self.known_hits), wall), flush=True)
        return 1 if self.violations else 0


def sig_match(known_sig, sig):
    """every key of the known signature must be present and equal (regex if value starts with 're:')"""
    for k, v in known_sig.items():
        if k not in sig:
            return False
        sv = str(sig[k])
        if isinstance(v, str) and v.startswith("re:"):
            if not re.fullmatch(v[3:], sv):
                return False
        elif str(v) != sv:
            return False
    return True


def load_known(pid):
    out = []
    files = [KNOWN] if os.path.exists(KNOWN) else []
    kd = os.path.join(VERIF, "known_findings.d")
    if os.path.isdir(kd):
        files += [os.path.join(kd, f) for f in sorted(os.listdir(kd)) if f.endswith(".jsonl")]
    for fn in files:
        for line in open(fn):
            line = line.strip()
            if not line or line.startswith("#"):
                continue
            d = json.loads(line)
            if d.get("property") == pid:
                out.append(d)
    return out


# ---------------------------------------------------------------- Lean side

def strip_lean_comments(src):
    out = []
    i = 0
    depth = 0
    n = len(src)
    while i < n:
        if src.startswith("/-", i):
            depth += 1
            i += 2
        elif depth > 0 and src.startswith("-/", i):
            depth -= 1
            i += 2
        elif depth > 0:
            i += 1
        elif src.startswith("--", i):
            j = src.find("\n", i)
            i = n if j < 0 else j
        else:
            out.append(src[i])
            i += 1
    return "".join(out)


def lean_forbidden(files):
    bad = []
    for f in files:
        src = strip_lean_comments(open(f).read())
        for m in FORBIDDEN_RE.finditer(src):
            bad.append("%s: %s" % (os.path.relpath(f, LEAN), m.group(0).strip()))
    return bad


def lean_files():
    out = []
    for root, _, fs in os.walk(os.path.join(LEAN, "TinyVerif")):
        for f in fs:
            if f.endswith(".lean"):
                out.append(os.path.join(root, f))
    return sorted(out)


THEOREM_RE = re.compile(r"^(?:@\[[^\]]*\]\s*)?(?:protected\s+|private\s+)?theorem\s+([A-Za-z_][\w'.]*)", re.M)
EXAMPLE_RE = re.compile(r"^example\b", re.M)
NS_RE = re.compile(r"^namespace\s+(\S+)", re.M)


def lean_prove(ctx, module, drivers=(), extra_modules=(), more_props=()):
    """Build the property's theorem module (+ drivers), audit axioms of every theorem in it (and in each
    module of `more_props`: further property-level theorem files of the same property), count
    obligations.  Returns True when everything is discharged."""
    mods = [module] + list(more_props)
    targets = mods + list(extra_modules) + list(drivers)
    ctx.checker_cmd = "cd %s && lake build %s && lake env lean <generated #print axioms audit>" % (LEAN, " ".join(targets))
    t = time.time()
    rc, out = sh(["lake", "build"] + targets, cwd=LEAN, timeout=3000)
    ctx.extra["lean_build_s"] = round(time.time() - t, 1)
    per = []
    ctx.theorems = []
    nex_all = 0
    for mod in mods:
        path = os.path.join(LEAN, mod.replace(".", "/") + ".lean")
        src = strip_lean_comments(open(path).read())
        ns = NS_RE.search(src)
        ns = ns.group(1) if ns else ""
        thms = THEOREM_RE.findall(src)
        nex = len(EXAMPLE_RE.findall(src))
        ctx.obligations += len(thms) + nex
        ctx.theorems += thms
        nex_all += nex
        per.append((mod, ns, thms, nex))
    ctx.extra["non_vacuity_examples"] = nex_all
    ok = True
    if rc != 0:
        ok = False
        errs = [l for l in out.splitlines() if "error" in l][:20]
        ctx.broken.append({"lake_build_failed": targets, "errors": errs})
        ctx.log("LEAN BUILD FAILED:\n" + "\n".join(out.splitlines()[-40:]))
        return False
    bad = lean_forbidden(lean_files())
    if bad:
        ok = False
        ctx.broken.append({"forbidden_constructs": bad})
    # axiom audit
    axioms_used = set()
    for mod, ns, thms, nex in per:
        audit = "import %s\n" % mod
        if ns:
            audit += "open %s\n" % ns
        for th in thms:
            audit += "#print axioms %s\n" % (("%s.%s" % (ns, th)) if ns else th)
        os.makedirs(os.path.join(LEAN, ".audit"), exist_ok=True)
        apath = os.path.join(LEAN, ".audit", mod.split(".")[-1] + ".lean")
        open(apath, "w").write(audit)
        rc, out = sh(["lake", "env", "lean", apath], cwd=LEAN, timeout=1200)
        audited = 0
        mod_ax = set()
        for m in re.finditer(r"'([^']+)' (depends on axioms: \[([^\]]*)\]|does not depend on any axioms)", out.replace("\n", " ")):
            audited += 1
            if m.group(3):
                for a in m.group(3).split(","):
                    mod_ax.add(a.strip())
        axioms_used |= mod_ax
        extra_ax = sorted(a for a in mod_ax if a not in ALLOWED_AXIOMS)
        mod_ok = True
        if rc != 0 or audited != len(thms) or extra_ax:
            ok = mod_ok = False
            ctx.broken.append({"axiom_audit": {"module": mod, "rc": rc, "audited": audited, "expected": len(thms), "disallowed": extra_ax,
                                               "tail": out.splitlines()[-5:]}})
        if mod_ok and not bad:
            ctx.discharged += len(thms) + nex
    ctx.extra["axioms_used"] = sorted(axioms_used)
    if ctx.tier == "thorough" and ok:
        for mod in mods:
            rc, out = sh(["lake", "env", "leanchecker", mod], cwd=LEAN, timeout=3000)
            ctx.extra["leanchecker_rc"] = max(rc, ctx.extra.get("leanchecker_rc", 0))
            ctx.obligations += 1
            if rc == 0:
                ctx.discharged += 1
            else:
                ok = False
                ctx.broken.append({"leanchecker": [mod] + out.splitlines()[-5:]})
    return ok


def driver_path(name):
    return os.path.join(LEAN, ".lake", "build", "bin", name)


# ---------------------------------------------------------------- Rust side

def cargo_build(ctx, pkg, release=False, features=None, rustflags=None, workspace=HARNESS, bin=None, extra_env=None):
    cmd = ["cargo", "build", "--offline", "-q", "-p", pkg]
    if release:
        cmd.append("--release")
    if features:
        cmd += ["--features", ",".join(features)]
    env = {}
    if rustflags is not None:
        env["RUSTFLAGS"] = rustflags
    if extra_env:
        env.update(extra_env)
    t = time.time()
    for attempt in range(6):
        rc, out = sh(cmd, cwd=workspace, env=env, timeout=3000)
        # another builder's half-written crate makes the whole workspace manifest fail to load: retry shortly
        if rc != 0 and ("failed to load manifest for workspace member" in out or "failed to read" in out) and pkg not in out.split("Caused by")[0]:
            time.sleep(10)
            continue
        break
    ctx.extra.setdefault("cargo_build_s", {})["%s%s" % (pkg, "-release" if release else "")] = round(time.time() - t, 1)
    if rc != 0:
        tail = [l for l in out.splitlines() if l.strip()][-40:]
        return None, "\n".join(tail)
    return os.path.join(workspace, "target", "release" if release else "debug", bin or pkg), ""


def run_filter(cmd, lines, timeout=600, cwd=None, env=None):
    """Feed `lines` to a line filter; return its output lines (one per input line expected)."""
    e = dict(os.environ)
    if env:
        e.update(env)
    p = subprocess.run(cmd, input="\n".join(lines) + "\n", stdout=subprocess.PIPE, stderr=subprocess.PIPE,
                       text=True, errors="replace", timeout=timeout, cwd=cwd, env=e)
    return p.returncode, p.stdout.splitlines(), p.stderr


def correspond(ctx, name, cases, impl_cmd, model_cmd, judge, sig_of=None, timeout=900, env=None):
    """Run implementation and model on the same case lines and compare line by line.
    judge(case, impl_out) -> None if the implementation's output satisfies the property's own
    spec for that case, else a short reason (an implementation-vs-spec failure).
    A disagreement where the implementation satisfies the spec is a model/correspondence break
    (reported with no-failing-input-found unless some other case fails the spec)."""
    rc_i, impl, err_i = run_filter(impl_cmd, cases, timeout=timeout, env=env)
    rc_m, model, err_m = run_filter(model_cmd, cases, timeout=timeout)
    ctx.evaluations += len(cases)
    st = ctx.extra.setdefault("streams", {})
    st[name] = {"cases": len(cases), "disagreements": 0, "spec_failures": 0}
    if len(impl) != len(cases):
        # the implementation died (abort/segfault/hang): bisect to the first case that kills it
        idx = len(impl)
        ctx.violation({"stream": name, "kind": "impl-crash", "case": cases[idx] if idx < len(cases) else "?"},
                      {"stream": name, "case_index": idx, "case": cases[idx] if idx < len(cases) else None,
                       "impl_rc": rc_i, "stderr_tail": err_i.splitlines()[-5:]})
        return False
    if len(model) != len(cases):
        ctx.broken.append({"driver_failed": name, "rc": rc_m, "stderr": err_m.splitlines()[-5:]})
        ctx.violation({"stream": name, "kind": "driver-failed"}, {"stream": name, "driver_rc": rc_m,
                      "stderr": err_m.splitlines()[-5:]}, no_input=True)
        return False
    spec_fail = []
    disagree = []
    for i, (c, a, b) in enumerate(zip(cases, impl, model)):
        why = judge(c, a) if judge else None
        if why:
            spec_fail.append((i, c, a, b, why))
        if a != b:
            disagree.append((i, c, a, b))
    st[name]["disagreements"] = len(disagree)
    st[name]["spec_failures"] = len(spec_fail)
    for (i, c, a, b, why) in spec_fail[:50]:
        sig = sig_of(c, a, why) if sig_of else {"stream": name, "case": c}
        ctx.violation(sig, {"stream": name, "case_index": i, "case": c, "implementation": a, "model": b, "why": why,
                            "how_to_replay": "echo '%s' | %s" % (c, " ".join(impl_cmd))})
    if disagree and not spec_fail:
        (i, c, a, b) = disagree[0]
        ctx.broken.append({"correspondence": name, "first_disagreement": {"case": c, "implementation": a, "model": b},
                           "count": len(disagree)})
        ctx.violation({"stream": name, "kind": "model-disagreement"},
                      {"broken_correspondence": name, "first_disagreement": {"case_index": i, "case": c, "implementation": a, "model": b},
                       "count": len(disagree),
                       "note": "implementation output satisfies the spec oracle on every explored case; the model no longer describes the code"},
                      no_input=True)
    return not disagree and not spec_fail


def repo_head():
    rc, out = sh(["git", "-C", REPO, "rev-parse", "--short", "HEAD"])
    rc2, st = sh(["git", "-C", REPO, "status", "--porcelain", "--untracked-files=no"])
    return out.strip() + ("+dirty" if st.strip() else "")
