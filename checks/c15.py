"""C15 — Read/Write helpers exact for any pattern of short transfers, EINTR, errors.

Two passes over the real code: abstract cases (`gen ...`: a reader that hands out as much of its next piece as
fits, a writer that accepts up to k) are first *concretised* by the harness against /repo's code, which yields an
explicit response script plus the capacities the Vec really got; the concrete lines are then run through the
harness again and through the Lean model (`drv_c15`) and compared, and judged by the spec below (plain Python,
concatenation semantics, independent of the model)."""
import re
from . import common as C

H = C.hexs


# ------------------------------------------------------------------ case generation (abstract lines)

def compositions(n):
    """all ordered ways to write n as a sum of positive integers"""
    if n == 0:
        return [[]]
    out = []
    for first in range(1, n + 1):
        for rest in compositions(n - first):
            out.append([first] + rest)
    return out


def split(data, sizes):
    out, i = [], 0
    for s in sizes:
        out.append(data[i:i + s])
        i += s
    if i < len(data):
        out.append(data[i:])
    return [p for p in out if p]


def ptoks(pieces):
    return ["p" + p.hex() for p in pieces if p]


def rand_sizes(r, total, mx):
    out = []
    while total > 0:
        k = min(total, r.range(1, mx))
        out.append(k)
        total -= k
    return out


def seq(n, base=1):
    return bytes((base + i) % 251 + 1 for i in range(n))


def gen_reader_cases(ctx, thorough):
    r = ctx.rng
    cases = []

    def rte(init, cap, scr, toks, op="rte"):
        if cap >= len(init):
            cases.append("gen %s %s %d %d ? %s" % (op, H(init), cap, scr, " ".join(toks)))

    # A. every piece-size sequence for totals <= 6, capacities around the exact fit
    for total in range(0, 7):
        data = seq(total, 0x10)
        for comp in compositions(total):
            toks = ptoks(split(data, comp))
            for (il, cap) in [(0, 0), (0, total), (2, 2), (2, 2 + total - 1), (2, 2 + total), (2, 2 + total + 1)]:
                for scr in (0, 1):
                    rte(seq(il, 0x80), max(cap, il) if cap >= il else cap, scr, toks + (["z", "pffff"] if scr else []))
    # B. totals around the 32-byte growth / probe thresholds
    totals = [0, 1, 30, 31, 32, 33, 34, 62, 63, 64, 65, 66, 95, 96, 97, 128]
    for total in totals:
        data = seq(total, 3)
        for il in (0, 5):
            for cap in sorted(set([0 if il == 0 else il, il + total - 1, il + total, il + total + 1, il + 31, il + 32, il + 33])):
                if cap < il:
                    continue
                pats = [[total], [1] * total, [32] * 5, [31] * 5, [33] * 5, rand_sizes(r, total, 8), rand_sizes(r, total, 40)]
                if cap - il > 0:
                    pats.append([cap - il, 32, 1])          # fill the capacity exactly, then a full probe
                    pats.append([cap - il, 31])
                    pats.append([max(1, cap - il - 1), 1, 5])
                for sizes in pats:
                    rte(seq(il, 0x80), cap, r.below(2), ptoks(split(data, sizes)))
    # C/D. EINTR and errors at every position of scripts that go through main reads, the probe and growth
    bases = [(b"", 0, [3, 30, 7]), (seq(4, 0x80), 4 + 10, [10, 32, 5, 40]), (seq(2, 0x80), 2 + 6, [2, 4, 1, 1]), (seq(1, 0x80), 40, [33, 6, 2])]
    faults = ["i", "e4", "i i", "e5", "e11", "u", "z", "i z", "i e9"]
    for (init, cap, sizes) in bases:
        data = seq(sum(sizes), 7)
        toks = ptoks(split(data, sizes))
        for pos in range(len(toks) + 1):
            for f in faults:
                for scr in (0, 1):
                    rte(init, cap, scr, toks[:pos] + f.split() + toks[pos:])
    # E. random longer scripts
    n = 4000 if not thorough else 20000
    for _ in range(n):
        il = r.choice([0, 0, 1, 7, 31, 32, 33, r.below(80)])
        total = r.choice([0, 1, 5, 31, 32, 33, 64, r.below(200)])
        cap = il + r.choice([0, 0, 1, total, total, max(0, total - 1), total + 1, 32, r.below(100)])
        data = r.bytes(total)
        toks = ptoks(split(data, rand_sizes(r, total, r.choice([1, 3, 8, 40, 100]))))
        for _ in range(r.below(4)):
            toks.insert(r.below(len(toks) + 1), r.choice(["i", "i", "e4", "i"]))
        k = r.below(8)
        if k == 0:
            toks.insert(r.below(len(toks) + 1), r.choice(["e5", "e32", "u", "e104"]))
        elif k == 1:
            toks.insert(r.below(len(toks) + 1), "z")
        elif k == 2:
            toks.append("z")
            toks.append("p" + r.bytes(3).hex())
        rte(seq(il, 0x80), cap, r.below(2), toks)
    # G. malformed: a reader claiming more than it was offered (must panic, never corrupt)
    for _ in range(300 if not thorough else 1000):
        il = r.choice([0, 3, 32])
        total = r.choice([0, 4, 40])
        cap = il + r.choice([0, total, total + 1, 50])
        toks = ptoks(split(r.bytes(total), rand_sizes(r, total, 16)))
        toks.insert(r.below(len(toks) + 1), "x%d" % r.choice([5, 40]))
        if r.chance(1, 3):
            toks.insert(r.below(len(toks)), "i")
        rte(seq(il, 0x80), cap, r.below(2), toks, op=r.choice(["rte", "rts"]) if il == 0 else "rte")
    return cases


UTF8_SAMPLES = ["é", "€", "😀", "aé€😀z", "ßx€", "日本語", "߿ࠀ￿\U00010000\U0010ffff"]
INVALID = [b"\xff", b"\xc0\x80", b"\xed\xa0\x80", b"\xe2\x82", b"\xf0\x9f\x98", b"\xc3", b"\x80", b"\xf4\x90\x80\x80", b"\xe0\x80\x80"]


def gen_string_cases(ctx, thorough):
    r = ctx.rng
    cases = []

    def rts(init, cap, scr, toks):
        if cap >= len(init):
            cases.append("gen rts %s %d %d ? %s" % (H(init), cap, scr, " ".join(toks)))

    inits = [b"", "hé".encode()]
    # multi-byte sequences split at every byte boundary, with capacities around the exact fit
    for s in UTF8_SAMPLES:
        b = s.encode()
        for init in inits:
            il = len(init)
            for cap in sorted(set([il, il + len(b) - 1, il + len(b), il + len(b) + 1, il + 40])):
                for cut in range(1, len(b)):
                    rts(init, cap, cut % 2, ptoks([b[:cut], b[cut:]]))
                    rts(init, cap, 0, ptoks([b[:cut]]) + ["i"] + ptoks([b[cut:]]))
                rts(init, cap, 1, ptoks([b[i:i + 1] for i in range(len(b))]))
                rts(init, cap, 0, ptoks([b]))
    # every piece-size sequence of a 6-byte string made of a 2-, a 3- and a 1-byte scalar
    b6 = "é€a".encode()
    for comp in compositions(6):
        for (init, cap) in [(b"", 0), (b"", 6), (b"x", 7), (b"x", 6), (b"x", 8)]:
            rts(init, cap, 0, ptoks(split(b6, comp)))
    # invalid UTF-8 in the middle / at the end; errors with complete and incomplete data
    for bad in INVALID:
        for init in inits:
            il = len(init)
            for (pre, post) in [(b"", b""), (b"ab", b""), (b"ab", b"cd"), ("€".encode(), "é".encode()), (b"", b"z")]:
                data = pre + bad + post
                for cap in sorted(set([il, il + len(data), il + len(data) + 1, il + 35])):
                    rts(init, cap, 0, ptoks([data]))
                    rts(init, cap, 1, ptoks([data[i:i + 1] for i in range(len(data))]))
                    rts(init, cap, 0, ptoks([pre]) + ptoks([bad]) + ptoks([post]))
                    rts(init, cap, 0, ptoks([data]) + ["e5"])
    for s in UTF8_SAMPLES:
        b = s.encode()
        for cut in range(0, len(b) + 1):
            for f in ["e5", "u", "i e7", "z"]:
                rts(b"h", 1 + r.choice([0, len(b), 40]), 0, ptoks([b[:cut]]) + f.split() + ptoks([b[cut:]]))
    for _ in range(1500 if not thorough else 5000):
        s = "".join(r.choice(["a", "é", "€", "😀", "\u0000", "z"]) for _ in range(r.below(30)))
        b = s.encode()
        if r.chance(1, 4) and b:
            i = r.below(len(b))
            b = b[:i] + r.choice(INVALID) + b[i:]
        init = r.choice([b"", "hé".encode(), ("x" * 31).encode(), ("y" * 32).encode()])
        cap = len(init) + r.choice([0, len(b), len(b) + 1, max(0, len(b) - 1), 33])
        toks = ptoks(split(b, rand_sizes(r, len(b), r.choice([1, 2, 3, 5, 40]))))
        if r.chance(1, 3):
            toks.insert(r.below(len(toks) + 1), "i")
        if r.chance(1, 6):
            toks.insert(r.below(len(toks) + 1), r.choice(["e5", "u"]))
        rts(init, cap, r.below(2), toks)
    return cases


def gen_exact_cases(ctx, thorough):
    r = ctx.rng
    cases = []
    for n in range(0, 7):
        orig = bytes([0xCC]) * n
        for total in range(0, n + 2):
            data = seq(total, 0x20)
            for comp in compositions(total):
                cases.append("gen rex %s %s" % (H(orig), " ".join(ptoks(split(data, comp)))))
    for n in [1, 5, 31, 32, 33, 64, 100]:
        orig = bytes([0xCC]) * n
        data = seq(n, 9)
        base = ptoks(split(data, rand_sizes(r, n, 7)))[:12]
        for pos in range(len(base) + 1):
            for f in ["i", "e4", "e5", "u", "z", "i i e9", "x5", "x40"]:
                cases.append("gen rex %s %s" % (H(orig), " ".join(base[:pos] + f.split() + base[pos:])))
    for _ in range(2000 if not thorough else 10000):
        n = r.choice([0, 1, 2, 31, 32, 33, r.below(150)])
        total = max(0, n + r.choice([0, 0, 0, -1, 1, 5, -n]))
        toks = ptoks(split(r.bytes(total), rand_sizes(r, total, r.choice([1, 4, 50, 200]))))
        for _ in range(r.below(3)):
            toks.insert(r.below(len(toks) + 1), r.choice(["i", "e4"]))
        if r.chance(1, 6):
            toks.insert(r.below(len(toks) + 1), r.choice(["e5", "u", "z"]))
        cases.append("gen rex %s %s" % (H(bytes([0xCC]) * n), " ".join(toks)))
    return cases


def gen_writer_cases(ctx, thorough):
    r = ctx.rng
    cases = []
    for n in range(0, 7):
        data = seq(n, 0x30)
        for comp in compositions(n):
            cases.append("gen wall %s %s" % (H(data), " ".join("k%d" % k for k in comp)))
            cases.append("gen wall %s %s" % (H(data), " ".join("k%d" % k for k in comp[:-1])))
    for n in [1, 6, 31, 32, 33, 64]:
        data = seq(n, 0x30)
        base = ["k%d" % k for k in rand_sizes(r, n, 6)][:12]
        for pos in range(len(base) + 1):
            for f in ["i", "e4", "e5", "e32", "u", "k0", "i i", "i k0", "x5", "x1"]:
                cases.append("gen wall %s %s" % (H(data), " ".join(base[:pos] + f.split() + base[pos:])))
    for _ in range(2000 if not thorough else 10000):
        n = r.choice([0, 1, 31, 32, 33, r.below(200)])
        toks = ["k%d" % k for k in rand_sizes(r, n + r.below(10), r.choice([1, 5, 64, 300]))]
        for _ in range(r.below(3)):
            toks.insert(r.below(len(toks) + 1), r.choice(["i", "e4"]))
        if r.chance(1, 5):
            toks.insert(r.below(len(toks) + 1), r.choice(["e5", "u", "k0"]))
        cases.append("gen wall %s %s" % (H(r.bytes(n)), " ".join(toks)))
    # write_fmt: the formatting machinery issues one write_all per piece
    texts = ["", "a", "héllo wörld", "x=1 y=2", "€😀", "abcdef"]
    for t in texts:
        b = t.encode()
        cuts = [[b]] + [[b[:i], b[i:]] for i in range(1, len(b)) if _valid(b[:i]) and _valid(b[i:])]
        for items in cuts:
            its = ["s" + H(x) for x in items]
            for variant in (0, 1):
                for wt in ["", "k1 k1 k1 k1 k1 k1 k1 k1 k1 k1 k1 k1 k1 k1 k1 k1 k1 k1", "k2 i k100", "i e4 k3", "k1 e5", "e9", "k0", "k1 k0", "u", "k1 x5", "k300 k300 k300"]:
                    cases.append("gen wfmt %d %s / %s" % (variant, " ".join(its), wt))
                for pos in range(len(its) + 1):
                    cases.append("gen wfmt %d %s / k2 k2" % (variant, " ".join(its[:pos] + ["f"] + its[pos:])))
                    cases.append("gen wfmt %d %s / k2 k2" % (variant, " ".join(its[:pos] + ["s-"] + its[pos:])))
    # literal-only format strings (no run-time arguments): variants 2 and 3
    for variant in (2, 3):
        for wt in ["", "k1 k1 k1 k1 k1 k1 k1 k1 k1 k1 k1 k1 k1 k1 k1 k1 k1 k1 k1 k1", "k2 i k100", "i e4 k3 k200", "k1 e5", "e9", "k0", "k1 k0", "u", "k1 x5",
                   "k300", "k3 k300", "i i k300", "k70 k10"]:
            cases.append("gen wfmt %d / %s" % (variant, wt))
        for _ in range(40):
            toks = ["k%d" % r.choice([1, 2, 3, 7, 100]) for _ in range(r.range(1, 14))]
            for _ in range(r.below(3)):
                toks.insert(r.below(len(toks) + 1), r.choice(["i", "e4"]))
            cases.append("gen wfmt %d / %s" % (variant, " ".join(toks)))
    for _ in range(1000 if not thorough else 5000):
        items = []
        for _ in range(r.below(6)):
            items.append("s" + H("".join(r.choice(["a", "é", "€", "😀", " "]) for _ in range(r.below(12))).encode()))
        if r.chance(1, 6):
            items.insert(r.below(len(items) + 1), "f")
        toks = ["k%d" % r.choice([1, 2, 3, 7, 100]) for _ in range(r.below(12))]
        for _ in range(r.below(3)):
            toks.insert(r.below(len(toks) + 1), r.choice(["i", "e4"]))
        if r.chance(1, 5):
            toks.insert(r.below(len(toks) + 1), r.choice(["e5", "u", "k0", "x5"]))
        cases.append("gen wfmt %d %s / %s" % (r.below(2), " ".join(items), " ".join(toks)))
    return cases


# ------------------------------------------------------------------ the print macros (unix/print.rs)

PRT_BOUNDS = [0, 1, 31, 32, 33, 255, 256, 257, 4095, 4096, 70000]
PRT_KINDS = ["p", "P", "e", "E"]


def gen_print_cases(ctx, thorough):
    """`gen prt <kind> <tpl> <items> / <kernel tokens>`: the print!/println!/eprint!/eprintln!/dbg! macros under a scripted
    `write` system call.  Piece lengths around every buffer-ish boundary in every position, mixed with small pieces."""
    r = ctx.rng
    cases = []
    seedc = [0]

    def g(n):
        seedc[0] += 1
        return "g%d.%d" % (n, seedc[0] % 89)

    def shortw():
        """a script of short writes only"""
        m = r.choice([1, 3, 40, 300, 5000])
        return ["k%d" % r.range(1, m) for _ in range(r.range(1, 30))]

    def add(kind, tpl, args, toks):
        cases.append("gen prt %s %s %s / %s" % (kind, tpl, " , ".join(" ".join(a) for a in args), " ".join(toks)))

    rot = [0]

    def kind_rot():
        rot[0] += 1
        return PRT_KINDS[rot[0] % 4]

    # A. "{}" with two pieces: every pair of boundary lengths, every macro
    for x in PRT_BOUNDS:
        for y in PRT_BOUNDS:
            kinds = PRT_KINDS if max(x, y) <= 4096 else [kind_rot()]
            for k in kinds:
                add(k, "a", [[g(x), g(y)]], [])
                add(k, "a", [[g(x), g(y)]], shortw())
    # B. three pieces: every triple of the smaller boundary set, a big piece between small ones
    tri = [0, 1, 33, 255, 256, 257, 4096]
    for x in tri:
        for y in tri:
            for z in tri:
                add(kind_rot(), "a", [[g(x), g(y), g(z)]], shortw() if r.chance(1, 2) else [])
    for (x, y, z) in [(1, 70000, 1), (5, 70000, 300), (256, 70000, 256), (70000, 1, 70000)]:
        add(kind_rot(), "a", [[g(x), g(y), g(z)]], ["k65536", "k1", "k4096"])
    # C. templates with literal segments (short, 255/256/257, 4096), boundary-length arguments in each position
    small = [0, 3, 40, 300]
    for tpl in ["b", "c", "d"]:
        for x in PRT_BOUNDS[:-1] + [5000]:
            for y in small:
                for k in PRT_KINDS:
                    add(k, tpl, [[g(x)], [g(y)]], shortw() if r.chance(1, 2) else [])
                    add(k, tpl, [[g(y)], [g(x)]], shortw() if r.chance(1, 2) else [])
                add(kind_rot(), tpl, [[g(y), g(x), g(1)], [g(2), g(y)]], shortw())
    add("P", "b", [[g(1)], [g(70000)]], ["k1000"] * 5)
    add("e", "d", [[g(70000)], [g(2)]], ["k33000"] * 3)
    for k in PRT_KINDS:
        for tpl in ["n", "l", "s"]:
            for toks in [[], ["k1"] * 8, ["k299", "k1"], ["k256"], ["k255", "k1", "k1"], shortw()]:
                add(k, tpl, [[]], toks)
        for n in [0, 7, -1, -12, 1234567890123, -9223372036854775808, 9223372036854775807]:
            for s_ in ["", "x", "héllo", "€" * 100]:
                add(k, "g", [["n%d" % n, "s" + H(s_.encode())]], r.choice([[], ["k1"] * 12, shortw()]))
        add(k, "a", [[]], ["k1"])
        for t in UTF8_SAMPLES:
            add(k, "a", [["s" + H(t.encode()), g(255), "s" + H(t.encode())]], ["k1", "k2", "k1", "k3", "k250"])
    # D. dbg!
    for toks in [[], ["k1"] * 40, ["k26", "k1", "k1"], shortw()]:
        add("d", "n", [[]], toks)
        for x in PRT_BOUNDS[:-1]:
            add("d", "a", [[g(x)]], toks)
            add("d", "a", [[g(2), g(x), g(3)]], toks)
            add("d", "b", [[g(min(x, 300))], [g(x)]], toks)
    add("d", "a", [[g(70000)]], ["k20", "k65000"])
    # E. EINTR / errors / a zero return at every position of a short-write script
    bases = [("b", [[g(2)], [g(300)]], ["k2", "k1", "k1", "k5", "k100", "k250", "k2", "k2"]),
             ("a", [[g(3), g(256), g(2)]], ["k2", "k1", "k200", "k56", "k1", "k1"]),
             ("c", [[g(1)], [g(40)]], ["k255", "k1", "k100", "k156", "k40", "k257"]),
             ("a", [[g(0), g(5), g(0)]], ["k1", "k3", "k1", "k1", "k1"])]
    for (tpl, args, base) in bases:
        for pos in range(len(base) + 1):
            for f in ["i", "e4", "e5", "e32", "e11", "k0", "i i", "k0 k0"]:
                for k in ["p", "E"]:
                    add(k, tpl, args, base[:pos] + f.split() + base[pos:])
    for pos in range(6):
        for f in ["i", "e9", "k0"]:
            toks = ["k5", "k100", "k2", "k1", "k1"]
            add("d", "b", [[g(2)], [g(3)]], toks[:pos] + [f] + toks[pos:])
            add("P", "n", [[]], (["k1"] * pos + [f])[:2])
    # F. the Display impl itself failing
    for k in PRT_KINDS + ["d"]:
        for pos in range(4):
            items = [g(2), g(300), g(1)]
            add(k, "a", [items[:pos] + ["f"] + items[pos:]], shortw() if pos % 2 else [])
    # G. random
    def rand_item():
        c = r.below(10)
        if c < 5:
            return g(r.choice(PRT_BOUNDS[:-1]))
        if c < 8:
            return g(r.below(600))
        return "s" + H("".join(r.choice(["a", "é", "€", "😀", " ", "\n"]) for _ in range(r.below(12))).encode())

    for _ in range(1500 if not thorough else 8000):
        k = r.choice(PRT_KINDS + ["d"])
        if k == "d":
            tpl = r.choice(["a", "a", "b", "n"])
        else:
            tpl = r.choice(["a", "a", "a", "b", "b", "c", "d", "l", "s", "n"])
        nargs = {"a": 1, "b": 2, "c": 2, "d": 2}.get(tpl, 0)
        args = [[rand_item() for _ in range(r.below(5))] for _ in range(nargs)] or [[]]
        if r.chance(1, 25) and nargs:
            a = r.choice(args)
            a.insert(r.below(len(a) + 1), "f")
        toks = shortw() if r.chance(3, 4) else []
        c = r.below(10)
        if c == 0:
            toks.insert(r.below(len(toks) + 1), r.choice(["i", "e4", "e5", "e32"]))
        elif c == 1:
            toks.insert(r.below(len(toks) + 1), "k0")
        add(k, tpl, args, toks)

    def weight(line):
        return sum(int(m) for m in re.findall(r"\bg(\d+)\.", line))
    cases.sort(key=weight)          # smallest messages first: the first reported failing input is a small one
    return cases


def _valid(b):
    try:
        b.decode("utf-8")
        return True
    except UnicodeDecodeError:
        return False


# ------------------------------------------------------------------ the property's own spec (on concrete lines)

OUT_RE = re.compile(r"^(ok(?: \d+)?|err os \d+|err user|err uncat|panic) (buf|sink)=(\S+) used=(\d+)$")


def reader_spec(toks, limit=None):
    """what a conforming consumer must have received: (bytes, how it ended, tokens consumed, over-claim seen)"""
    got, used = b"", 0
    for t in toks:
        if limit is not None and len(got) >= limit:
            return got, "full", used, False
        used += 1
        if t[0] == "d":
            got += C.unhex(t[1:])
        elif t[0] == "D":
            return got, "over", used, True
        elif t == "z":
            return got, "eof", used, False
        elif t == "i" or t == "e4":
            continue
        elif t == "u":
            return got, "err user", used, False
        elif t[0] == "e":
            return got, "err os %d" % int(t[1:]), used, False
        else:
            return got, "bad", used, False
    if limit is not None and len(got) >= limit:
        return got, "full", used, False
    return got, "eof", used, False


def writer_spec(items, toks):
    """items: list of bytes or None (formatter failure).  Returns (sink, result, used)."""
    sink, used, it = b"", 0, iter(toks)
    for item in items:
        if item is None:
            return sink, "err uncat", used
        pos = 0
        while pos < len(item):
            t = next(it, None)
            if t is None:
                sink += item[pos:]
                pos = len(item)
                break
            used += 1
            if t[0] == "a":
                k = int(t[1:])
                if k == 0:
                    return sink, "err uncat", used
                sink += item[pos:pos + k]
                pos += k
            elif t[0] == "A":
                return sink + item[pos:], "panic", used
            elif t == "i" or t == "e4":
                continue
            elif t == "u":
                return sink, "err user", used
            elif t[0] == "e":
                return sink, "err os %d" % int(t[1:]), used
            else:
                return sink, "bad", used
    return sink, "ok", used


# ---- print macros: expected rendering and the "every byte once and in order" oracle

PRT_OUT_RE = re.compile(r"^(done|panic) sink=(\S+) used=(\d+) fd=(\S+)$")


def cyc(n):
    return (b"0123456789abcdef" * (n // 16 + 1))[:n]


def genb(n, seed):
    return bytes(33 + (seed + i + i // 94) % 94 for i in range(n))


def prt_messages(w):
    """the messages a `prt` line asks for: [(rendering of the format string, newline)], the expected descriptor, the
    kernel tokens.  A failing Display impl (`f`) ends the rendering of its message."""
    kind, tpl = w[1], w[2]
    sl = w.index("/")
    args, hdrs, num = [[]], [None], None
    for t in w[3:sl]:
        if t == ",":
            args.append([])
            hdrs.append(None)
        elif t == "f":
            args[-1].append(None)
        elif t[0] == "s":
            args[-1].append(C.unhex(t[1:]))
        elif t[0] == "g":
            a, b = t[1:].split(".")
            args[-1].append(genb(int(a), int(b)))
        elif t[0] == "h":
            hdrs[-1] = C.unhex(t[1:])
        elif t[0] == "n":
            num = int(t[1:])
        else:
            raise ValueError(t)

    def render(segs):
        out = b""
        for sgm in segs:
            if sgm is None:
                break
            out += sgm
        return out

    if kind == "d":
        msgs = []
        names = [b"a0", b"a1"]
        for i, (h, a) in enumerate(zip(hdrs, args)):
            pat = rb"^\[[^\]\s]*main\.rs:\d+\]$" if tpl == "n" else rb"^\[[^\]\s]*main\.rs:\d+\] " + names[i] + b" = $"
            if h is None or not re.match(pat, h):
                raise ValueError("dbg header %r" % (h,))
            msgs.append((render([h] + a), b"\n"))
        return msgs, "2", w[sl + 1:]
    nl = b"\n" if kind in "PE" else b""
    a0 = args[0]
    a1 = args[1] if len(args) > 1 else []
    if tpl == "n":
        segs = []
    elif tpl == "a":
        segs = a0
    elif tpl == "b":
        segs = [b"id="] + a0 + [b" payload="] + a1 + [b" end"]
    elif tpl == "c":
        segs = [cyc(255)] + a0 + [cyc(256)] + a1 + [cyc(257)]
    elif tpl == "d":
        segs = [b"x"] + a0 + [cyc(4096)] + a1
    elif tpl == "l":
        segs = [cyc(300)]
    elif tpl == "s":
        segs = [b"done"]
    elif tpl == "g":
        segs = [b"n=%d s=" % num] + a0
    else:
        raise ValueError(tpl)
    return [(render(segs), nl)], ("1" if kind in "pP" else "2"), w[sl + 1:]


def prt_form(sink, msgs):
    """is `sink` = R1[:n1] + NL1[:m1] + R2[:n2] + ... (each message a prefix of its rendering, then possibly its newline)?"""
    def rec(j, o):
        if j == len(msgs):
            return o == len(sink)
        R, NL = msgs[j]
        rest = sink[o:]
        if j == len(msgs) - 1:
            for m in range(len(NL) + 1):
                n = len(rest) - m
                if 0 <= n <= len(R) and rest[:n] == R[:n] and rest[n:] == NL[:m]:
                    return True
            return False
        lcp = 0
        while lcp < len(R) and lcp < len(rest) and R[lcp] == rest[lcp]:
            lcp += 1
        for n in range(lcp, -1, -1):
            for m in range(len(NL), -1, -1):
                if rest[n:n + m] == NL[:m] and rec(j + 1, o + n + m):
                    return True
        return False
    return rec(0, 0)


def prt_allowed(msgs, toks):
    """Every (bytes on the descriptor, kernel answers consumed) the print macros may produce for the messages `msgs`
    under the kernel answers `toks` (concrete tokens: a<k> = k >= 1 bytes taken, a0 = 0 answered to a non-empty
    buffer, o = 0 answered to a zero-length write, i = EINTR, e<n> = errno).  Plain byte semantics, independent of
    the model: a message goes out front to back, the k bytes an answer takes are the next k bytes; the first error,
    EINTR or a0 ends the message right there (nothing of it is written afterwards); the newline of the `ln` forms is
    then attempted with exactly one write, whatever happened to the message.  Where the write_str pieces of a
    message begin and end is toolchain behaviour this oracle does not know: an `o` (or an error) where nothing is
    left of the rendering may belong to an empty piece of this message or not, both readings are allowed.
    Returns None when the script holds an answer larger than what was offered (not a kernel behaviour)."""
    res = set()
    n = len(toks)
    if any(t[0] == "A" for t in toks):
        return None

    def fails(t):
        return t == "a0" or t == "i" or t[0] == "e"

    def message(j, i, sink):
        R = msgs[j][0]
        pos = 0
        while True:
            if pos == len(R):
                newline(j, i, sink + R)              # the message ends here ...
                if i < n and toks[i] == "o":         # ... or an empty piece issues its zero-length write
                    i += 1
                    continue
                if i < n and toks[i] != "a0" and fails(toks[i]):
                    newline(j, i + 1, sink + R)      # ... which may be the write that fails
                return
            if i == n:                               # script exhausted: the kernel takes everything offered
                pos = len(R)
                continue
            t = toks[i]
            i += 1
            if t == "o":
                continue
            if fails(t):
                newline(j, i, sink + R[:pos])
                return
            k = int(t[1:])
            if k > len(R) - pos:
                return
            pos += k

    def newline(j, i, sink):
        NL = msgs[j][1]
        if not NL:
            return after(j, i, sink)
        if i == n:
            return after(j, i, sink + NL)
        t = toks[i]
        if t == "o":
            return
        if fails(t):
            return after(j, i + 1, sink)
        if int(t[1:]) > len(NL):
            return
        return after(j, i + 1, sink + NL)

    def after(j, i, sink):
        if j + 1 == len(msgs):
            res.add((sink, i))
        else:
            message(j + 1, i, sink)

    message(0, 0, b"")
    return res


def judge_prt(w, out):
    m = PRT_OUT_RE.match(out)
    if out.startswith("runaway "):
        return "the print macro does not terminate: still calling write after 5000 calls (" + out + ")"
    if not m:
        return "unexpected output: " + out[:80]
    if m.group(1) == "panic":
        return "the print macro panicked"
    sink, used, fd = C.unhex(m.group(2)), int(m.group(3)), m.group(4)
    msgs, exp_fd, toks = prt_messages(w)
    if fd not in (exp_fd, "-") or (fd == "-" and sink):
        return "wrong descriptor: fd %s, expected %s" % (fd, exp_fd)
    allowed = prt_allowed(msgs, toks)
    if allowed is not None and (sink, used) in allowed:
        return None
    consumed = toks[:used]
    failed = any(t == "i" or t[0] == "e" for t in consumed)
    zero = any(t == "a0" for t in consumed)
    full = b"".join(R + NL for (R, NL) in msgs)
    if sink == full:
        # everything arrived, once and in order: not a violation of the property whatever the write calls were
        # (a drift in the calls is reported by the comparison with the model)
        return None
    if not failed and not zero:
        # the kernel only ever took fewer bytes than offered: everything must arrive, once, in order
        if sorted(sink) == sorted(full):
            return "bytes reached the descriptor out of order: first difference at offset %d of %d" % (
                next(i for i in range(len(full)) if sink[i] != full[i]), len(full))
        return "wrong bytes reached the descriptor (lost or duplicated): got %d bytes, expected %d" % (len(sink), len(full))
    if prt_form(sink, msgs):
        if allowed is None:
            return None    # an answer larger than the buffer offered: only the form is judged
        exp = sorted(len(s_) for (s_, _) in allowed)
        return ("message not cut where the write failed: a prefix of the message (and newline) reached the descriptor, but %d bytes / %d "
                "answers consumed where the kernel's answers determine %s bytes (writing goes on after a failed write, or stops early)"
                % (len(sink), used, "/".join(str(x) for x in exp[:4])))
    if zero:
        return "bytes dropped after a write returned 0: the rest of the piece is skipped and later pieces are still written"
    return "bytes out of order or lost in the middle of a message after a failed write"


def judge(case, out):
    w = case.split()
    op = w[0]
    if op == "prt":
        return judge_prt(w, out)
    m = OUT_RE.match(out)
    if out.startswith("string-not-utf8"):
        return "String left containing invalid UTF-8: " + out
    if not m:
        return "unexpected output: " + out[:80]
    res, _, hx, used = m.group(1), m.group(2), C.unhex(m.group(3)), int(m.group(4))
    if op in ("rte", "rts"):
        init = C.unhex(w[1])
        got, how, exp_used, over = reader_spec(w[5:])
        if over:
            exp_res, exp_buf = "panic", (init + got if op == "rte" else init)
        elif op == "rte" or _valid(got):
            exp_res = ("ok %d" % len(got)) if how == "eof" else how
            exp_buf = init + got
        else:
            exp_res = "err uncat" if how == "eof" else how
            exp_buf = init
        if hx != exp_buf:
            if op == "rts" and not _valid(got) and not over:
                return "string changed although the data is not UTF-8"
            return "wrong buffer: expected %s" % H(exp_buf)
        if res != exp_res:
            return "wrong result: expected %s" % exp_res
        if used != exp_used:
            return "wrong number of reader calls: expected %d responses consumed" % exp_used
        return None
    if op == "rex":
        orig = C.unhex(w[1])
        got, how, exp_used, over = reader_spec(w[2:], limit=len(orig))
        exp_res = "panic" if over else ("ok" if how == "full" else ("err uncat" if how == "eof" else how))
        exp_buf = got + orig[len(got):]
        if hx != exp_buf:
            return "wrong buffer: expected %s" % H(exp_buf)
        if res != exp_res:
            return "wrong result: expected %s" % exp_res
        if used != exp_used:
            return "wrong number of reader calls: expected %d responses consumed" % exp_used
        return None
    if op in ("wall", "wfmt"):
        if op == "wall":
            items, toks = [C.unhex(w[1])], w[2:]
        else:
            sl = w.index("/")
            items = [None if t == "f" else C.unhex(t[1:]) for t in w[2:sl]]
            if w[1] == "1":
                items = [b"["] + items + [b"]"]
            elif w[1] == "2":
                items = [b"done\n"]
            elif w[1] == "3":
                items = [b"literal text without arguments 0123456789 abcdefghijklmnopqrstuvwxyz"]
            toks = w[sl + 1:]
        sink, exp_res, exp_used = writer_spec(items, toks)
        if hx != sink:
            return "wrong bytes delivered: expected %s" % H(sink)
        if res != exp_res:
            return "wrong result: expected %s" % exp_res
        if used != exp_used:
            return "wrong number of writer calls: expected %d responses consumed" % exp_used
        return None
    return "unknown op"


def sig_of(case, out, why):
    return {"op": case.split()[0], "kind": why.split(":")[0]}



# ------------------------------------------------------------------ tiny-std's own Read implementors (overrides of provided helpers)

SYSFS = ["/sys/kernel/fscaps", "/sys/kernel/profiling", "/sys/devices/system/cpu/possible", "/sys/devices/system/cpu/online",
         "/sys/kernel/mm/transparent_hugepage/enabled", "/sys/class/net/lo/mtu", "/sys/kernel/kexec_loaded"]
PROCFS = ["/proc/sys/kernel/ostype", "/proc/sys/kernel/osrelease", "/proc/version", "/proc/filesystems", "/proc/self/cmdline"]
IMPL_SIZES = [0, 1, 31, 32, 33, 4095, 4096, 4097, 1048576]
OVERRIDE_RE = re.compile(r"\bfn\s+(read_to_end|read_to_string|read_exact|write_all|write_fmt)\b")
IMPL_RE = re.compile(r"^impl(?:<[^>]*>)?\s+(?:crate::)?(?:io::)?(Read|Write)\s+for\s+([^\{]+?)\s*\{", re.M)


def scan_overrides(root):
    """provided helpers of io::Read / io::Write that an implementor in tiny-std/src defines itself:
    [(file, implementor type, trait, method)], and the list of implementors"""
    import os
    impls, over = [], []
    for dp, _, fns in os.walk(root):
        for fn in sorted(fns):
            if not fn.endswith(".rs"):
                continue
            src = open(os.path.join(dp, fn), errors="replace").read()
            rel = os.path.relpath(os.path.join(dp, fn), root)
            for m in IMPL_RE.finditer(src):
                # the block: up to the matching closing brace
                depth, i = 1, m.end()
                while i < len(src) and depth:
                    depth += {"{": 1, "}": -1}.get(src[i], 0)
                    i += 1
                body = src[m.end():i]
                ty = m.group(2).strip()
                if rel == "io.rs" and (ty.startswith("&") or "Adapter" in ty):
                    continue
                impls.append("%s: %s for %s" % (rel, m.group(1), ty))
                for mm in OVERRIDE_RE.finditer(body):
                    over.append({"file": rel, "type": ty, "trait": m.group(1), "method": mm.group(1)})
    return sorted(impls), over


def gen_impl_cases(ctx):
    import os
    r = ctx.rng
    cases, notes = [], []
    pres = ["-", "6162", H(b"x" * 40)]
    for size in IMPL_SIZES:
        for off in sorted(set([0, 1, min(size, 31), size // 2, max(0, size - 1), size, size + 5])):
            for op in ("rte", "rts"):
                cases.append("impl file %s tmp:%d:%d %s %d" % (op, size, r.below(89), r.choice(pres), off))
        for k in sorted(set([0, 1, size, size + 1, max(0, size - 1)])):
            if k <= 4200:
                cases.append("impl file rex:%d tmp:%d:%d - %d" % (k, size, r.below(89), r.choice([0, 0, 1])))
        if size:
            cases.append("impl file rts bad:%d 6162 0" % size)
            cases.append("impl file rte bad:%d 6162 0" % size)
            for new in sorted(set([0, 1, size // 2, max(0, size - 1)])):
                for off in (0, min(3, size)):
                    cases.append("impl file rte trunc:%d:%d %s %d" % (size, new, r.choice(pres), off))
            for extra in (1, 33, 5000):
                cases.append("impl file rte ext:%d:%d %s %d" % (size, extra, r.choice(pres), r.choice([0, size, size // 2])))
                cases.append("impl file rts ext:%d:%d - 0" % (size, extra))
    sysf = [f for f in SYSFS if os.access(f, os.R_OK)][:3]
    if not sysf:
        notes.append("no readable sysfs attribute found (/sys absent?): files whose st_size exceeds their content are not exercised")
    for f in sysf + [f for f in PROCFS if os.access(f, os.R_OK)]:
        for op in ("rte", "rts"):
            for pre in ("-", "6162"):
                for off in (0, 1):
                    cases.append("impl file %s path:%s %s %d" % (op, f, pre, off))
        cases.append("impl file rex:1 path:%s - 0" % f)
        cases.append("impl file rex:5000 path:%s - 0" % f)
    for sizes in ["1", "3,40,1000", "32,32,32", "4096,1", "1,1,1,1,1", "70000,5", "31,33"]:
        for op in ("rte", "rts"):
            cases.append("impl ustream %s pipe:%s %s 0" % (op, sizes, r.choice(["-", "6162"])))
    return cases, sysf, notes


IMPL_OUT_RE = re.compile(r"^T (\S+) (\d+) (\S+) S (\S+) (\d+) (\S+) diff=(\S+)$")


def judge_impl(case, out):
    if out.startswith("skip "):
        return None
    m = IMPL_OUT_RE.match(out)
    if not m:
        return "unexpected output: " + out[:80]
    tr, tl, th, sr, sl, sh, d = m.groups()
    w = case.split()
    who = "tiny-std %s::%s on %s" % (w[1], w[2], w[3])
    if tr == "panic":
        return "implementor panicked: %s" % who
    if tr != sr:
        return "implementor result differs from std: %s returned %s, std %s on the same object (buffer %s bytes vs %s)" % (who, tr, sr, tl, sl)
    if (tl, th) != (sl, sh):
        return "implementor bytes differ from std: %s left %s bytes in the buffer, std %s (first difference at offset %s)" % (who, tl, sl, d)
    return None


# ------------------------------------------------------------------ run

def run(ctx):
    thorough = ctx.tier != "quick"
    ctx.rule = ("cases = scripted readers/writers: every piece-size sequence for totals <= 6 x capacities (0, exact fit -1/0/+1), totals around "
                "0/31/32/33/64/96, EINTR / error / early EOF inserted at every position, UTF-8 2/3/4-byte scalars split at every byte, invalid "
                "UTF-8 in the middle/at the end, random longer scripts from VERIF_SEED, readers/writers claiming more than offered; "
                "print!/println!/eprint!/eprintln!/dbg! under a scripted write(2): write_str pieces of length 0/1/31/32/33/255/256/257/4095/4096/70000 in every "
                "position of 2- and 3-piece messages, templates with short/255/256/257/4096-byte literal segments, short writes of 1..5000 bytes, "
                "EINTR/errno/0 returned at every position; "
                "distinct_nontrivial = distinct (op, result kind, growths, probe read seen, EINTR seen, carried-over bytes seen, exact-fit capacity) classes")
    ctx.assumptions += [
        "Model/Io.lean describes tiny-std/src/io.rs + io/read_buf.rs (checked at the level of results, buffers and reader/writer calls consumed by this run's correspondence; sizes offered to the reader and the initialised-bytes carry-over are compared too and reported as a NOTE when they drift, since they are not part of the property)",
        "capacity chosen by Vec::reserve / extend_from_slice is environment: recorded from the real run (allocator hook) and replayed; the theorems hold for every choice >= the requested minimum",
        "UTF-8 validity is an abstract predicate in the theorems; the driver uses a Lean re-implementation of core::str::from_utf8's acceptance, compared with the real one on every rts case",
        "usize arithmetic does not overflow (all sizes are bounded by a Vec capacity <= isize::MAX)",
        "write_fmt: core::fmt::write turns the arguments into a sequence of write_str calls and stops at the first error (observed through a Display impl issuing one write_str per item)",
        "print macros: the write(2) system call on fd 1/2 is scripted through the sc-shim (returns k <= count, 0, -EINTR or -errno; never more than count); the bytes the scripted kernel took, in order, and the number of answers consumed are compared with what a rendering of the message computed by the check itself and the answers determine (message cut exactly at the first error / EINTR / 0 answered to a non-empty buffer, nothing of it written afterwards, the newline of the ln forms then attempted with one write)",
        "print macros: which write_str pieces core::fmt::write issues for a format string (one per non-empty literal segment up to 65535 bytes, literal-only strings as a single piece, `-` and the digits of an i64 separately) is toolchain behaviour, observed by the correspondence, not proved; the file:line header of dbg! is taken from the run",
        "implementors: the theorems are about the provided (default) helpers over any reader/writer script; what a tiny-std implementor of io::Read/io::Write overrides is outside the model and covered only by the implementors stream (tiny_std::fs::File on temp files of sizes around 0/31/32/33/4095/4096/4097/1 MiB with start offsets and pre-filled buffers, files truncated/extended through another descriptor after open, sysfs attributes whose st_size exceeds their content, procfs files with st_size 0, non-UTF-8 content; tiny_std::net::UnixStream fed in pieces by a thread), judged by std::fs::File doing the same on a twin descriptor / by the known content; coverage.overrides lists every provided helper an implementor defines itself (scan of tiny-std/src), an override on a type the stream does not drive is reported; AnonPipe (only obtainable from a spawned child) and TcpStream are not driven (their read/write are single system calls, no override)",
        "print macros: that print! locks __STDOUT_LOCK / eprint! __STDERR_LOCK around the whole message is not part of this check (single-threaded harness)",
    ]
    ok = C.lean_prove(ctx, "TinyVerif.Props.C15", drivers=["drv_c15"])
    exe, err = C.cargo_build(ctx, "c15")
    if exe is None:
        ctx.broken.append({"harness_build_failed": err})
        ctx.violation({"kind": "harness-build-failed"}, {"error": err}, no_input=True)
        return
    drv = C.driver_path("drv_c15")
    streams = [("read_to_end", gen_reader_cases(ctx, thorough)), ("read_to_string", gen_string_cases(ctx, thorough)),
               ("read_exact", gen_exact_cases(ctx, thorough)), ("write", gen_writer_cases(ctx, thorough)),
               ]
    # the zero-return scripts go in a stream of their own (a regression of the defect repaired by e1fd457 - try_print
    # answering Ok to a 0 for a non-empty buffer - fails many of them: it must not crowd other failures out of the
    # bounded list `correspond` reports)
    pr = gen_print_cases(ctx, thorough)
    streams += [("print", [c for c in pr if " k0" not in c]), ("print_zero_return", [c for c in pr if " k0" in c])]
    drift = 0
    drift_example = None
    for name, abstract in streams:
        # pass 1: concretise against the real code
        rc, conc, errtxt = C.run_filter([exe], abstract)
        if len(conc) != len(abstract):
            idx = len(conc)
            ctx.violation({"stream": name, "kind": "impl-crash"}, {"stream": name, "case": abstract[idx] if idx < len(abstract) else None,
                                                                     "impl_rc": rc, "stderr_tail": errtxt.splitlines()[-5:]})
            continue
        cases = []
        for a, c in zip(abstract, conc):
            if c == "bad-op" or c.startswith("bad-cap"):
                ctx.hist("skipped", c.split()[0])
                continue
            cases.append(c)
        cases = list(dict.fromkeys(cases))
        # pass 2: implementation vs model on the concrete scripts, judged by the spec
        C.correspond(ctx, name, cases, [exe], [drv], judge, sig_of)
        # detail pass: memory-safety observation (poisoned allocator) + call-log drift
        _, di, _ = C.run_filter([exe, "--detail"], cases)
        _, dm, _ = C.run_filter([drv, "--detail"], cases)
        for c, a, b in zip(cases, di, dm):
            da = a.split(" # ")[1] if " # " in a else ""
            db = re.sub(r"\b[mp](\d+/)", r"\1", b.split(" # ")[1]) if " # " in b else ""
            if "uninit=1" in da:
                ctx.violation({"op": c.split()[0], "kind": "uninitialised bytes handed to the reader"},
                              {"stream": name, "case": c, "implementation": a, "model": b,
                               "why": "the buffer offered to Read::read contained bytes that were neither zeroed nor written before (poisoned allocator)",
                               "how_to_replay": "echo '%s' | %s --detail" % (c, exe)})
            if "uninit=1" in db:
                ctx.violation({"op": c.split()[0], "kind": "model-unsound"}, {"case": c, "model": b}, no_input=True)
            if da != db:
                drift += 1
                if drift_example is None:
                    drift_example = {"case": c, "implementation": da, "model": db}
            res = a.split(" buf=")[0].split(" sink=")[0].split()
            kind = " ".join(res[:2]) if res[0] == "err" else res[0]
            w = c.split()
            feats = (w[0], kind)
            if w[0] in ("rte", "rts") and "caps=" in da:
                log = re.search(r"log=(\S+)", da)
                calls = [] if not log or log.group(1) == "-" else log.group(1).split(",")
                caps = re.search(r"caps=(\S+)", da).group(1)
                ng = 0 if caps == "-" else len(caps.split(","))
                init_len = len(C.unhex(w[1]))
                feats += (min(ng, 3), any(x.startswith("32/") for x in calls) and int(w[2]) > init_len,
                          "i" in w[5:] or "e4" in w[5:], any(not x.endswith("/0") for x in calls), int(w[2]) == init_len)
                ctx.hist("growths", ng)
            elif w[0] == "prt":
                lens = [int(x) for x in re.findall(r"\bg(\d+)\.", c)] or [0]
                big = max(lens)
                bucket = 0 if big < 32 else 1 if big < 255 else 2 if big < 256 else 3 if big < 4096 else 4 if big < 65536 else 5
                ktoks = w[w.index("/") + 1:]
                used = int(re.search(r"used=(\d+)", a).group(1))
                fault = "zero" if "a0" in ktoks[:used] else "error" if any(t == "i" or t[0] == "e" for t in ktoks[:used]) else "short" if used else "none"
                feats = (w[0], w[1], w[2], fault, bucket, lens.index(big) == 0, lens.index(big) == len(lens) - 1, "f" in w)
                ctx.hist("print_faults", fault)
            else:
                feats += ("i" in w[2:] or "e4" in w[2:], len(w) > 8)
            ctx.count(feats)
            ctx.hist("outcomes", w[0] + ":" + kind)
        for c, a in list(zip(cases, di))[:3]:
            ctx.sample({"case": c, "implementation": a})
    # ---- tiny-std's own implementors of Read (and what they override of the provided helpers): outside the model
    import os
    impls, overrides = scan_overrides("/repo/tiny-std/src")
    ctx.extra["implementors"] = impls
    ctx.extra["overrides"] = overrides
    icases, sysf, inotes = gen_impl_cases(ctx)
    _, iout, ierr = C.run_filter([exe], icases)
    st = ctx.extra.setdefault("streams", {})
    st["implementors"] = {"cases": len(icases), "spec_failures": 0, "skipped": 0, "sysfs": sysf, "notes": inotes}
    exercised = set()
    if len(iout) != len(icases):
        ctx.violation({"stream": "implementors", "kind": "impl-crash"}, {"case": icases[len(iout)] if len(iout) < len(icases) else None,
                                                                          "stderr_tail": ierr.splitlines()[-5:]})
    else:
        ctx.evaluations += len(icases)
        for c, o in zip(icases, iout):
            w = c.split()
            if o.startswith("skip ") or o == "bad-op":
                st["implementors"]["skipped"] += 1
                ctx.hist("implementors_skipped", w[3].split(":")[0] + ":" + o)
                if o == "bad-op":
                    ctx.violation({"stream": "implementors", "kind": "harness-rejects-case"}, {"case": c}, no_input=True)
                continue
            exercised.add(w[1])
            ctx.count(("impl", w[1], w[2].split(":")[0], w[3].split(":")[0], w[4] != "-", w[5] != "0"))
            why = judge_impl(c, o)
            if why:
                st["implementors"]["spec_failures"] += 1
                ctx.violation({"op": "impl", "kind": why.split(":")[0]},
                              {"stream": "implementors", "case": c, "implementation_vs_std": o, "why": why,
                               "how_to_replay": "echo '%s' | %s" % (c, exe)})
        for c, o in list(zip(icases, iout))[:2]:
            ctx.sample({"case": c, "tiny_std_vs_std": o})
    for n_ in inotes:
        ctx.log("NOTE: property=C15 " + n_)
    TYPE_OF = {"File": "file", "UnixStream": "ustream"}
    for ov in overrides:
        t = TYPE_OF.get(ov["type"])
        if t is None or t not in exercised or (ov["type"] == "File" and not sysf):
            ctx.violation({"stream": "implementors", "kind": "override of a provided helper not exercised", "type": ov["type"], "method": ov["method"]},
                          {"override": ov, "why": "an implementor defines a provided io::Read/io::Write helper itself; the theorems are about the default helpers only and the implementors stream does not drive this type (or could not reach a file whose st_size exceeds its content)"},
                          no_input=True)
    ctx.extra["call_log_drift"] = {"lines_differing": drift, "example": drift_example}
    if drift:
        ctx.log("NOTE: property=C15 the sizes offered to the reader or writer / bytes carried over differ from the model on %d cases (not part of the property; results agree unless a VIOLATION is printed): %s"
                % (drift, drift_example))
    if not ok and not ctx.violations:
        ctx.violation({"kind": "proof-broken"}, {"broken": ctx.broken}, no_input=True)
