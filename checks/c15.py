"""C15 — Read/Write helpers exact for any pattern of short transfers, EINTR, errors.

Two passes over the real code: abstract cases (`gen ...`: a reader that hands out as much of its next piece as
fits, a writer that accepts up to k) are first *concretised* by the harness against /repo's code, which yields an
explicit response script plus the capacities the Vec really got; the concrete lines are then run through the
harness again and through the Lean model (`drv_c15`) and compared, and judged by the spec below (plain Python,
concatenation semantics, independent of the model)."""
import re
from . import common as C

H = C.hexs


# ------------------------------------------------------------------ case generation (abstract lines)

def compositions(n):
    """all ordered ways to write n as a sum of positive integers"""
    if n == 0:
        return [[]]
    out = []
    for first in range(1, n + 1):
        for rest in compositions(n - first):
            out.append([first] + rest)
    return out


def split(data, sizes):
    out, i = [], 0
    for s in sizes:
        out.append(data[i:i + s])
        i += s
    if i < len(data):
        out.append(data[i:])
    return [p for p in out if p]


def ptoks(pieces):
    return ["p" + p.hex() for p in pieces if p]


def rand_sizes(r, total, mx):
    out = []
    while total > 0:
        k = min(total, r.range(1, mx))
        out.append(k)
        total -= k
    return out


def seq(n, base=1):
    return bytes((base + i) % 251 + 1 for i in range(n))


def gen_reader_cases(ctx, thorough):
    r = ctx.rng
    cases = []

    def rte(init, cap, scr, toks, op="rte"):
        if cap >= len(init):
            cases.append("gen %s %s %d %d ? %s" % (op, H(init), cap, scr, " ".join(toks)))

    # A. every piece-size sequence for totals <= 6, capacities around the exact fit
    for total in range(0, 7):
        data = seq(total, 0x10)
        for comp in compositions(total):
            toks = ptoks(split(data, comp))
            for (il, cap) in [(0, 0), (0, total), (2, 2), (2, 2 + total - 1), (2, 2 + total), (2, 2 + total + 1)]:
                for scr in (0, 1):
                    rte(seq(il, 0x80), max(cap, il) if cap >= il else cap, scr, toks + (["z", "pffff"] if scr else []))
    # B. totals around the 32-byte growth / probe thresholds
    totals = [0, 1, 30, 31, 32, 33, 34, 62, 63, 64, 65, 66, 95, 96, 97, 128]
    for total in totals:
        data = seq(total, 3)
        for il in (0, 5):
            for cap in sorted(set([0 if il == 0 else il, il + total - 1, il + total, il + total + 1, il + 31, il + 32, il + 33])):
                if cap < il:
                    continue
                pats = [[total], [1] * total, [32] * 5, [31] * 5, [33] * 5, rand_sizes(r, total, 8), rand_sizes(r, total, 40)]
                if cap - il > 0:
                    pats.append([cap - il, 32, 1])          # fill the capacity exactly, then a full probe
                    pats.append([cap - il, 31])
                    pats.append([max(1, cap - il - 1), 1, 5])
                for sizes in pats:
                    rte(seq(il, 0x80), cap, r.below(2), ptoks(split(data, sizes)))
    # C/D. EINTR and errors at every position of scripts that go through main reads, the probe and growth
    bases = [(b"", 0, [3, 30, 7]), (seq(4, 0x80), 4 + 10, [10, 32, 5, 40]), (seq(2, 0x80), 2 + 6, [2, 4, 1, 1]), (seq(1, 0x80), 40, [33, 6, 2])]
    faults = ["i", "e4", "i i", "e5", "e11", "u", "z", "i z", "i e9"]
    for (init, cap, sizes) in bases:
        data = seq(sum(sizes), 7)
        toks = ptoks(split(data, sizes))
        for pos in range(len(toks) + 1):
            for f in faults:
                for scr in (0, 1):
                    rte(init, cap, scr, toks[:pos] + f.split() + toks[pos:])
    # E. random longer scripts
    n = 4000 if not thorough else 20000
    for _ in range(n):
        il = r.choice([0, 0, 1, 7, 31, 32, 33, r.below(80)])
        total = r.choice([0, 1, 5, 31, 32, 33, 64, r.below(200)])
        cap = il + r.choice([0, 0, 1, total, total, max(0, total - 1), total + 1, 32, r.below(100)])
        data = r.bytes(total)
        toks = ptoks(split(data, rand_sizes(r, total, r.choice([1, 3, 8, 40, 100]))))
        for _ in range(r.below(4)):
            toks.insert(r.below(len(toks) + 1), r.choice(["i", "i", "e4", "i"]))
        k = r.below(8)
        if k == 0:
            toks.insert(r.below(len(toks) + 1), r.choice(["e5", "e32", "u", "e104"]))
        elif k == 1:
            toks.insert(r.below(len(toks) + 1), "z")
        elif k == 2:
            toks.append("z")
            toks.append("p" + r.bytes(3).hex())
        rte(seq(il, 0x80), cap, r.below(2), toks)
    # G. malformed: a reader claiming more than it was offered (must panic, never corrupt)
    for _ in range(300 if not thorough else 1000):
        il = r.choice([0, 3, 32])
        total = r.choice([0, 4, 40])
        cap = il + r.choice([0, total, total + 1, 50])
        toks = ptoks(split(r.bytes(total), rand_sizes(r, total, 16)))
        toks.insert(r.below(len(toks) + 1), "x%d" % r.choice([5, 40]))
        if r.chance(1, 3):
            toks.insert(r.below(len(toks)), "i")
        rte(seq(il, 0x80), cap, r.below(2), toks, op=r.choice(["rte", "rts"]) if il == 0 else "rte")
    return cases


UTF8_SAMPLES = ["é", "€", "😀", "aé€😀z", "ßx€", "日本語", "߿ࠀ￿\U00010000\U0010ffff"]
INVALID = [b"\xff", b"\xc0\x80", b"\xed\xa0\x80", b"\xe2\x82", b"\xf0\x9f\x98", b"\xc3", b"\x80", b"\xf4\x90\x80\x80", b"\xe0\x80\x80"]


def gen_string_cases(ctx, thorough):
    r = ctx.rng
    cases = []

    def rts(init, cap, scr, toks):
        if cap >= len(init):
            cases.append("gen rts %s %d %d ? %s" % (H(init), cap, scr, " ".join(toks)))

    inits = [b"", "hé".encode()]
    # multi-byte sequences split at every byte boundary, with capacities around the exact fit
    for s in UTF8_SAMPLES:
        b = s.encode()
        for init in inits:
            il = len(init)
            for cap in sorted(set([il, il + len(b) - 1, il + len(b), il + len(b) + 1, il + 40])):
                for cut in range(1, len(b)):
                    rts(init, cap, cut % 2, ptoks([b[:cut], b[cut:]]))
                    rts(init, cap, 0, ptoks([b[:cut]]) + ["i"] + ptoks([b[cut:]]))
                rts(init, cap, 1, ptoks([b[i:i + 1] for i in range(len(b))]))
                rts(init, cap, 0, ptoks([b]))
    # every piece-size sequence of a 6-byte string made of a 2-, a 3- and a 1-byte scalar
    b6 = "é€a".encode()
    for comp in compositions(6):
        for (init, cap) in [(b"", 0), (b"", 6), (b"x", 7), (b"x", 6), (b"x", 8)]:
            rts(init, cap, 0, ptoks(split(b6, comp)))
    # invalid UTF-8 in the middle / at the end; errors with complete and incomplete data
    for bad in INVALID:
        for init in inits:
            il = len(init)
            for (pre, post) in [(b"", b""), (b"ab", b""), (b"ab", b"cd"), ("€".encode(), "é".encode()), (b"", b"z")]:
                data = pre + bad + post
                for cap in sorted(set([il, il + len(data), il + len(data) + 1, il + 35])):
                    rts(init, cap, 0, ptoks([data]))
                    rts(init, cap, 1, ptoks([data[i:i + 1] for i in range(len(data))]))
                    rts(init, cap, 0, ptoks([pre]) + ptoks([bad]) + ptoks([post]))
                    rts(init, cap, 0, ptoks([data]) + ["e5"])
    for s in UTF8_SAMPLES:
        b = s.encode()
        for cut in range(0, len(b) + 1):
            for f in ["e5", "u", "i e7", "z"]:
                rts(b"h", 1 + r.choice([0, len(b), 40]), 0, ptoks([b[:cut]]) + f.split() + ptoks([b[cut:]]))
    for _ in range(1500 if not thorough else 5000):
        s = "".join(r.choice(["a", "é", "€", "😀", "\u0000", "z"]) for _ in range(r.below(30)))
        b = s.encode()
        if r.chance(1, 4) and b:
            i = r.below(len(b))
            b = b[:i] + r.choice(INVALID) + b[i:]
        init = r.choice([b"", "hé".encode(), ("x" * 31).encode(), ("y" * 32).encode()])
        cap = len(init) + r.choice([0, len(b), len(b) + 1, max(0, len(b) - 1), 33])
        toks = ptoks(split(b, rand_sizes(r, len(b), r.choice([1, 2, 3, 5, 40]))))
        if r.chance(1, 3):
            toks.insert(r.below(len(toks) + 1), "i")
        if r.chance(1, 6):
            toks.insert(r.below(len(toks) + 1), r.choice(["e5", "u"]))
        rts(init, cap, r.below(2), toks)
    return cases


def gen_exact_cases(ctx, thorough):
    r = ctx.rng
    cases = []
    for n in range(0, 7):
        orig = bytes([0xCC]) * n
        for total in range(0, n + 2):
            data = seq(total, 0x20)
            for comp in compositions(total):
                cases.append("gen rex %s %s" % (H(orig), " ".join(ptoks(split(data, comp)))))
    for n in [1, 5, 31, 32, 33, 64, 100]:
        orig = bytes([0xCC]) * n
        data = seq(n, 9)
        base = ptoks(split(data, rand_sizes(r, n, 7)))[:12]
        for pos in range(len(base) + 1):
            for f in ["i", "e4", "e5", "u", "z", "i i e9", "x5", "x40"]:
                cases.append("gen rex %s %s" % (H(orig), " ".join(base[:pos] + f.split() + base[pos:])))
    for _ in range(2000 if not thorough else 10000):
        n = r.choice([0, 1, 2, 31, 32, 33, r.below(150)])
        total = max(0, n + r.choice([0, 0, 0, -1, 1, 5, -n]))
        toks = ptoks(split(r.bytes(total), rand_sizes(r, total, r.choice([1, 4, 50, 200]))))
        for _ in range(r.below(3)):
            toks.insert(r.below(len(toks) + 1), r.choice(["i", "e4"]))
        if r.chance(1, 6):
            toks.insert(r.below(len(toks) + 1), r.choice(["e5", "u", "z"]))
        cases.append("gen rex %s %s" % (H(bytes([0xCC]) * n), " ".join(toks)))
    return cases


def gen_writer_cases(ctx, thorough):
    r = ctx.rng
    cases = []
    for n in range(0, 7):
        data = seq(n, 0x30)
        for comp in compositions(n):
            cases.append("gen wall %s %s" % (H(data), " ".join("k%d" % k for k in comp)))
            cases.append("gen wall %s %s" % (H(data), " ".join("k%d" % k for k in comp[:-1])))
    for n in [1, 6, 31, 32, 33, 64]:
        data = seq(n, 0x30)
        base = ["k%d" % k for k in rand_sizes(r, n, 6)][:12]
        for pos in range(len(base) + 1):
            for f in ["i", "e4", "e5", "e32", "u", "k0", "i i", "i k0", "x5", "x1"]:
                cases.append("gen wall %s %s" % (H(data), " ".join(base[:pos] + f.split() + base[pos:])))
    for _ in range(2000 if not thorough else 10000):
        n = r.choice([0, 1, 31, 32, 33, r.below(200)])
        toks = ["k%d" % k for k in rand_sizes(r, n + r.below(10), r.choice([1, 5, 64, 300]))]
        for _ in range(r.below(3)):
            toks.insert(r.below(len(toks) + 1), r.choice(["i", "e4"]))
        if r.chance(1, 5):
            toks.insert(r.below(len(toks) + 1), r.choice(["e5", "u", "k0"]))
        cases.append("gen wall %s %s" % (H(r.bytes(n)), " ".join(toks)))
    # write_fmt: the formatting machinery issues one write_all per piece
    texts = ["", "a", "héllo wörld", "x=1 y=2", "€😀", "abcdef"]
    for t in texts:
        b = t.encode()
        cuts = [[b]] + [[b[:i], b[i:]] for i in range(1, len(b)) if _valid(b[:i]) and _valid(b[i:])]
        for items in cuts:
            its = ["s" + H(x) for x in items]
            for variant in (0, 1):
                for wt in ["", "k1 k1 k1 k1 k1 k1 k1 k1 k1 k1 k1 k1 k1 k1 k1 k1 k1 k1", "k2 i k100", "i e4 k3", "k1 e5", "e9", "k0", "k1 k0", "u", "k1 x5", "k300 k300 k300"]:
                    cases.append("gen wfmt %d %s / %s" % (variant, " ".join(its), wt))
                for pos in range(len(its) + 1):
                    cases.append("gen wfmt %d %s / k2 k2" % (variant, " ".join(its[:pos] + ["f"] + its[pos:])))
                    cases.append("gen wfmt %d %s / k2 k2" % (variant, " ".join(its[:pos] + ["s-"] + its[pos:])))
    # literal-only format strings (no run-time arguments): variants 2 and 3
    for variant in (2, 3):
        for wt in ["", "k1 k1 k1 k1 k1 k1 k1 k1 k1 k1 k1 k1 k1 k1 k1 k1 k1 k1 k1 k1", "k2 i k100", "i e4 k3 k200", "k1 e5", "e9", "k0", "k1 k0", "u", "k1 x5",
                   "k300", "k3 k300", "i i k300", "k70 k10"]:
            cases.append("gen wfmt %d / %s" % (variant, wt))
        for _ in range(40):
            toks = ["k%d" % r.choice([1, 2, 3, 7, 100]) for _ in range(r.range(1, 14))]
            for _ in range(r.below(3)):
                toks.insert(r.below(len(toks) + 1), r.choice(["i", "e4"]))
            cases.append("gen wfmt %d / %s" % (variant, " ".join(toks)))
    for _ in range(1000 if not thorough else 5000):
        items = []
        for _ in range(r.below(6)):
            items.append("s" + H("".join(r.choice(["a", "é", "€", "😀", " "]) for _ in range(r.below(12))).encode()))
        if r.chance(1, 6):
            items.insert(r.below(len(items) + 1), "f")
        toks = ["k%d" % r.choice([1, 2, 3, 7, 100]) for _ in range(r.below(12))]
        for _ in range(r.below(3)):
            toks.insert(r.below(len(toks) + 1), r.choice(["i", "e4"]))
        if r.chance(1, 5):
            toks.insert(r.below(len(toks) + 1), r.choice(["e5", "u", "k0", "x5"]))
        cases.append("gen wfmt %d %s / %s" % (r.below(2), " ".join(items), " ".join(toks)))
    return cases


def _valid(b):
    try:
        b.decode("utf-8")
        return True
    except UnicodeDecodeError:
        return False


# ------------------------------------------------------------------ the property's own spec (on concrete lines)

OUT_RE = re.compile(r"^(ok(?: \d+)?|err os \d+|err user|err uncat|panic) (buf|sink)=(\S+) used=(\d+)$")


def reader_spec(toks, limit=None):
    """what a conforming consumer must have received: (bytes, how it ended, tokens consumed, over-claim seen)"""
    got, used = b"", 0
    for t in toks:
        if limit is not None and len(got) >= limit:
            return got, "full", used, False
        used += 1
        if t[0] == "d":
            got += C.unhex(t[1:])
        elif t[0] == "D":
            return got, "over", used, True
        elif t == "z":
            return got, "eof", used, False
        elif t == "i" or t == "e4":
            continue
        elif t == "u":
            return got, "err user", used, False
        elif t[0] == "e":
            return got, "err os %d" % int(t[1:]), used, False
        else:
            return got, "bad", used, False
    if limit is not None and len(got) >= limit:
        return got, "full", used, False
    return got, "eof", used, False


def writer_spec(items, toks):
    """items: list of bytes or None (formatter failure).  Returns (sink, result, used)."""
    sink, used, it = b"", 0, iter(toks)
    for item in items:
        if item is None:
            return sink, "err uncat", used
        pos = 0
        while pos < len(item):
            t = next(it, None)
            if t is None:
                sink += item[pos:]
                pos = len(item)
                break
            used += 1
            if t[0] == "a":
                k = int(t[1:])
                if k == 0:
                    return sink, "err uncat", used
                sink += item[pos:pos + k]
                pos += k
            elif t[0] == "A":
                return sink + item[pos:], "panic", used
            elif t == "i" or t == "e4":
                continue
            elif t == "u":
                return sink, "err user", used
            elif t[0] == "e":
                return sink, "err os %d" % int(t[1:]), used
            else:
                return sink, "bad", used
    return sink, "ok", used


def judge(case, out):
    w = case.split()
    op = w[0]
    m = OUT_RE.match(out)
    if out.startswith("string-not-utf8"):
        return "String left containing invalid UTF-8: " + out
    if not m:
        return "unexpected output: " + out[:80]
    res, _, hx, used = m.group(1), m.group(2), C.unhex(m.group(3)), int(m.group(4))
    if op in ("rte", "rts"):
        init = C.unhex(w[1])
        got, how, exp_used, over = reader_spec(w[5:])
        if over:
            exp_res, exp_buf = "panic", (init + got if op == "rte" else init)
        elif op == "rte" or _valid(got):
            exp_res = ("ok %d" % len(got)) if how == "eof" else how
            exp_buf = init + got
        else:
            exp_res = "err uncat" if how == "eof" else how
            exp_buf = init
        if hx != exp_buf:
            if op == "rts" and not _valid(got) and not over:
                return "string changed although the data is not UTF-8"
            return "wrong buffer: expected %s" % H(exp_buf)
        if res != exp_res:
            return "wrong result: expected %s" % exp_res
        if used != exp_used:
            return "wrong number of reader calls: expected %d responses consumed" % exp_used
        return None
    if op == "rex":
        orig = C.unhex(w[1])
        got, how, exp_used, over = reader_spec(w[2:], limit=len(orig))
        exp_res = "panic" if over else ("ok" if how == "full" else ("err uncat" if how == "eof" else how))
        exp_buf = got + orig[len(got):]
        if hx != exp_buf:
            return "wrong buffer: expected %s" % H(exp_buf)
        if res != exp_res:
            return "wrong result: expected %s" % exp_res
        if used != exp_used:
            return "wrong number of reader calls: expected %d responses consumed" % exp_used
        return None
    if op in ("wall", "wfmt"):
        if op == "wall":
            items, toks = [C.unhex(w[1])], w[2:]
        else:
            sl = w.index("/")
            items = [None if t == "f" else C.unhex(t[1:]) for t in w[2:sl]]
            if w[1] == "1":
                items = [b"["] + items + [b"]"]
            elif w[1] == "2":
                items = [b"done\n"]
            elif w[1] == "3":
                items = [b"literal text without arguments 0123456789 abcdefghijklmnopqrstuvwxyz"]
            toks = w[sl + 1:]
        sink, exp_res, exp_used = writer_spec(items, toks)
        if hx != sink:
            return "wrong bytes delivered: expected %s" % H(sink)
        if res != exp_res:
            return "wrong result: expected %s" % exp_res
        if used != exp_used:
            return "wrong number of writer calls: expected %d responses consumed" % exp_used
        return None
    return "unknown op"


def sig_of(case, out, why):
    return {"op": case.split()[0], "kind": why.split(":")[0]}


# ------------------------------------------------------------------ run

def run(ctx):
    thorough = ctx.tier != "quick"
    ctx.rule = ("cases = scripted readers/writers: every piece-size sequence for totals <= 6 x capacities (0, exact fit -1/0/+1), totals around "
                "0/31/32/33/64/96, EINTR / error / early EOF inserted at every position, UTF-8 2/3/4-byte scalars split at every byte, invalid "
                "UTF-8 in the middle/at the end, random longer scripts from VERIF_SEED, readers/writers claiming more than offered; "
                "distinct_nontrivial = distinct (op, result kind, growths, probe read seen, EINTR seen, carried-over bytes seen, exact-fit capacity) classes")
    ctx.assumptions += [
        "Model/Io.lean describes tiny-std/src/io.rs + io/read_buf.rs (checked at the level of results, buffers and reader/writer calls consumed by this run's correspondence; sizes offered to the reader and the initialised-bytes carry-over are compared too and reported as a NOTE when they drift, since they are not part of the property)",
        "capacity chosen by Vec::reserve / extend_from_slice is environment: recorded from the real run (allocator hook) and replayed; the theorems hold for every choice >= the requested minimum",
        "UTF-8 validity is an abstract predicate in the theorems; the driver uses a Lean re-implementation of core::str::from_utf8's acceptance, compared with the real one on every rts case",
        "usize arithmetic does not overflow (all sizes are bounded by a Vec capacity <= isize::MAX)",
        "write_fmt: core::fmt::write turns the arguments into a sequence of write_str calls and stops at the first error (observed through a Display impl issuing one write_str per item)",
    ]
    ok = C.lean_prove(ctx, "TinyVerif.Props.C15", drivers=["drv_c15"])
    exe, err = C.cargo_build(ctx, "c15")
    if exe is None:
        ctx.broken.append({"harness_build_failed": err})
        ctx.violation({"kind": "harness-build-failed"}, {"error": err}, no_input=True)
        return
    drv = C.driver_path("drv_c15")
    streams = [("read_to_end", gen_reader_cases(ctx, thorough)), ("read_to_string", gen_string_cases(ctx, thorough)),
               ("read_exact", gen_exact_cases(ctx, thorough)), ("write", gen_writer_cases(ctx, thorough))]
    drift = 0
    drift_example = None
    for name, abstract in streams:
        # pass 1: concretise against the real code
        rc, conc, errtxt = C.run_filter([exe], abstract)
        if len(conc) != len(abstract):
            idx = len(conc)
            ctx.violation({"stream": name, "kind": "impl-crash"}, {"stream": name, "case": abstract[idx] if idx < len(abstract) else None,
                                                                     "impl_rc": rc, "stderr_tail": errtxt.splitlines()[-5:]})
            continue
        cases = []
        for a, c in zip(abstract, conc):
            if c == "bad-op" or c.startswith("bad-cap"):
                ctx.hist("skipped", c.split()[0])
                continue
            cases.append(c)
        cases = list(dict.fromkeys(cases))
        # pass 2: implementation vs model on the concrete scripts, judged by the spec
        C.correspond(ctx, name, cases, [exe], [drv], judge, sig_of)
        # detail pass: memory-safety observation (poisoned allocator) + call-log drift
        _, di, _ = C.run_filter([exe, "--detail"], cases)
        _, dm, _ = C.run_filter([drv, "--detail"], cases)
        for c, a, b in zip(cases, di, dm):
            da = a.split(" # ")[1] if " # " in a else ""
            db = re.sub(r"\b[mp](\d+/)", r"\1", b.split(" # ")[1]) if " # " in b else ""
            if "uninit=1" in da:
                ctx.violation({"op": c.split()[0], "kind": "uninitialised bytes handed to the reader"},
                              {"stream": name, "case": c, "implementation": a, "model": b,
                               "why": "the buffer offered to Read::read contained bytes that were neither zeroed nor written before (poisoned allocator)",
                               "how_to_replay": "echo '%s' | %s --detail" % (c, exe)})
            if "uninit=1" in db:
                ctx.violation({"op": c.split()[0], "kind": "model-unsound"}, {"case": c, "model": b}, no_input=True)
            if da != db:
                drift += 1
                if drift_example is None:
                    drift_example = {"case": c, "implementation": da, "model": db}
            res = a.split(" buf=")[0].split(" sink=")[0].split()
            kind = " ".join(res[:2]) if res[0] == "err" else res[0]
            w = c.split()
            feats = (w[0], kind)
            if w[0] in ("rte", "rts") and "caps=" in da:
                log = re.search(r"log=(\S+)", da)
                calls = [] if not log or log.group(1) == "-" else log.group(1).split(",")
                caps = re.search(r"caps=(\S+)", da).group(1)
                ng = 0 if caps == "-" else len(caps.split(","))
                init_len = len(C.unhex(w[1]))
                feats += (min(ng, 3), any(x.startswith("32/") for x in calls) and int(w[2]) > init_len,
                          "i" in w[5:] or "e4" in w[5:], any(not x.endswith("/0") for x in calls), int(w[2]) == init_len)
                ctx.hist("growths", ng)
            else:
                feats += ("i" in w[2:] or "e4" in w[2:], len(w) > 8)
            ctx.count(feats)
            ctx.hist("outcomes", w[0] + ":" + kind)
        for c, a in list(zip(cases, di))[:3]:
            ctx.sample({"case": c, "implementation": a})
    ctx.extra["call_log_drift"] = {"lines_differing": drift, "example": drift_example}
    if drift:
        ctx.log("NOTE: property=C15 the sizes offered to the reader / bytes carried over differ from the model on %d cases (not part of the property; results agree unless a VIOLATION is printed): %s"
                % (drift, drift_example))
    if not ok and not ctx.violations:
        ctx.violation({"kind": "proof-broken"}, {"broken": ctx.broken}, no_input=True)
