"""C09 — every raw syscall wrapper of rusl decodes the kernel's return register exactly.

T: checks/c09_extract.py regenerates the wrapper table (decode skeletons + shared idioms + constants) from
   /repo/rusl/src into lean/TinyVerif/Gen/Wrappers.lean by symbolic interpretation of each wrapper body (let bindings,
   constants, negations, inverted branches, hoisted sub-expressions normalised); Props/C09.lean proves `Spec` for every
   row the translator understands (`all_wrappers` by kernel evaluation of the syntactic check, lifted by `chk_sound`).
C: every exported wrapper (stubs generated from the SIGNATURES only) is called under a fully scripted kernel
   (sc-shim) with every errno 1..=4095 and the success classes, and result + call count are compared with
   the model's `run` on the generated skeleton; `judge` below is the property's own statement.
   A private or generic fn that issues the system call is a HELPER: it has no row and no stub; its body is inlined (parameters
   substituted) into every exported caller, whose row carries the full decode whichever side of the split does it.
Fallbacks (never a skipped obligation, only another source for the model's parameters):
   * a wrapper body the translator cannot understand is OPAQUE: no Lean row obligation, decided by `judge` alone on what
     the compiled wrapper does, exhaustively over errnos x all argument variants x success classes x result sequences;
   * a shared idiom the translator cannot understand gets its `Cfg` field from what the compiled code does (window
     boundary probed, every errno decoded); `cfgOk` in Lean still demands the standard value.
   Both are listed in the evidence (`opaque_wrappers`, `observed_idioms`).
"""
import json
import os

from . import common as C
from . import c09_extract as X

M64 = 2**64
NEG_EBUSY = M64 - 16
SUCCESS = [0, 1, 2, 15, 16, 17, 4095, 4096, 2**31 - 1, 2**31, 2**32, 2**63, M64 - 4096, M64 - 4097]
# values whose low 8/16/31/32/33/48/63 bits look like an errno (a decode that narrows before it tests), and k*2^32 - n
SUCCESS += sorted(({(1 << b) - d for b in (8, 16, 31, 32, 33, 48, 63) for d in (4096, 4095, 17, 16, 1) if (1 << b) - d > 4096}
                   | {(1 << b) + 16 for b in (16, 32, 48)} | {6 * 2**32 - 13, 3 * 2**32 - 4095, 2**63 + 2**32 - 16}) - set(SUCCESS))
# spec knowledge that is not in a signature: execve returns only on failure (kernel contract), and the only
# documented reason to re-issue a call is dup's EBUSY race with open (man dup2: EBUSY)
ERR_ONLY = {"process::execve"}
RETRY_DOC = {"unistd::dup2", "unistd::dup3"}
BITS = {"i32": (32, True), "u32": (32, False), "i64": (64, True), "u64": (64, False)}
META = {}


def reg(tok):
    return (M64 - int(tok[1:])) % M64 if tok.startswith("-") else int(tok)


def tok(v):
    return "-%d" % (M64 - v) if v >= M64 - 5000 else str(v)


def is_err(r):
    return M64 - 4095 <= r <= M64 - 1


def stream_of(w):
    if w[0] == "long":
        return [NEG_EBUSY] * int(w[3]) + [reg(w[4])]
    vals = [reg(t) for t in w[3:]]
    return vals * 8 if w[0] == "call" else vals


def judge(case, out):
    """the property, evaluated on the implementation's output; independent of the model and of the skeletons:
    uses only the wrapper's name and declared return type"""
    w = case.split()
    if w[0] == "const":
        return None if out == "16" else "Errno::EBUSY is %s, Linux EBUSY is 16" % out
    if w[0] == "iserr":
        exp = "1" if is_err(reg(w[1])) else "0"
        return None if out == exp else "is_syscall_error wrong: expected %s" % exp
    name = w[1]
    m = META.get(name)
    if m is None:
        return "unknown wrapper"
    s = stream_of(w)
    at = lambda i: s[i] if i < len(s) else 0
    n = 0
    if name in RETRY_DOC:
        while at(n) == NEG_EBUSY and n < (63 if w[0] != "long" else len(s)):
            n += 1
    r = at(n)
    o = out.split()
    if name in ERR_ONLY and not is_err(r):
        return None  # outside the kernel's contract: execve never returns a non-error value
    if o[0] in ("panic", "diverge", "bad-op", "unknown") or len(o) < 2:
        if o[0] == "diverge":
            return "retry: call re-issued without bound on kernel result %s" % tok(at(0))
        return "no result: " + out
    calls = int(o[-1])
    kind, val = o[0], (o[1] if len(o) == 3 else None)
    if calls != n + 1:
        if calls > n + 1:
            return "retry: %d calls issued, %d expected (result %s is not a reason to repeat)" % (calls, n + 1, tok(at(n)))
        return "no-retry-on-ebusy: %d calls issued, %d expected" % (calls, n + 1)
    cat = m["cat"]
    if cat == "noresult":
        return None if kind == "ret" else "wrapper without Result printed " + out
    if is_err(r):
        exp = M64 - r
        if kind != "err":
            return "error-as-success: kernel returned -%d, wrapper returned %s" % (exp, " ".join(o[:-1]))
        return None if val == str(exp) else "wrong-errno: kernel returned -%d, wrapper reports code %s" % (exp, val)
    if kind != "ok":
        return "success-as-error: kernel returned %s, wrapper returned %s" % (tok(r), " ".join(o[:-1]))
    if cat == "unit":
        return None if val == "-" else "wrong-payload: expected ()"
    if cat == "mem":
        return None if val == "mem" else "wrong-payload: expected a value read from memory"
    bits, signed = BITS[cat]
    e = r % (1 << bits)
    if signed and e >= 1 << (bits - 1):
        e -= 1 << bits
    return None if val == str(e) else "wrong-payload: kernel returned %s, Ok carries %s (expected %d)" % (tok(r), val, e)


def sig_of(case, out, why):
    w = case.split()
    return {"wrapper": w[1] if w[0] in ("call", "seq", "long") else w[0], "kind": why.split(":")[0]}


def variants(w):
    return [0, 1] if any("Option<" in p for p in w["params"]) else [0]


def mode_variants(w, modes):
    """harness VARIANT bits 1-2 = argument mode: 1 = signed integers -1 / bools true, 2 = integers 0, 3 = integers MAX / bools true"""
    import re
    if not any(re.search(r"\b(i32|i64|u32|bool)\b", p) for p in w["params"]):
        return []
    return [v | (m << 1) for m in modes for v in variants(w)]


def neg_variants(w):
    """the same calls with every signed-integer argument -1 and every bool true"""
    return mode_variants(w, [1])


NEG_ERRNOS = [1, 2, 3, 4, 5, 9, 11, 12, 13, 14, 16, 17, 22, 32, 38, 110, 512, 4095]


def nomodel(w):
    """no skeleton to run the model on: the translator cannot follow the body (opaque), or follows it and it is not one of the
    property's shapes (suspect: additionally a broken obligation)"""
    return w["opaque"] or w["suspect"]


def seq_cases(ctx, w, vars_):
    r = ctx.rng
    seq = []
    fixed = [[NEG_EBUSY, NEG_EBUSY, 5], [NEG_EBUSY, M64 - 9], [M64 - 4, 0], [M64 - 11, 7], [16, 3], [NEG_EBUSY] * 7 + [16],
             [2**32 - 16, 1], [NEG_EBUSY] * 20 + [M64 - 1]]
    pool = [NEG_EBUSY, NEG_EBUSY, 16, 0, 5, M64 - 4, M64 - 11, M64 - 4095, M64 - 4096, 2**32 - 16, 2**31 + 16]
    for _ in range(12 if ctx.tier == "quick" else 200):
        fixed.append([r.choice(pool) for _ in range(r.range(1, 6))])
    for s in fixed:
        seq.append("seq %s %d %s" % (w["name"], vars_[r.below(len(vars_))], " ".join(tok(v) for v in s)))
    return seq


def gen_cases(ctx, meta, errnos):
    """cases for the wrappers whose skeleton the translator understands (compared with the model AND judged)"""
    r = ctx.rng
    call, seq = [], []
    for w in X.callable_wrappers(meta):
        if nomodel(w):
            continue
        for var in variants(w):
            for e in errnos:
                call.append("call %s %d -%d" % (w["name"], var, e))
            extra = []
            if ctx.tier == "thorough":
                # more success registers: around every power of two and seeded random 64-bit values
                extra = [max(0, (1 << k) + d) for k in range(1, 64) for d in (-1, 0, 1)] + [r.below(M64 - 4096) for _ in range(200)]
            for v in SUCCESS + extra:
                call.append("call %s %d %s" % (w["name"], var, tok(v)))
        for var in mode_variants(w, [1, 2, 3]):
            for e in (NEG_ERRNOS if ctx.tier == "quick" else errnos):
                call.append("call %s %d -%d" % (w["name"], var, e))
            for v in SUCCESS:
                call.append("call %s %d %s" % (w["name"], var, tok(v)))
            seq.append("seq %s %d -4 -4 5" % (w["name"], var))
            seq.append("seq %s %d -16 -4" % (w["name"], var))
        seq += seq_cases(ctx, w, variants(w))
    return call, seq


def gen_opaque_cases(ctx, meta, errnos):
    """cases for the OPAQUE wrappers (no model): exhaustive over the errno range for EVERY argument variant (the decode of a
    body the translator does not understand may depend on an argument), all success classes, result sequences"""
    r = ctx.rng
    cases = []
    for w in X.callable_wrappers(meta):
        if not nomodel(w):
            continue
        allv = variants(w) + mode_variants(w, [1, 2, 3])
        extra = [max(0, (1 << k) + d) for k in range(1, 64) for d in (-1, 0, 1)] + [r.below(M64 - 4096) for _ in range(64 if ctx.tier == "quick" else 400)]
        for var in allv:
            for e in errnos:
                cases.append("call %s %d -%d" % (w["name"], var, e))
            for v in SUCCESS + extra:
                cases.append("call %s %d %s" % (w["name"], var, tok(v)))
            cases.append("seq %s %d -4 -4 5" % (w["name"], var))
            cases.append("seq %s %d -16 -4" % (w["name"], var))
            cases.append("seq %s %d -16 -16 -16 7" % (w["name"], var))
            # every errno as the SECOND result after one EBUSY (a retry must decode the later result the same way)
            if w["name"] in RETRY_DOC:
                for e in errnos:
                    cases.append("seq %s %d -16 -%d" % (w["name"], var, e))
        for _ in range(4):
            cases += seq_cases(ctx, w, allv)
    return cases


def spec_only(ctx, name, cases, exe, timeout=900):
    """run cases on the implementation alone and judge every output by the property's own statement"""
    _, outs, _ = C.run_filter([exe], cases, timeout=timeout)
    ctx.evaluations += len(cases)
    st = ctx.extra.setdefault("streams", {})
    st[name] = {"cases": len(cases), "failures": 0}
    fails = 0
    for c, o in zip(cases, outs + ["no-output"] * (len(cases) - len(outs))):
        why = judge(c, o)
        if why:
            st[name]["failures"] += 1
            fails += 1
            if fails <= 50:
                ctx.violation(sig_of(c, o, why), {"case": c, "implementation": o, "why": why, "stream": name,
                                                 "how_to_replay": "echo '%s' | %s" % (c, exe)})
    return outs


def value_class(r):
    if is_err(r):
        return "errno"
    if r < 4096:
        return "small(errno-sized)"
    if r >= M64 - 4097:
        return "just-below-error-range"
    return "large"


def signed(v, bits):
    v %= 1 << bits
    return v - (1 << bits) if v >= 1 << (bits - 1) else v


def observe_idioms(ctx, exe, meta):
    """Cfg fields the translator could not determine are taken from what the compiled code does (the proof obligation
    `cfgOk` on them stays): the error window from `is_syscall_error` probed around both ends of the range, the code
    expressions from every errno decoded by a wrapper that uses the idiom."""
    unknown = list(meta["unknown"])
    cfg = meta["cfg"]
    observed = []

    def ask(lines):
        _, outs, _ = C.run_filter([exe], lines, timeout=600)
        ctx.evaluations += len(lines)
        return outs + ["no-output"] * (len(lines) - len(outs))
    if "resv" in unknown:
        probes = list(range(0, 4200)) + [2**31 - 1, 2**31, 2**32 - 4096, 2**32 - 4095, 2**32 - 1, 2**32, 2**63 - 1, 2**63, 2**63 + 1] + \
            [(1 << b) - d for b in (16, 31, 32, 33, 48, 63) for d in (4096, 4095, 1)] + list(range(M64 - 8300, M64))
        outs = ask(["iserr %s" % tok(v) for v in probes])
        ones = sorted(v for v, o in zip(probes, outs) if o == "1")
        zeros = [v for v, o in zip(probes, outs) if o == "0"]
        if ones and len(ones) + len(zeros) == len(probes) and ones == list(range(ones[0], M64)) and ones[0] > 2**63 and all(z < ones[0] for z in zeros):
            cfg["resv"] = M64 - ones[0]
            observed.append("resv: is_syscall_error is true exactly from -%d to -1 on %d probed registers (window and its neighbourhood contiguous, boundaries of every width)" % (cfg["resv"], len(probes)))
            unknown.remove("resv")
    errnos = list(range(1, 4096))
    users = {"bail": [w["name"] for w in X.callable_wrappers(meta) if w["skel"].startswith("(.bail") and not mode_variants(w, [1])][:3],
             "coerce": [w["name"] for w in X.callable_wrappers(meta) if w["skel"] == ".coerceFd" and w["acc"] == ""][:3]}
    if "bailCode" in unknown and users["bail"]:
        good = True
        for n in users["bail"]:
            outs = ask(["call %s 0 -%d" % (n, e) for e in errnos])
            good = good and all(o == "err %d 1" % e for e, o in zip(errnos, outs))
        if good:
            cfg["bailCode"] = ".negI32"
            observed.append("bailCode: every errno 1..=4095 decoded as Err(errno) by " + ", ".join(users["bail"]))
            unknown.remove("bailCode")
    if "coerceCode" in unknown and users["coerce"]:
        good = True
        oks = {"i32": True, "u32": True, "i64": True, "u64": True}
        for n in users["coerce"]:
            outs = ask(["call %s 0 -%d" % (n, e) for e in errnos])
            good = good and all(o == "err %d 1" % e for e, o in zip(errnos, outs))
            outs = ask(["call %s 0 %s" % (n, tok(v)) for v in SUCCESS])
            for v, o in zip(SUCCESS, outs):
                for t, (bits, sg) in BITS.items():
                    exp = signed(v, bits) if sg else v % (1 << bits)
                    oks[t] = oks[t] and o == "ok %d 1" % exp
        if good and oks["i32"]:
            cfg["coerceCode"], cfg["coerceOk"] = ".negI32", "i32"
            observed.append("coerceCode/coerceOk: every errno decoded as Err(errno), every success class as Ok(res as i32) by " + ", ".join(users["coerce"]))
            unknown.remove("coerceCode")
            unknown.remove("coerceOk")
    if observed:
        done = {"resv": "is_syscall_error", "bailCode": "bail_on_below_zero!", "coerceCode": "coerce_from_register"}
        solved = [done[k] for k in done if k in meta["unknown"] and k not in unknown]
        field_of = {"resv": "is_syscall_error", "bailCode": "bail_on_below_zero!", "coerceCode/coerceOk": "coerce_from_register"}
        meta["observed"] = ["%s [not understood statically: %s]" % (o, "; ".join(p for p in meta["problems"] if p.startswith(field_of[o.split(":")[0]])))
                            for o in observed]
        meta["problems"] = [p for p in meta["problems"] if not any(p.startswith(s) for s in solved)]
        meta["unknown"] = unknown
        X.write_lean(meta)
    return observed


def run(ctx):
    global META
    ctx.rule = ("cases = every exported wrapper (x both Option-argument variants) x every errno 1..=4095 forced as the kernel result "
                "x success classes {0,1,2,15,16,17,4095,4096,2^31-1,2^31,2^32,2^63,-4096,-4097, 2^b-{4096,4095,17,16,1} for b in 8..63, k*2^32-n}, "
                "plus signed-argument variants (-1 / 0 / MAX), result sequences (EBUSY prefixes, EINTR/EAGAIN then success, seeded random); "
                "opaque wrappers: all of that for every argument variant; distinct_nontrivial = distinct "
                "(wrapper, value class, outcome kind) triples observed on the implementation")
    ctx.assumptions += [
        "Gen/Wrappers.lean (skeleton per wrapper, decode idioms, LINUX_ERROR_RESV, Errno::EBUSY) is produced by the symbolic translator "
        "checks/c09_extract.py: validated on every run by the differential run of each skeleton against the compiled wrapper, not verified",
        "the scripted kernel (sc-shim handler) replaces the real kernel: results are forced, no system call is executed; memory the kernel "
        "would write (pipe2 fds, uname/stat/termios/timespec buffers) is emulated by the harness",
        "execve returns only on failure (kernel contract): its decode is specified for results in -4095..-1 only",
        "an Ok payload is compared through the wrapper's declared return type: a register that the type cannot hold (e.g. 2^31 as Fd/i32) "
        "is outside what the kernel returns for that call; such cases only require Ok(low bits)",
    ]
    meta = X.extract()
    META = {w["name"]: w for w in meta["wrappers"]}
    callable_ = X.callable_wrappers(meta)
    kinds = {}
    for w in meta["wrappers"]:
        k = "opaque" if w["opaque"] else "suspect" if w["suspect"] else w["skel"].strip("()").split()[0]
        kinds[k] = kinds.get(k, 0) + 1
    ctx.extra["wrappers_in_table"] = len(meta["wrappers"])
    ctx.extra["wrappers_called"] = len(callable_)
    ctx.extra["skeleton_kinds"] = kinds
    ctx.extra["out_of_scope_no_result"] = sorted(w["name"] for w in meta["wrappers"] if w["cat"] == "noresult")
    ctx.extra["skipped_never_returning"] = sorted(w["name"] for w in meta["wrappers"] if w["cat"] == "noreturn")
    ctx.extra["helpers_inlined_into_their_exported_callers"] = [
        {"helper": h["name"], "file": h["file"], "generic": h["generic"],
         "callers": sorted(w["name"] for w in meta["wrappers"] if h["name"].split("::")[-1] in w.get("inlined", []) and w["file"] == h["file"])}
        for h in meta["helpers"]]
    ctx.extra["not_in_this_build"] = meta["skipped"]
    ctx.extra["payload_post_checks_on_kernel_memory"] = sorted(w["name"] for w in meta["wrappers"] if w["post_checks"])
    opaque = [w for w in meta["wrappers"] if w["opaque"]]
    ctx.extra["opaque_wrappers"] = [{"wrapper": w["name"], "file": w["file"], "why_not_understood": w["opaque"],
                                     "decided_by": "run-time correspondence against the property's own statement only (no Lean row obligation)"
                                     if w["pub"] else "not exported: reached through its exported callers"} for w in opaque]
    if opaque:
        ctx.assumptions.append("opaque wrappers (%s): the translator does not understand their bodies; the property is decided for them by calling the "
                               "compiled wrapper under the scripted kernel with every errno 1..=4095 for every argument variant, all success "
                               "classes and result sequences — exhaustive over the error range, sampled over success values and arguments"
                               % ", ".join(w["name"] for w in opaque))
    # a fn that issues the system call, cannot be called by the harness (private / generic) and is not called by any
    # exported wrapper of its file: its decode can neither be inlined into a row nor exercised
    unreachable = [h["name"] for h in meta["helpers"] if not h["reached"]]
    if unreachable:
        ctx.broken.append({"private_wrappers_without_exported_caller": unreachable})

    exe, err = C.cargo_build(ctx, "c09")
    observed = []
    if exe is not None and meta["unknown"]:
        observed = observe_idioms(ctx, exe, meta)
    ctx.extra["extracted_cfg"] = meta["cfg"]
    ctx.extra["observed_idioms"] = observed
    if observed:
        ctx.assumptions.append("decode idioms not understood statically; their model parameters are what the compiled code does: " + " | ".join(observed))
    untranslated = [{"wrapper": w["name"], "file": w["file"], "skeleton": w["skel"]} for w in meta["wrappers"]
                    if w["skel"].startswith(".custom") and not w["opaque"]]
    ctx.extra["wrappers_not_of_the_propertys_shape"] = [{"wrapper": w["name"], "file": w["file"], "why": w["suspect"]} for w in meta["wrappers"] if w["suspect"]]
    untranslated += [{"idiom": p} for p in meta["problems"]]
    if untranslated:
        ctx.broken.append({"untranslated": untranslated})

    ok = C.lean_prove(ctx, "TinyVerif.Props.C09", drivers=["drv_c09"])

    if exe is None:
        ctx.broken.append({"harness_build_failed": err})
        ctx.violation({"kind": "harness-build-failed"}, {"error": err, "note": "a wrapper whose argument/return types the harness has no dummy for, or rusl does not build"}, no_input=True)
        return
    drv = [C.driver_path("drv_c09")]
    errnos = list(range(1, 4096))
    call, seq = gen_cases(ctx, meta, errnos)
    idioms = ["const ebusy"] + ["iserr %s" % tok(v) for v in list(range(0, 64)) + list(range(M64 - 4200, M64)) +
                                [2**31 - 1, 2**31, 2**32 - 4096, 2**32 - 4095, 2**32 - 1, 2**32, 2**63 - 1, 2**63, 2**63 + 1]]
    C.correspond(ctx, "idioms", idioms, [exe], drv, judge, sig_of)
    C.correspond(ctx, "forced-result", call, [exe], drv, judge, sig_of)
    C.correspond(ctx, "result-sequences", seq, [exe], drv, judge, sig_of)
    ocases = gen_opaque_cases(ctx, meta, errnos)
    oouts = spec_only(ctx, "no-model wrappers: opaque or not of the property's shape (spec oracle only, exhaustive errnos x argument variants)", ocases, exe) if ocases else []
    # long EBUSY runs (beyond the model's fuel): judged by the property's own statement only
    longs = []
    for w in callable_:
        counts = [64, 1000, 9999, 10000, 10001, 65535, 65536, 100000] if w["name"] in RETRY_DOC else [65]
        for n in counts:
            for v in ([5, M64 - 9] if w["name"] in RETRY_DOC else [M64 - 9]):
                longs.append("long %s 0 %d %s" % (w["name"], n, tok(v)))
    spec_only(ctx, "long-ebusy-runs (spec oracle only)", longs, exe, timeout=600)
    # malformed lines must be rejected by both sides, never defaulted
    bad = ["call nope 0 1", "call unistd::close 0", "call unistd::close x 1", "seq unistd::close 0", "call unistd::close 0 18446744073709551616", "frob"]
    C.correspond(ctx, "malformed", bad, [exe], drv, lambda c, o: None if o == "bad-op" else "malformed line accepted", lambda c, o, why: {"kind": "malformed-accepted"})

    # coverage numbers from the implementation's own outputs
    _, outs, _ = C.run_filter([exe], call + seq)
    allc, allo = call + seq + ocases, outs + oouts
    for c, o in zip(allc, allo):
        w = c.split()
        r = reg(w[3])
        kind = o.split()[0]
        ctx.count((w[1], value_class(r), kind))
        sk = "no-model" if nomodel(META[w[1]]) else META[w[1]]["skel"].strip("()").split()[0]
        ctx.hist("outcomes_by_skeleton_kind", sk + ":" + value_class(r) + ":" + kind)
        ctx.hist("calls_issued", o.split()[-1])
    lossy = sorted({"%s <- %s" % (c.split()[1], c.split()[3]) for c, o in zip(call, outs)
                    if META[c.split()[1]]["cat"] in BITS and not is_err(reg(c.split()[3])) and o.startswith("ok ")
                    and o.split()[1] != str(reg(c.split()[3]))})
    ctx.extra["unrepresentable_success_values_truncated"] = lossy[:40]
    index = {c: o for c, o in zip(allc, allo)}
    for c in ["call unistd::dup3 0 16", "call unistd::dup3 0 -16", "seq unistd::dup2 0 -16 -16 5", "call process::execve 0 -2",
              "call unistd::open 0 4095", "call unistd::open 0 -4095", "call unistd::read 0 -4096", "call process::wait_pid 0 17"]:
        if c in index:
            ctx.sample({"case": c, "implementation": index[c]})
    if (untranslated or unreachable) and not ctx.violations:
        ctx.violation({"kind": "untranslated"}, {"untranslated": untranslated, "unreachable": unreachable,
                      "note": "the extractor does not recognise this decode; every explored case satisfies the property"}, no_input=True)
    if not ok and not ctx.violations:
        ctx.violation({"kind": "proof-broken"}, {"broken": ctx.broken}, no_input=True)


def replay(ctx, rp):
    """bin/check C09 --replay <file>: re-run the recorded case on the current tree"""
    global META
    meta = X.extract()
    META = {w["name"]: w for w in meta["wrappers"]}
    case = rp.get("replay", {}).get("case")
    if not case:
        print("replay file names a broken obligation, not an input:", json.dumps(rp.get("replay"))[:400])
        return 2
    exe, err = C.cargo_build(ctx, "c09")
    if exe is None:
        print(err)
        return 2
    _, outs, _ = C.run_filter([exe], [case])
    why = judge(case, outs[0] if outs else "no output")
    print("case: %s\nimplementation: %s\nverdict: %s" % (case, outs[0] if outs else None, why or "satisfies the property"))
    return 1 if why else 0
