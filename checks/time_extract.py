#!/usr/bin/env python3
"""Translator for C19 (tie T): regenerates lean/TinyVerif/Gen/TimePure.lean from the *current* Rust TEXT of
/repo/tiny-std/src/time.rs and /repo/rusl/src/platform/compat/time.rs.

Roots are the public entry points of the time API (`Instant`/`SystemTime` `+ Duration`, `- Duration`,
`- Self`, `duration_since`, `elapsed`, `SystemTime::duration_since_unix_time`, `MonotonicInstant::elapsed`,
`TimeSpec::try_from(Duration)`); every free function / method / constant they reach (whatever it is called
in the current source) is translated, statement by statement, into a Lean definition in the three-outcome
monad `R` of Model/Time.lean (value / returned-None / panic) over `Int`, with Rust's integer semantics made
explicit:
  `checked_*`, `try_from`, `try_into`      -> `ck_<ty>`   (Option: None when out of the type's range)
  plain `+ - *`, `+= -= *=`, unary `-`     -> `plain_<ty>` (out of range: panic in a debug build, wrap in release)
  `as <ty>`, `wrapping_*`                  -> `wrap_<ty>`  (two's complement truncation)
  `?` on Option/Result                     -> bind in `R` (`.none` = the function returned None / Err)
  `Duration::new`                          -> `dur_new`    (carry, panics on overflow as core does)
  the clock reading `X::now()`             -> an explicit parameter `now`
The fragment (µRust): let / let mut / let-else / tuple patterns, assignment and compound assignment,
if / else / if let, match on Option / Result / bool, early `return`, `?`, blocks, helper functions with
tuple results, newtype wrappers (erased), struct literal of `__kernel_timespec`.
Anything reached that is outside the fragment is a PROBLEM (exit 1, file not written): fail closed.
Stdlib only.

    python3 checks/time_extract.py [--repo /repo] [--out FILE] [--check] [--print]
    generate(repo) -> (ok, lean_text, problems)
"""
import os
import re
import sys

TIME_REL = "tiny-std/src/time.rs"
TS_REL = "rusl/src/platform/compat/time.rs"
HERE = os.path.dirname(os.path.abspath(__file__))
OUT = os.path.normpath(os.path.join(HERE, "..", "lean", "TinyVerif", "Gen", "TimePure.lean"))


class Bad(Exception):
    pass


# ------------------------------------------------------------------ lexer

TOK = re.compile(r"""
  (?P<ws>\s+|//[^\n]*|/\*.*?\*/)
 |(?P<num>0x[0-9a-fA-F_]+|0b[01_]+|0o[0-7_]+|[0-9][0-9_]*)(?P<suf>(?:[iu](?:8|16|32|64|128|size))?)
 |(?P<str>b?"(?:[^"\\]|\\.)*")
 |(?P<chr>'(?:[^'\\]|\\.)')
 |(?P<life>'[A-Za-z_][A-Za-z0-9_]*)
 |(?P<id>[A-Za-z_][A-Za-z0-9_]*)
 |(?P<p>::|->|=>|==|!=|<=|>=|&&|\|\||\+=|-=|\*=|/=|%=|\.\.=|\.\.|[-+*/%&|^!<>=(){}\[\];,.:\#?@$~])
""", re.X | re.S)


def tokenize(src):
    toks, i, adj = [], 0, False
    while i < len(src):
        m = TOK.match(src, i)
        if not m or m.end() == i:
            raise Bad("cannot tokenize at `%s`" % src[i:i + 20].strip())
        i = m.end()
        if m.group("ws") is not None:
            adj = False
            continue
        if m.group("num") is not None:
            toks.append(("num", int(m.group("num").replace("_", ""), 0), m.group("suf") or None, adj))
        elif m.group("str") is not None:
            toks.append(("str", m.group("str"), None, adj))
        elif m.group("chr") is not None:
            toks.append(("chr", m.group("chr"), None, adj))
        elif m.group("life") is not None:
            toks.append(("life", m.group("life"), None, adj))
        elif m.group("id") is not None:
            toks.append(("id", m.group("id"), None, adj))
        else:
            toks.append(("p", m.group("p"), None, adj))
        adj = True
    return toks


OPEN = {"(": ")", "[": "]", "{": "}"}
BLOCKLIKE = ("if", "match", "block", "unsafe", "unsupported")
ASSIGN_OPS = ("=", "+=", "-=", "*=", "/=", "%=")
BINPREC = [["||"], ["&&"], ["==", "!=", "<", ">", "<=", ">="], ["|"], ["^"], ["&"], ["<<", ">>"],
           ["+", "-"], ["*", "/", "%"]]


class P:
    """recursive-descent parser over a token list (items, types, patterns, statements, expressions)"""

    def __init__(self, toks):
        self.t, self.i = toks, 0

    def peek(self, k=0):
        return self.t[self.i + k] if self.i + k < len(self.t) else ("eof", None, None, False)

    def isp(self, s, k=0):
        t = self.peek(k)
        return t[0] == "p" and t[1] == s

    def isid(self, s=None, k=0):
        t = self.peek(k)
        return t[0] == "id" and (s is None or t[1] == s)

    def eof(self):
        return self.i >= len(self.t)

    def eat(self, s):
        if not self.isp(s):
            raise Bad("expected `%s`, found `%s`" % (s, self.peek()[1]))
        self.i += 1

    def eatid(self, s):
        if not self.isid(s):
            raise Bad("expected `%s`, found `%s`" % (s, self.peek()[1]))
        self.i += 1

    def ident(self):
        t = self.peek()
        if t[0] != "id":
            raise Bad("expected identifier, found `%s`" % (t[1],))
        self.i += 1
        return t[1]

    def skip_balanced(self):
        """at an opening delimiter: skip to just after its partner; returns (start, end) token indexes inside"""
        t = self.peek()
        if t[0] != "p" or t[1] not in OPEN:
            raise Bad("expected a delimiter, found `%s`" % (t[1],))
        stack = [OPEN[t[1]]]
        start = self.i + 1
        self.i += 1
        while stack:
            t = self.peek()
            if t[0] == "eof":
                raise Bad("unbalanced delimiters")
            if t[0] == "p" and t[1] in OPEN:
                stack.append(OPEN[t[1]])
            elif t[0] == "p" and t[1] in (")", "]", "}"):
                if t[1] != stack[-1]:
                    raise Bad("mismatched delimiter `%s`" % t[1])
                stack.pop()
            self.i += 1
        return start, self.i - 1

    def skip_to(self, stops):
        """skip forward (balanced) to the first token in `stops` at depth 0; does not consume it"""
        while True:
            t = self.peek()
            if t[0] == "eof":
                raise Bad("unexpected end of input looking for %s" % (stops,))
            if t[0] == "p" and t[1] in stops:
                return
            if t[0] == "p" and t[1] in OPEN:
                self.skip_balanced()
            else:
                self.i += 1

    # ---------------------------------------------------------------- items

    def attrs(self):
        out = []
        while self.isp("#"):
            self.i += 1
            if self.isp("!"):
                self.i += 1
            a, b = self.skip_balanced()
            out.append("".join(str(x[1]) for x in self.t[a:b]))
        return out

    def items(self):
        out = []
        while not self.eof():
            out.append(self.item())
        return [x for x in out if x]

    def item(self):
        attrs = self.attrs()
        if self.isid("pub"):
            self.i += 1
            if self.isp("("):
                self.skip_balanced()
        quals = []
        while (self.isid("const") and (self.isid("fn", 1) or self.isid("unsafe", 1) or self.isid("extern", 1))) \
                or (self.isid("unsafe") and (self.isid("fn", 1) or self.isid("extern", 1))) \
                or self.isid("async") or (self.isid("extern") and self.peek(1)[0] == "str" and self.isid("fn", 2)):
            quals.append(self.ident())
            if self.peek()[0] == "str":
                self.i += 1
        if self.isid("fn"):
            return self.fn_item(attrs, quals)
        if self.isid("const") or self.isid("static"):
            self.i += 1
            if self.isid("mut"):
                self.i += 1
            name = self.ident() if self.isid() else "_"
            self.eat(":")
            a = self.i
            self.skip_to(("=", ";"))
            tytoks = self.t[a:self.i]
            val = None
            if self.isp("="):
                self.i += 1
                a = self.i
                self.skip_to((";",))
                val = self.t[a:self.i]
            self.eat(";")
            return {"k": "const", "name": name, "ty": tytoks, "val": val, "attrs": attrs}
        if self.isid("struct"):
            self.i += 1
            name = self.ident()
            ent = {"k": "struct", "name": name, "attrs": attrs, "tuple": None}
            if self.isp("<"):
                ent["generic"] = True
                self.skip_to(("(", "{", ";"))
            if self.isp("("):
                a, b = self.skip_balanced()
                ent["tuple"] = self.t[a:b]
                self.skip_to((";",))
                self.eat(";")
            elif self.isp("{"):
                self.skip_balanced()
            else:
                self.skip_to((";", "{"))
                if self.isp("{"):
                    self.skip_balanced()
                else:
                    self.eat(";")
            return ent
        if self.isid("impl"):
            self.i += 1
            a = self.i
            self.skip_to(("{",))
            header = self.t[a:self.i]
            s, e = self.skip_balanced()
            sub = P(self.t[s:e])
            try:
                inner = sub.items()
            except Bad as ex:
                inner = [{"k": "error", "why": str(ex)}]
            return {"k": "impl", "header": header, "items": inner, "attrs": attrs}
        if self.isid("type"):
            self.i += 1
            name = self.ident()
            self.skip_to(("=", ";"))
            val = None
            if self.isp("="):
                self.i += 1
                a = self.i
                self.skip_to((";",))
                val = self.t[a:self.i]
            self.eat(";")
            return {"k": "type", "name": name, "val": val}
        if self.isid("macro_rules") and self.isp("!", 1):
            self.i += 2
            name = self.ident()
            s, e = self.skip_balanced()
            if self.isp(";"):
                self.i += 1
            return {"k": "macro_rules", "name": name, "body": self.t[s:e], "attrs": attrs}
        if self.isid("mod") and self.isid(None, 1) and (self.isp(";", 2) or self.isp("{", 2)):
            self.i += 1
            name = self.ident()
            if self.isp(";"):
                self.i += 1
                return {"k": "mod", "name": name, "body": None, "attrs": attrs}
            s, e = self.skip_balanced()
            return {"k": "mod", "name": name, "body": self.t[s:e], "attrs": attrs}
        if self.isid() and self.isp("!", 1) and (self.isp("(", 2) or self.isp("{", 2) or self.isp("[", 2)):
            # item-position macro invocation `name!(..);` / `name!{..}`: expanded by World (local macro_rules only)
            name = self.ident()
            self.i += 1
            s, e = self.skip_balanced()
            if self.isp(";"):
                self.i += 1
            return {"k": "macro_call", "name": name, "args": self.t[s:e], "attrs": attrs}
        if self.isid() and self.peek()[1] in ("use", "mod", "extern", "enum", "trait", "union"):
            self.skip_to((";", "{"))
            if self.isp("{"):
                self.skip_balanced()
            else:
                self.eat(";")
            return None
        raise Bad("unrecognised item starting at `%s`" % (self.peek()[1],))

    def fn_item(self, attrs, quals):
        self.eatid("fn")
        name = self.ident()
        a = self.i
        self.skip_to(("{", ";"))
        sig = self.t[a:self.i]
        body = None
        if self.isp("{"):
            s, e = self.skip_balanced()
            body = self.t[s:e]
        else:
            self.eat(";")
        return {"k": "fn", "name": name, "sig": sig, "body": body, "attrs": attrs, "quals": quals}

    def signature(self):
        """parser positioned on the tokens between the fn name and the body"""
        if self.isp("<"):
            raise Bad("generic function")
        self.eat("(")
        params, has_self = [], False
        while not self.isp(")"):
            self.attrs()
            if self.isp("&") and (self.isid("self", 1) or (self.isid("mut", 1) and self.isid("self", 2))):
                self.i += 2 if self.isid("self", 1) else 3
                has_self = True
            elif self.isid("self") or (self.isid("mut") and self.isid("self", 1)):
                self.i += 1 if self.isid("self") else 2
                has_self = True
            else:
                if self.isid("mut"):
                    self.i += 1
                pn = self.ident()
                self.eat(":")
                params.append((pn, self.type_()))
            if self.isp(","):
                self.i += 1
            elif not self.isp(")"):
                raise Bad("malformed parameter list")
        self.eat(")")
        ret = ("tuple", [])
        if self.isp("->"):
            self.i += 1
            ret = self.type_()
        if not self.eof():
            raise Bad("unsupported function signature tail `%s`" % (self.peek()[1],))
        return has_self, params, ret

    # ---------------------------------------------------------------- types

    def type_(self):
        if self.isp("("):
            self.i += 1
            parts = []
            while not self.isp(")"):
                parts.append(self.type_())
                if self.isp(","):
                    self.i += 1
                elif not self.isp(")"):
                    raise Bad("malformed tuple type")
            self.eat(")")
            return parts[0] if False else ("tuple", parts)
        if self.isp("&") or self.isp("&&"):
            self.i += 1
            if self.peek()[0] == "life":
                self.i += 1
            if self.isid("mut"):
                self.i += 1
            return ("ref", self.type_())
        if self.isp("*") or self.isp("[") or self.isid("dyn") or self.isid("impl") or self.isid("fn") or self.isp("!"):
            raise Bad("unsupported type syntax at `%s`" % (self.peek()[1],))
        if self.isp("::"):
            self.i += 1
        segs, gen = [self.ident()], []
        while True:
            if self.isp("<"):
                self.i += 1
                gen = []
                while not self.isp(">"):
                    if self.peek()[0] == "life":
                        self.i += 1
                    else:
                        gen.append(self.type_())
                    if self.isp(","):
                        self.i += 1
                    elif not self.isp(">"):
                        raise Bad("malformed generic arguments")
                self.eat(">")
            if self.isp("::"):
                self.i += 1
                if self.isp("<"):
                    continue
                segs.append(self.ident())
                continue
            break
        return ("path", segs, gen)

    # ---------------------------------------------------------------- patterns

    def pattern(self):
        if self.isp("&"):
            self.i += 1
            if self.isid("mut"):
                self.i += 1
            return self.pattern()
        if self.isp("("):
            self.i += 1
            parts = []
            trailing = False
            while not self.isp(")"):
                parts.append(self.pattern())
                trailing = False
                if self.isp(","):
                    self.i += 1
                    trailing = True
                elif not self.isp(")"):
                    raise Bad("malformed tuple pattern")
            self.eat(")")
            if len(parts) == 1 and not trailing:
                return parts[0]
            return ("ptuple", parts)
        t = self.peek()
        if t[0] == "num":
            self.i += 1
            return ("plit", t[1])
        if self.isp("-") and self.peek(1)[0] == "num":
            self.i += 2
            return ("plit", -self.peek(-1)[1])
        if self.isid("true") or self.isid("false"):
            self.i += 1
            return ("pbool", t[1] == "true")
        if self.isid("_"):
            self.i += 1
            return ("pwild",)
        if self.isid("mut") or self.isid("ref"):
            self.i += 1
            if self.isid("mut"):
                self.i += 1
            return ("pid", self.ident())
        if t[0] == "id":
            segs = [self.ident()]
            while self.isp("::"):
                self.i += 1
                segs.append(self.ident())
            if self.isp("("):
                self.i += 1
                parts = []
                while not self.isp(")"):
                    parts.append(self.pattern())
                    if self.isp(","):
                        self.i += 1
                    elif not self.isp(")"):
                        raise Bad("malformed tuple-struct pattern")
                self.eat(")")
                return ("pctor", segs, parts)
            if self.isp("{"):
                raise Bad("struct patterns are not supported")
            if len(segs) == 1 and (segs[0][0].islower() or segs[0][0] == "_"):
                if self.isp("@"):
                    raise Bad("`@` patterns are not supported")
                return ("pid", segs[0])
            return ("ppath", segs)
        raise Bad("unsupported pattern at `%s`" % (t[1],))

    # ---------------------------------------------------------------- statements / blocks

    def block(self):
        self.eat("{")
        b = self.block_body("}")
        self.eat("}")
        return b

    def block_body(self, closer=None):
        stmts = []
        tail = None
        while True:
            if (closer and self.isp(closer)) or (closer is None and self.eof()):
                break
            if self.isp(";"):
                self.i += 1
                continue
            self.attrs()
            if self.isid("let"):
                self.i += 1
                pat = self.pattern()
                ty = None
                if self.isp(":"):
                    self.i += 1
                    ty = self.type_()
                init = els = None
                if self.isp("="):
                    self.i += 1
                    init = self.expr()
                    if self.isid("else"):
                        self.i += 1
                        els = self.block()
                self.eat(";")
                stmts.append(("let", pat, ty, init, els))
                continue
            if self.isid() and self.peek()[1] in ("fn", "use", "struct", "enum", "impl", "static", "mod", "trait", "type") \
                    or (self.isid("const") and not self.isp("{", 1)):
                raise Bad("nested item `%s` inside a function body" % self.peek()[1])
            if self.isid() and self.peek()[1] in ("if", "match", "unsafe", "loop", "while", "for") or self.isp("{"):
                e = self.primary(False)
                if self.isp(".") or self.isp("?"):
                    e = self.postfix(e)
                if (closer and self.isp(closer)) or (closer is None and self.eof()):
                    tail = e
                    break
                if self.isp(";"):
                    self.i += 1
                stmts.append(("expr", e))
                continue
            e = self.expr()
            if self.isp(";"):
                self.i += 1
                stmts.append(("expr", e))
                continue
            if (closer and self.isp(closer)) or (closer is None and self.eof()):
                tail = e
                break
            raise Bad("expected `;` or end of block, found `%s`" % (self.peek()[1],))
        return ("block", stmts, tail)

    # ---------------------------------------------------------------- expressions

    def expr(self, ns=False):
        if self.isid("return"):
            self.i += 1
            t = self.peek()
            if t[0] == "eof" or (t[0] == "p" and t[1] in (";", "}", ",", ")")):
                return ("return", None)
            return ("return", self.expr(ns))
        if self.isid("break") or self.isid("continue"):
            raise Bad("`%s` is not supported" % self.peek()[1])
        if self.isp("|") or self.isp("||") or (self.isid("move") and (self.isp("|", 1) or self.isp("||", 1))):
            if self.isid("move"):
                self.i += 1
            params = []
            if self.isp("||"):
                self.i += 1
            else:
                self.eat("|")
                while not self.isp("|"):
                    params.append(self.pattern())
                    if self.isp(":"):
                        self.i += 1
                        self.type_()
                    if self.isp(","):
                        self.i += 1
                self.eat("|")
            if self.isp("->"):
                raise Bad("closure with a return type")
            return ("closure", params, self.expr(ns))
        l = self.binary(0, ns)
        t = self.peek()
        if t[0] == "p" and t[1] in ASSIGN_OPS:
            self.i += 1
            r = self.expr(ns)
            return ("assign", t[1], l, r)
        if self.isp("..") or self.isp("..="):
            raise Bad("range expressions are not supported")
        return l

    def binop_at(self, lvl):
        t = self.peek()
        if t[0] != "p":
            return None
        if t[1] in ("<", ">") and self.peek(1)[0] == "p" and self.peek(1)[1] == t[1] and self.peek(1)[3]:
            return (t[1] * 2, 2) if (t[1] * 2) in BINPREC[lvl] else None
        if t[1] in BINPREC[lvl]:
            # `a < b` vs a following `<<`: a single `<` immediately followed by an adjacent `<` is a shift
            return (t[1], 1)
        return None

    def binary(self, lvl, ns):
        if lvl == len(BINPREC):
            return self.cast(ns)
        l = self.binary(lvl + 1, ns)
        while True:
            op = self.binop_at(lvl)
            if op is None:
                return l
            if op[0] in ("<", ">") and self.peek(1)[0] == "p" and self.peek(1)[1] == op[0] and self.peek(1)[3]:
                return l
            self.i += op[1]
            r = self.binary(lvl + 1, ns)
            if lvl == 2 and self.binop_at(2) is not None:
                raise Bad("chained comparison")
            l = ("bin", op[0], l, r)

    def cast(self, ns):
        e = self.unary(ns)
        while self.isid("as"):
            self.i += 1
            e = ("cast", e, self.type_())
        return e

    def unary(self, ns):
        if self.isp("!"):
            self.i += 1
            return ("not", self.unary(ns))
        if self.isp("-"):
            self.i += 1
            e = self.unary(ns)
            if e[0] == "num" and e[1] >= 0:
                return ("num", -e[1], e[2])
            return ("neg", e)
        if self.isp("&") or self.isp("&&"):
            self.i += 1
            if self.isid("mut"):
                self.i += 1
            return self.unary(ns)
        if self.isp("*"):
            self.i += 1
            return self.unary(ns)
        return self.postfix(self.primary(ns))

    def args(self):
        self.eat("(")
        out = []
        while not self.isp(")"):
            out.append(self.expr())
            if self.isp(","):
                self.i += 1
            elif not self.isp(")"):
                raise Bad("expected `,` or `)` in arguments")
        self.eat(")")
        return out

    def turbofish(self):
        self.eat("<")
        gen = []
        while not self.isp(">"):
            gen.append(self.type_())
            if self.isp(","):
                self.i += 1
            elif not self.isp(">"):
                raise Bad("malformed turbofish")
        self.eat(">")
        return gen

    def postfix(self, e):
        while True:
            if self.isp("?"):
                self.i += 1
                e = ("try", e)
            elif self.isp("."):
                self.i += 1
                t = self.peek()
                if t[0] == "num":
                    self.i += 1
                    e = ("field", e, str(t[1]))
                    continue
                name = self.ident()
                gen = []
                if self.isp("::"):
                    self.i += 1
                    gen = self.turbofish()
                if self.isp("("):
                    e = ("method", e, name, self.args(), gen)
                else:
                    e = ("field", e, name)
            elif self.isp("("):
                e = ("call", e, self.args())
            elif self.isp("["):
                raise Bad("indexing is not supported")
            else:
                return e

    def primary(self, ns):
        t = self.peek()
        if t[0] == "num":
            self.i += 1
            return ("num", t[1], t[2])
        if t[0] in ("str", "chr"):
            self.i += 1
            return ("strlit", t[1])
        if self.isp("("):
            self.i += 1
            parts, trailing = [], False
            while not self.isp(")"):
                parts.append(self.expr())
                trailing = False
                if self.isp(","):
                    self.i += 1
                    trailing = True
                elif not self.isp(")"):
                    raise Bad("expected `,` or `)`")
            self.eat(")")
            if len(parts) == 1 and not trailing:
                return parts[0]
            return ("tuple", parts)
        if self.isp("{"):
            return self.block()
        if self.isid("unsafe"):
            self.i += 1
            return ("unsafe", self.block())
        if self.isid("if"):
            return self.ifexpr()
        if self.isid("match"):
            self.i += 1
            scrut = self.expr(True)
            self.eat("{")
            arms = []
            while not self.isp("}"):
                self.attrs()
                if self.isp("|"):
                    self.i += 1
                pats = [self.pattern()]
                while self.isp("|"):
                    self.i += 1
                    pats.append(self.pattern())
                guard = None
                if self.isid("if"):
                    self.i += 1
                    guard = self.expr()
                self.eat("=>")
                body = self.expr()
                if self.isp(","):
                    self.i += 1
                elif not self.isp("}") and body[0] not in BLOCKLIKE:
                    raise Bad("expected `,` after match arm")
                arms.append((pats, guard, body))
            self.eat("}")
            return ("match", scrut, arms)
        if self.isid() and t[1] in ("loop", "while", "for"):
            self.i += 1
            self.skip_to(("{",))
            self.skip_balanced()
            return ("unsupported", "`%s` loop" % t[1])
        if self.isid("true") or self.isid("false"):
            self.i += 1
            return ("bool", t[1] == "true")
        if self.isp("<"):
            raise Bad("qualified paths `<T as Trait>::…` are not supported")
        if t[0] == "id" or self.isp("::"):
            if self.isp("::"):
                self.i += 1
            segs, gen = [self.ident()], []
            while self.isp("::"):
                self.i += 1
                if self.isp("<"):
                    gen = self.turbofish()
                else:
                    segs.append(self.ident())
            if self.isp("!") and not self.isp("=", 1) or (self.isp("!") and False):
                self.i += 1
                a, b = self.skip_balanced()
                return ("macro", segs[-1], self.t[a:b])
            if self.isp("{") and not ns and (segs[-1][0].isupper() or segs[-1].startswith("__")):
                self.i += 1
                fields = []
                while not self.isp("}"):
                    if self.isp(".."):
                        raise Bad("struct update syntax is not supported")
                    fname = self.ident()
                    if self.isp(":"):
                        self.i += 1
                        fields.append((fname, self.expr()))
                    else:
                        fields.append((fname, ("path", [fname], [])))
                    if self.isp(","):
                        self.i += 1
                    elif not self.isp("}"):
                        raise Bad("malformed struct literal")
                self.eat("}")
                return ("struct", segs, fields)
            return ("path", segs, gen)
        raise Bad("unexpected token `%s`" % (t[1],))

    def ifexpr(self):
        self.eatid("if")
        if self.isid("let"):
            self.i += 1
            pat = self.pattern()
            self.eat("=")
            c = ("iflet", pat, self.expr(True))
        else:
            c = self.expr(True)
        a = self.block()
        b = None
        if self.isid("else"):
            self.i += 1
            b = self.ifexpr() if self.isid("if") else self.block()
        return ("if", c, a, b)


# ------------------------------------------------------------------ types

INTS = {}
for _w in (8, 16, 32, 64, 128):
    INTS["i%d" % _w] = (-(2 ** (_w - 1)), 2 ** (_w - 1) - 1, 2 ** _w)
    INTS["u%d" % _w] = (0, 2 ** _w - 1, 2 ** _w)
INTS["isize"] = INTS["i64"]
INTS["usize"] = INTS["u64"]

T_BOOL, T_UNIT, T_DUR, T_KTS, T_LIT, T_NEVER = ("bool",), ("unit",), ("dur",), ("kts",), ("lit",), ("never",)


def t_int(n):
    return ("int", n)


def show_ty(t):
    if t is None:
        return "?"
    k = t[0]
    if k == "int":
        return t[1]
    if k in ("opt", "res"):
        return ("Option<%s>" if k == "opt" else "Result<%s, _>") % show_ty(t[1])
    if k == "tup":
        return "(" + ", ".join(show_ty(x) for x in t[1]) + ")"
    if k == "nt":
        return t[1]
    return {"bool": "bool", "unit": "()", "dur": "Duration", "kts": "__kernel_timespec", "lit": "{integer}",
            "never": "!"}.get(k, k)


def lean_ty(t):
    k = t[0]
    if k in ("int", "lit"):
        return "Int"
    if k == "bool":
        return "Bool"
    if k == "unit":
        return "Unit"
    if k in ("opt", "res"):
        return "Option %s" % lean_ty_atom(t[1])
    if k == "tup":
        return " × ".join(lean_ty_atom(x) for x in t[1])
    if k in ("nt", "kts"):
        return "TS"
    if k == "dur":
        return "Dur"
    raise Bad("no Lean type for %s" % show_ty(t))


def lean_ty_atom(t):
    s = lean_ty(t)
    return "(%s)" % s if " " in s else s


LEAN_RESERVED = set("""at from fun end do then else if let have show by in match with open namespace section def theorem
where instance structure class deriving import return for unless try catch finally mut type Type Prop Sort rel now
pure some none true false R TS Dur Int Nat Bool Unit Option ck wrap plain ofOpt reify unwrapP optCase dur_new decide
abbrev example variable universe macro syntax notation infix prefix postfix local private protected partial unsafe
noncomputable mutual inductive attribute set_option using calc suffices obtain exact this fix extends""".split())


def mangle(n):
    if n in LEAN_RESERVED or re.match(r"(ck|wrap|plain)_[iu]", n) or re.search(r"_(MIN|MAX|MOD)$", n):
        return n + "_r"
    return n


class Term:
    """a pure Lean term; `prop` = Prop form of a Bool term; `pending` = an R-computation whose value is
    the payload of an Option/Result-typed Rust expression (`.none` = None/Err)"""

    def __init__(self, text, prop=None, pending=False, lit=None):
        self.text, self.prop, self.pending, self.lit = text, prop, pending, lit
        self.some_of, self.is_none = None, False

    def __str__(self):
        return self.text


def paren(s):
    s = str(s)
    if re.match(r"^[A-Za-z_][A-Za-z0-9_.'!?]*$", s) or re.match(r"^[0-9]+$", s):
        return s
    if s.startswith("(") and s.endswith(")"):
        d = 0
        for i, ch in enumerate(s):
            d += ch == "("
            d -= ch == ")"
            if d == 0 and i != len(s) - 1:
                break
        else:
            return s
    return "(" + s + ")"


def num_text(n):
    return str(n) if n >= 0 else "(%d)" % n


# ------------------------------------------------------------------ the world of items

class Fn:
    def __init__(self, owner, name, item, impl, file):
        self.owner, self.name, self.item, self.impl, self.file = owner, name, item, impl, file
        self.lean = None        # Lean name once translated
        self.state = 0          # 0 new, 1 in progress, 2 done
        self.params = self.ret = None
        self.has_self = False
        self.needs_now = False
        self.mode = None        # "opt" (R payload, .none = None/Err) | "plain"
        self.text = None
        self.refs = []

    def where(self):
        return "%s%s (%s)" % ((self.owner + "::") if self.owner else "", self.name, self.file)


class World:
    def __init__(self):
        self.consts = {}     # (owner|None, name) -> [dict]
        self.fns = {}        # (owner|None, name) -> [Fn]
        self.newtypes = {}   # name -> underlying type
        self.order = []      # emitted item texts in dependency order
        self.used_ints = set()
        self.problems = []
        self.done_consts = {}
        self.fresh = 0

    def load(self, path, rel):
        with open(path, encoding="utf-8") as f:
            src = f.read()
        items = P(tokenize(src)).items()
        for it in items:
            self.add_item(it, None, rel)

    def add_item(self, it, impl, rel):
        if any(a.replace(" ", "").startswith("cfg(test") for a in it.get("attrs", [])):
            return
        k = it["k"]
        owner = impl["self"] if impl else None
        if k == "struct":
            if it.get("tuple") is not None and not it.get("generic"):
                toks = list(it["tuple"])
                p = P(toks)
                try:
                    if p.isid("pub"):
                        p.i += 1
                        if p.isp("("):
                            p.skip_balanced()
                    ty = p.type_()
                    if p.isp(","):
                        p.i += 1
                    if p.eof():
                        self.newtypes[it["name"]] = ("ast", ty)
                except Bad:
                    pass
        elif k == "const":
            self.consts.setdefault((owner, it["name"]), []).append({"item": it, "impl": impl, "file": rel})
        elif k == "fn":
            key = (owner, it["name"])
            self.fns.setdefault(key, []).append(Fn(owner, it["name"], it, impl, rel))
        elif k == "impl":
            hp = P(list(it["header"]))
            try:
                if hp.isp("<"):
                    return  # generic impl: none of the roots live there
                first = hp.type_()
                trait = None
                selfty = first
                if hp.isid("for"):
                    hp.i += 1
                    trait = first
                    selfty = hp.type_()
                if not hp.eof() or selfty[0] != "path" or len(selfty[1]) != 1 or selfty[2]:
                    return
            except Bad:
                return
            ctx = {"self": selfty[1][0], "trait": trait, "assoc": {}}
            for sub in it["items"]:
                if sub["k"] == "type" and sub["val"] is not None:
                    ctx["assoc"][sub["name"]] = sub["val"]
            for sub in it["items"]:
                if sub["k"] == "error":
                    self.consts.setdefault((ctx["self"], "<impl>"), []).append({"error": sub["why"]})
                elif sub["k"] in ("fn", "const"):
                    self.add_item(sub, ctx, rel)

    def resolve(self, ty, impl=None):
        """type AST -> semantic type"""
        k = ty[0]
        if k == "ref":
            return self.resolve(ty[1], impl)
        if k == "tuple":
            if not ty[1]:
                return T_UNIT
            return ("tup", tuple(self.resolve(x, impl) for x in ty[1]))
        if k == "ast":
            return self.resolve(ty[1], impl)
        segs, gen = ty[1], ty[2]
        last = segs[-1]
        if segs == ["Self"]:
            if not impl:
                raise Bad("`Self` outside an impl")
            return self.resolve(("path", [impl["self"]], []), None)
        if segs[0] == "Self" and len(segs) == 2:
            if impl and last in impl["assoc"]:
                return self.resolve(P(list(impl["assoc"][last])).type_(), impl)
            if last == "Error":
                return ("err",)
            raise Bad("unknown associated type Self::%s" % last)
        if last in INTS and len(segs) == 1:
            return t_int(last)
        if last == "bool" and len(segs) == 1:
            return T_BOOL
        if last == "Option" and len(gen) == 1:
            return ("opt", self.resolve(gen[0], impl))
        if last == "Result" and len(gen) in (1, 2):
            return ("res", self.resolve(gen[0], impl))
        if last == "Duration":
            return T_DUR
        if last == "__kernel_timespec":
            return T_KTS
        if last in self.newtypes and not gen:
            under = self.under(last)
            if under is not None:
                return ("nt", last)
        raise Bad("unsupported type `%s`" % "::".join(segs))

    def under(self, name, seen=()):
        """underlying type of a newtype if it is (transitively) a wrapper of __kernel_timespec"""
        if name in seen:
            return None
        u = self.newtypes.get(name)
        if u is None:
            return None
        try:
            t = self.resolve_nt(u, seen + (name,))
        except Bad:
            return None
        return t

    def resolve_nt(self, u, seen):
        ty = u[1] if u[0] == "ast" else u
        if ty[0] != "path":
            raise Bad("not a wrapper")
        last = ty[1][-1]
        if last == "__kernel_timespec":
            return T_KTS
        if last in self.newtypes and last not in seen and self.under(last, seen) is not None:
            return ("nt", last)
        raise Bad("not a wrapper of the kernel timespec")


# ------------------------------------------------------------------ AST analyses

def walk(node, f):
    """pre-order over expression/statement tuples, not descending into closures"""
    if isinstance(node, tuple):
        if node and node[0] == "closure":
            return
        if f(node) is False:
            return
        for x in node:
            walk(x, f)
    elif isinstance(node, list):
        for x in node:
            walk(x, f)


def is_none_like(e):
    if e is None:
        return False
    if e[0] == "path" and e[1] == ["None"]:
        return True
    if e[0] == "call" and e[1][0] == "path" and e[1][1] == ["Err"]:
        return True
    return False


def any_try_or_return(node):
    found = []

    def f(n):
        if n[0] in ("try", "return"):
            found.append(n)
    walk(node, f)
    return bool(found)


def pattern_names(p, acc):
    if p[0] == "pid":
        acc.append(p[1])
    elif p[0] in ("ptuple",):
        for x in p[1]:
            pattern_names(x, acc)
    elif p[0] == "pctor":
        for x in p[2]:
            pattern_names(x, acc)
    return acc


def declared_names(node):
    acc = []

    def f(n):
        if n[0] == "let":
            pattern_names(n[1], acc)
        if n[0] == "iflet":
            pattern_names(n[1], acc)
        if n[0] == "match":
            for pats, _, _ in n[2]:
                for p in pats:
                    pattern_names(p, acc)
    walk(node, f)
    return set(acc)


# ------------------------------------------------------------------ translator

class Tr:
    def __init__(self, W, fn=None, impl=None):
        self.W, self.fn = W, fn
        self.impl = fn.impl if fn else impl
        self.mode = fn.mode if fn else "plain"
        self.ret = fn.ret if fn else None
        self.n = 0
        self.needs_now = False
        self.refs = []

    # -------------------------------------------------- helpers
    def fresh(self):
        self.n += 1
        return "v%d'" % self.n

    def ref(self, name):
        if name not in self.refs:
            self.refs.append(name)

    def use_int(self, name):
        self.W.used_ints.add(name)
        return name

    @staticmethod
    def val(t):
        return "(%d : Int)" % t.lit if t.lit is not None else str(t)

    def unify(self, a, b, what="operands"):
        if a is None:
            return b
        if b is None:
            return a
        if a == T_NEVER:
            return b
        if b == T_NEVER:
            return a
        if a == b:
            return a
        if a == T_LIT and b[0] == "int":
            return b
        if b == T_LIT and a[0] == "int":
            return a
        if a[0] in ("opt", "res") and b[0] == a[0]:
            return (a[0], self.unify(a[1], b[1], what))
        if a[0] == "tup" and b[0] == "tup" and len(a[1]) == len(b[1]):
            return ("tup", tuple(self.unify(x, y, what) for x, y in zip(a[1], b[1])))
        raise Bad("%s have different types %s / %s" % (what, show_ty(a), show_ty(b)))

    def force(self, k):
        def kk(t, ty):
            if t.pending:
                v = self.fresh()
                return ("bind", v, ("raw", "reify %s" % paren(t.text)), k(Term(v), ty))
            return k(t, ty)
        return kk

    def trf(self, e, want, env, k):
        return self.tr(e, want, env, self.force(k))

    def tr_list(self, exprs, wants, env, k):
        def go(i, acc):
            if i == len(exprs):
                return k(acc)
            return self.trf(exprs[i], wants[i] if i < len(wants) else None, env,
                            lambda t, ty: go(i + 1, acc + [(t, ty)]))
        return go(0, [])

    def finish(self, t, ty):
        if self.mode == "opt":
            if ty is not None and ty[0] not in ("opt", "res", "never"):
                raise Bad("function result has type %s, expected %s" % (show_ty(ty), show_ty(self.ret)))
            if t.pending:
                return ("raw", t.text)
            if getattr(t, "some_of", None) is not None:
                return ("pure", t.some_of)
            if getattr(t, "is_none", False):
                return ("raw", "R.none")
            return ("raw", "ofOpt %s" % paren(t))
        if ty is not None and self.ret is not None:
            self.unify(ty, self.ret, "function result and declared type")
        return ("pure", t)

    def value_return(self, node):
        """does `node` contain a `return` that cannot be expressed as `R.none`?"""
        found = []

        def f(n):
            if n[0] == "return":
                if not (self.mode == "opt" and is_none_like(n[1])):
                    found.append(n)
        walk(node, f)
        return bool(found)

    def assigned_outer(self, node, env):
        out = []

        def f(n):
            if n[0] == "assign":
                lhs = n[2]
                if lhs[0] != "path" or len(lhs[1]) != 1:
                    raise Bad("assignment to a place expression is not supported")
                if lhs[1][0] in env and lhs[1][0] not in out:
                    out.append(lhs[1][0])
        walk(node, f)
        clash = declared_names(node) & set(out)
        if clash:
            raise Bad("variable `%s` is both re-declared and assigned inside a nested block" % sorted(clash)[0])
        return sorted(out)

    def join(self, node, env, build, k):
        """evaluate a branching construct as one R-computation yielding (value, assigned outer variables)"""
        assigned = self.assigned_outer(node, env)
        tys = []

        def kj(t, ty):
            tys.append(ty)
            parts = ([] if (ty == T_UNIT and assigned) else [self.val(t)]) + [mangle(a) for a in assigned]
            return ("pure", Term(parts[0] if len(parts) == 1 else "(" + ", ".join(parts) + ")"))
        comp = build(kj)
        ty = None
        for t in tys:
            ty = self.unify(ty, t, "branches")
        if not tys:
            return comp  # every path leaves the function
        v = self.fresh()
        if ty == T_UNIT:
            parts = [mangle(a) for a in assigned]
            pat = "_" if not parts else (parts[0] if len(parts) == 1 else "(" + ", ".join(parts) + ")")
            return ("bind", pat, comp, k(Term("()"), T_UNIT))
        parts = [v] + [mangle(a) for a in assigned]
        pat = parts[0] if len(parts) == 1 else "(" + ", ".join(parts) + ")"
        return ("bind", pat, comp, k(Term(v), ty))

    def branching(self, node, env, build, k):
        if self.value_return(node):
            clash = declared_names(node) & set(env)
            if clash:
                raise Bad("a branch with an early `return <value>` re-declares `%s`" % sorted(clash)[0])
            return build(k)
        return self.join(node, env, build, k)

    # -------------------------------------------------- patterns
    def irrefutable(self, p, ty, binds):
        """Lean pattern text; appends (name, type) to binds"""
        if p[0] == "pid":
            binds.append((p[1], ty))
            return mangle(p[1])
        if p[0] == "pwild":
            return "_"
        if p[0] == "ptuple":
            if ty is None or ty[0] != "tup" or len(ty[1]) != len(p[1]):
                raise Bad("tuple pattern against %s" % show_ty(ty))
            return "(" + ", ".join(self.irrefutable(x, t, binds) for x, t in zip(p[1], ty[1])) + ")"
        if p[0] == "pctor" and len(p[2]) == 1 and ty is not None and ty[0] == "nt":
            name = p[1][-1]
            if name == "Self" and self.impl:
                name = self.impl["self"]
            if name == ty[1]:
                return self.irrefutable(p[2][0], self.W.under(name), binds)
        raise Bad("unsupported pattern in an irrefutable position")

    # -------------------------------------------------- blocks and statements
    def block(self, blk, want, env, k):
        _, stmts, tail = blk

        def go(i, env):
            if i == len(stmts):
                if tail is None:
                    return k(Term("()"), T_UNIT)
                return self.tr(tail, want, env, k)
            s = stmts[i]
            if s[0] == "let":
                return self.let(s, env, lambda env2: go(i + 1, env2))
            e = s[1]
            if e[0] == "assign":
                return self.assign(e, env, lambda env2: go(i + 1, env2))
            if e[0] == "return" and (i + 1 < len(stmts) or tail is not None):
                raise Bad("unreachable statements after `return`")
            return self.trf(e, None, env, lambda t, ty: go(i + 1, env))
        return go(0, dict(env))

    def let(self, s, env, rest):
        _, pat, ty, init, els = s
        want = self.W.resolve(ty, self.impl) if ty is not None else None
        if init is None:
            raise Bad("`let` without an initialiser")
        if els is not None:
            if not (pat[0] == "pctor" and pat[1][-1] in ("Some", "Ok") and len(pat[2]) == 1):
                raise Bad("let-else with a pattern other than Some(..)/Ok(..)")

            def k_else(t, ty_):
                raise Bad("the `else` block of a let-else does not diverge")

            def after(t, ty_):
                if ty_[0] not in ("opt", "res"):
                    raise Bad("let-else on a value of type %s" % show_ty(ty_))
                binds = []
                lp = self.irrefutable(pat[2][0], ty_[1], binds)
                env2 = dict(env)
                env2.update(binds)
                none_comp = self.block(els, None, env, k_else)
                return ("optcase", str(t), lp, rest(env2), none_comp)
            if self.value_return(els) and False:
                pass
            return self.trf(init, want, env, after)

        def bound(t, ty_):
            ty2 = self.unify(ty_, want, "let initialiser and annotation") if want is not None else ty_
            binds = []
            lp = self.irrefutable(pat, ty2, binds)
            env2 = dict(env)
            env2.update(binds)
            if pat[0] == "pid" and str(t) == lp:
                return rest(env2)
            if pat[0] == "pwild":
                return rest(env2)
            asc = " : %s" % lean_ty(ty2) if pat[0] == "pid" and ty2 is not None and ty2[0] != "never" and _complete(ty2) else ""
            return ("let", lp + asc, self.val(t), rest(env2))
        return self.trf(init, want, env, bound)

    def assign(self, e, env, rest):
        _, op, lhs, rhs = e
        if lhs[0] != "path" or len(lhs[1]) != 1 or lhs[1][0] not in env:
            raise Bad("assignment to something that is not a local variable")
        x = lhs[1][0]
        T = env[x]
        lx = mangle(x)
        if op == "=":
            def done(t, ty):
                T2 = self.unify(ty, T, "assignment")
                env2 = dict(env)
                env2[x] = T2
                return ("let", lx, self.val(t), rest(env2))
            return self.trf(rhs, T if T != T_LIT else None, env, done)
        if op not in ("+=", "-=", "*="):
            raise Bad("compound assignment `%s` is not supported" % op)

        def done2(t, ty):
            T2 = self.unify(ty, T, "compound assignment")
            if T2[0] != "int":
                raise Bad("compound assignment on %s" % show_ty(T2))
            env2 = dict(env)
            env2[x] = T2
            return ("bind", lx, ("raw", "plain_%s rel (%s %s %s)" % (self.use_int(T2[1]), lx, op[0], paren(t))), rest(env2))
        return self.trf(rhs, T if T != T_LIT else None, env, done2)

    # -------------------------------------------------- expressions
    def tr(self, e, want, env, k):
        m = getattr(self, "x_" + e[0], None)
        if m is None:
            raise Bad("unsupported expression (%s)" % e[0])
        return m(e, want, env, k)

    def x_unsupported(self, e, want, env, k):
        raise Bad("%s is not supported" % e[1])

    def x_unsafe(self, e, want, env, k):
        raise Bad("`unsafe` block")

    def x_macro(self, e, want, env, k):
        raise Bad("macro call `%s!`" % e[1])

    def x_strlit(self, e, want, env, k):
        raise Bad("string/char literal used as a value")

    def x_closure(self, e, want, env, k):
        raise Bad("closure used as a value")

    def x_assign(self, e, want, env, k):
        raise Bad("assignment used as a value")

    def x_num(self, e, want, env, k):
        n, suf = e[1], e[2]
        ty = t_int(suf) if suf else (want if want is not None and want[0] == "int" else T_LIT)
        if ty[0] == "int":
            lo, hi, _ = INTS[ty[1]]
            if not lo <= n <= hi:
                raise Bad("literal %d out of range for %s" % (n, ty[1]))
        return k(Term(num_text(n), lit=n), ty)

    def x_bool(self, e, want, env, k):
        return k(Term("true" if e[1] else "false", prop="True" if e[1] else "False"), T_BOOL)

    def x_path(self, e, want, env, k):
        segs = e[1]
        if len(segs) == 1 and segs[0] in env:
            ty = env[segs[0]]
            if ty == T_LIT and want is not None and want[0] == "int":
                ty = want
            return k(Term(mangle(segs[0])), ty)
        if segs == ["None"]:
            inner = want[1] if want is not None and want[0] in ("opt", "res") else None
            t = Term("none")
            t.is_none = True
            return k(t, ("opt", inner))
        owner, name = (None, segs[0]) if len(segs) == 1 else (segs[-2], segs[-1])
        if owner == "Self" and self.impl:
            owner = self.impl["self"]
        if owner in INTS and name in ("MAX", "MIN"):
            lo, hi, _ = INTS[owner]
            n = hi if name == "MAX" else lo
            return k(Term(num_text(n), lit=n), t_int(owner))
        if (owner, name) in self.W.consts:
            lean, ty, pure = self.W.const(owner, name)
            self.ref(lean)
            if pure:
                return k(Term(lean), ty)
            v = self.fresh()
            return ("bind", v, ("raw", "%s rel" % lean), k(Term(v), ty))
        raise Bad("unknown name `%s`" % "::".join(segs))

    def x_tuple(self, e, want, env, k):
        if not e[1]:
            return k(Term("()"), T_UNIT)
        wants = list(want[1]) if want is not None and want[0] == "tup" and len(want[1]) == len(e[1]) else []
        return self.tr_list(e[1], wants, env, lambda acc: k(
            Term("(" + ", ".join(self.val(t) for t, _ in acc) + ")"), ("tup", tuple(ty for _, ty in acc))))

    def x_struct(self, e, want, env, k):
        if e[1][-1] != "__kernel_timespec":
            raise Bad("struct literal of `%s`" % "::".join(e[1]))
        names = [f for f, _ in e[2]]
        if sorted(names) != ["tv_nsec", "tv_sec"]:
            raise Bad("__kernel_timespec literal with fields %s" % names)

        def done(acc):
            d = dict(zip(names, acc))
            return k(Term("(TS.mk %s %s)" % (paren(self.val(d["tv_sec"][0])), paren(self.val(d["tv_nsec"][0])))), T_KTS)
        return self.tr_list([x for _, x in e[2]], [t_int("i64"), t_int("i64")], env, done)

    def x_field(self, e, want, env, k):
        def done(t, ty):
            f = e[2]
            if ty[0] == "nt" and f == "0":
                return k(t, self.W.under(ty[1]))
            if ty == T_KTS and f in ("tv_sec", "tv_nsec"):
                return k(Term("%s.%s" % (paren(t), "sec" if f == "tv_sec" else "nsec")), t_int("i64"))
            if ty[0] == "tup" and f.isdigit() and int(f) < len(ty[1]):
                i, n = int(f), len(ty[1])
                return k(Term(paren(t) + ".2" * i + (".1" if i < n - 1 else "")), ty[1][i])
            raise Bad("field `.%s` of %s" % (f, show_ty(ty)))
        return self.trf(e[1], None, env, done)

    def x_return(self, e, want, env, k):
        if e[1] is None:
            return self.finish(Term("()"), T_UNIT)
        if self.mode == "opt" and e[1][0] == "call" and e[1][1][0] == "path" and e[1][1][1] == ["Err"]:
            return ("raw", "R.none")  # the error value itself is erased
        return self.tr(e[1], self.ret, env, self.finish)

    def x_try(self, e, want, env, k):
        if self.mode != "opt":
            raise Bad("`?` in a function that does not return Option/Result")

        def done(t, ty):
            if ty[0] not in ("opt", "res"):
                raise Bad("`?` on a value of type %s" % show_ty(ty))
            if getattr(t, "some_of", None) is not None:
                return k(t.some_of, ty[1])
            if getattr(t, "is_none", False):
                return ("raw", "R.none")
            v = self.fresh()
            comp = ("raw", t.text) if t.pending else ("raw", "ofOpt %s" % paren(t))
            return ("bind", v, comp, k(Term(v), ty[1]))
        return self.tr(e[1], ("opt", want), env, done)

    def x_not(self, e, want, env, k):
        def done(t, ty):
            if ty != T_BOOL:
                raise Bad("`!` on %s" % show_ty(ty))
            return k(Term("(!%s)" % paren(t), prop=("¬ (%s)" % t.prop) if t.prop else None), T_BOOL)
        return self.trf(e[1], T_BOOL, env, done)

    def x_neg(self, e, want, env, k):
        def done(t, ty):
            if ty == T_LIT and t.lit is not None:
                return k(Term(num_text(-t.lit), lit=-t.lit), T_LIT)
            if ty[0] != "int":
                raise Bad("unary minus on %s" % show_ty(ty))
            v = self.fresh()
            return ("bind", v, ("raw", "plain_%s rel (0 - %s)" % (self.use_int(ty[1]), paren(t))), k(Term(v), ty))
        return self.trf(e[1], want, env, done)

    def x_cast(self, e, want, env, k):
        dst = self.W.resolve(e[2], self.impl)
        if dst[0] != "int":
            raise Bad("cast to %s" % show_ty(dst))
        lo, hi, _ = INTS[dst[1]]

        def done(t, ty):
            if ty == T_BOOL:
                return k(Term("(if %s then (1 : Int) else 0)" % (t.prop or str(t))), dst)
            if ty == T_LIT:
                if t.lit is not None and lo <= t.lit <= hi:
                    return k(t, dst)
                return k(Term("(wrap_%s %s)" % (self.use_int(dst[1]), paren(t))), dst)
            if ty[0] != "int":
                raise Bad("cast of %s" % show_ty(ty))
            slo, shi, _ = INTS[ty[1]]
            if lo <= slo and shi <= hi:
                return k(t, dst)
            return k(Term("(wrap_%s %s)" % (self.use_int(dst[1]), paren(t))), dst)
        return self.trf(e[1], None, env, done)

    def x_bin(self, e, want, env, k):
        op, l, r = e[1], e[2], e[3]
        if op == "&&":
            return self.tr(("if", l, ("block", [], r), ("block", [], ("bool", False))), T_BOOL, env, k)
        if op == "||":
            return self.tr(("if", l, ("block", [], ("bool", True)), ("block", [], r)), T_BOOL, env, k)
        cmp_ = {"==": "=", "!=": "≠", "<": "<", ">": ">", "<=": "≤", ">=": "≥"}
        if op in cmp_:
            def left(a, lt):
                def right(b, rt):
                    self.unify(lt, rt, "operands of `%s`" % op)
                    if (lt == T_UNIT or lt[0] in ("opt", "res", "tup")) and op not in ("==", "!="):
                        raise Bad("ordering comparison of %s" % show_ty(lt))
                    la = self.val(a) if (a.lit is not None and b.lit is not None) else str(a)
                    prop = "%s %s %s" % (paren(la), cmp_[op], paren(b))
                    return k(Term("decide (%s)" % prop, prop=prop), T_BOOL)
                return self.trf(r, lt if lt is not None and lt[0] == "int" else None, env, right)
            return self.trf(l, None, env, left)
        if op not in ("+", "-", "*"):
            raise Bad("operator `%s` is not supported" % op)
        wi = want if want is not None and want[0] == "int" else None

        def left2(a, lt):
            def right2(b, rt):
                T = self.unify(lt, rt, "operands of `%s`" % op)
                if T == T_LIT:
                    if a.lit is None or b.lit is None:
                        raise Bad("arithmetic on integers of unknown type")
                    n = {"+": a.lit + b.lit, "-": a.lit - b.lit, "*": a.lit * b.lit}[op]
                    return k(Term(num_text(n), lit=n), T_LIT)
                if T is None or T[0] != "int":
                    raise Bad("arithmetic on %s" % show_ty(T))
                la = self.val(a) if (a.lit is not None and b.lit is not None) else str(a)
                v = self.fresh()
                return ("bind", v, ("raw", "plain_%s rel (%s %s %s)" % (self.use_int(T[1]), paren(la), op, paren(b))),
                        k(Term(v), T))
            return self.trf(r, lt if lt is not None and lt[0] == "int" else wi, env, right2)
        return self.trf(l, wi, env, left2)

    # -------------------------------------------------- control flow
    def cond(self, c, env, kc):
        return self.trf(c, T_BOOL, env, lambda t, ty: self._cond(t, ty, kc))

    def _cond(self, t, ty, kc):
        if ty != T_BOOL:
            raise Bad("condition of type %s" % show_ty(ty))
        return kc(t.prop if t.prop else "%s = true" % paren(t))

    def branch(self, node, want, env, kk):
        if node[0] == "block":
            return self.block(node, want, env, kk)
        return self.tr(node, want, env, kk)

    def x_block(self, e, want, env, k):
        return self.branching(e, env, lambda kk: self.block(e, want, env, kk), k)

    def x_if(self, e, want, env, k):
        c, a, b = e[1], e[2], e[3]

        def build(kk):
            def else_():
                return self.branch(b, want, env, kk) if b is not None else kk(Term("()"), T_UNIT)
            if c[0] == "iflet":
                return self.opt_match(c[2], [([c[1]], None, a), ([("pwild",)], None, None)], want, env, kk, else_)
            return self.cond(c, env, lambda prop: ("if", prop, self.branch(a, want, env, kk), else_()))
        return self.branching(e, env, build, k)

    def x_match(self, e, want, env, k):
        return self.branching(e, env, lambda kk: self.opt_match(e[1], e[2], want, env, kk, None), k)

    def opt_match(self, scrut, arms, want, env, kk, else_thunk):
        for pats, guard, _ in arms:
            if len(pats) != 1:
                raise Bad("or-patterns are not supported")

        def body(node, env2):
            if node is None:
                return else_thunk()
            return self.branch(node, want, env2, kk)

        def done(t, ty):
            flat = [(p[0], g, bd) for p, g, bd in arms]
            if ty[0] in ("opt", "res"):
                def is_some(p):
                    return p[0] == "pctor" and p[1][-1] in ("Some", "Ok") and len(p[2]) == 1

                def is_none(p):
                    return (p[0] == "ppath" and p[1][-1] == "None") or (
                        p[0] == "pctor" and p[1][-1] == "Err" and len(p[2]) == 1 and p[2][0][0] in ("pwild", "pid"))
                for p, _, _ in flat:
                    if not (is_some(p) or is_none(p) or p[0] == "pwild"):
                        raise Bad("unsupported pattern in a match on %s" % show_ty(ty))
                x = self.fresh()

                def chain(i, some):
                    if i == len(flat):
                        raise Bad("match on %s does not cover %s" % (show_ty(ty), "Some" if some else "None"))
                    p, g, bd = flat[i]
                    if (some and is_none(p)) or (not some and is_some(p)):
                        return chain(i + 1, some)
                    env2 = dict(env)
                    wrap_ = lambda c: c
                    if some and is_some(p):
                        binds = []
                        lp = self.irrefutable(p[2][0], ty[1], binds)
                        env2.update(binds)
                        if lp != "_":
                            wrap_ = lambda c: ("let", lp, x, c)
                    if g is None:
                        return wrap_(body(bd, env2))
                    return wrap_(self.cond(g, env2, lambda prop: ("if", prop, body(bd, env2), chain(i + 1, some))))
                return ("optcase", str(t), x, chain(0, True), chain(0, False))
            for _, g, _ in flat:
                if g is not None:
                    raise Bad("match guards are only supported on Option/Result")
            flat = [(p, bd) for p, _, bd in flat]
            if ty == T_BOOL:
                tb = fb = None
                for p, bd in flat:
                    if p[0] == "pbool":
                        if p[1]:
                            tb = tb or (bd,)
                        else:
                            fb = fb or (bd,)
                    elif p[0] == "pwild":
                        tb, fb = tb or (bd,), fb or (bd,)
                    else:
                        raise Bad("unsupported pattern in a match on bool")
                if tb is None or fb is None:
                    raise Bad("match on bool is not exhaustive")
                return ("if", t.prop if t.prop else "%s = true" % paren(t), body(tb[0], env), body(fb[0], env))
            if ty[0] in ("int", "lit"):
                def chain(i):
                    if i == len(flat):
                        raise Bad("match on an integer without a catch-all arm")
                    p, bd = flat[i]
                    if p[0] == "plit":
                        return ("if", "%s = %s" % (paren(t), num_text(p[1])), body(bd, env), chain(i + 1))
                    if p[0] == "pwild":
                        return body(bd, env)
                    if p[0] == "pid":
                        env2 = dict(env)
                        env2[p[1]] = ty
                        return ("let", mangle(p[1]), str(t), body(bd, env2))
                    raise Bad("unsupported pattern in a match on an integer")
                return chain(0)
            raise Bad("match on a value of type %s" % show_ty(ty))
        return self.trf(scrut, None, env, done)

    # -------------------------------------------------- calls
    def nt_name(self, n):
        if n == "Self" and self.impl:
            n = self.impl["self"]
        return n if (n in self.W.newtypes and self.W.under(n) is not None) else None

    def x_call(self, e, want, env, k):
        f, args = e[1], e[2]
        if f[0] != "path":
            raise Bad("call of a computed function value")
        segs = f[1]
        name = segs[-1]
        inner = want[1] if want is not None and want[0] in ("opt", "res") else None
        if len(segs) == 1:
            if name in ("Some", "Ok") and len(args) == 1:
                def done(t, ty):
                    r = Term("(some %s)" % paren(self.val(t)))
                    r.some_of = Term(self.val(t)) if t.lit is not None else t
                    return k(r, ("opt" if name == "Some" else "res", ty))
                return self.trf(args[0], inner, env, done)
            if name == "Err" and len(args) == 1:
                t = Term("none")
                t.is_none = True
                return k(t, ("res", inner))
            nt = self.nt_name(name)
            if nt and len(args) == 1:
                return self.trf(args[0], self.W.under(nt), env, lambda t, ty: k(t, ("nt", nt)))
            if (None, name) in self.W.fns:
                return self.user_call(self.W.pick(None, name), args, env, k)
            raise Bad("call of unknown function `%s`" % name)
        owner = segs[-2]
        if owner == "Self" and self.impl:
            owner = self.impl["self"]
        if owner in INTS:
            return self.int_assoc(owner, name, args, env, k)
        if owner == "Duration":
            return self.dur_assoc(name, args, env, k)
        if self.nt_name(owner) and name == "now" and not args:
            self.needs_now = True
            return k(Term("now"), ("nt", owner))
        if (owner, name) in self.W.fns:
            fn = self.W.pick(owner, name, nargs=len(args))
            return self.user_call(fn, args, env, k)
        raise Bad("call of unknown function `%s`" % "::".join(segs))

    def int_assoc(self, T, name, args, env, k):
        lo, hi, _ = INTS[T]
        if name == "from" and len(args) == 1:
            def done(t, ty):
                if ty == T_BOOL:
                    return k(Term("(if %s then (1 : Int) else 0)" % (t.prop or str(t))), t_int(T))
                if ty == T_LIT:
                    return k(t, t_int(T))
                if ty[0] == "int" and lo <= INTS[ty[1]][0] and INTS[ty[1]][1] <= hi:
                    return k(t, t_int(T))
                raise Bad("%s::from(%s) does not exist" % (T, show_ty(ty)))
            return self.trf(args[0], None, env, done)
        if name == "try_from" and len(args) == 1:
            def done2(t, ty):
                if ty[0] not in ("int", "lit"):
                    raise Bad("%s::try_from(%s)" % (T, show_ty(ty)))
                return k(Term("(ck_%s %s)" % (self.use_int(T), paren(t))), ("res", t_int(T)))
            return self.trf(args[0], None, env, done2)
        raise Bad("`%s::%s` is not supported" % (T, name))

    def dur_assoc(self, name, args, env, k):
        if name == "new" and len(args) == 2:
            def done(acc):
                v = self.fresh()
                self.use_int("u64")
                return ("bind", v, ("raw", "dur_new %s %s" % (paren(self.val(acc[0][0])), paren(self.val(acc[1][0])))),
                        k(Term(v), T_DUR))
            return self.tr_list(args, [t_int("u64"), t_int("u32")], env, done)
        if name == "from_secs" and len(args) == 1:
            return self.trf(args[0], t_int("u64"), env, lambda t, ty: k(Term("(Dur.mk %s 0)" % paren(self.val(t))), T_DUR))
        raise Bad("`Duration::%s` is not supported" % name)

    def user_call(self, fn, args, env, k, self_term=None):
        translate_fn(self.W, fn)
        params = list(fn.params)
        pre = []
        if fn.has_self:
            if self_term is not None:
                pre = [self_term]
            else:
                params = [("self", ("nt", fn.owner))] + params
        if len(args) != len(params):
            raise Bad("arity mismatch calling %s" % fn.where())
        self.ref(fn.lean)
        if fn.needs_now:
            self.needs_now = True

        def done(acc):
            for (t, ty), (_, pty) in zip(acc, params):
                self.unify(ty, pty, "argument and parameter of %s" % fn.name)
            al = [paren(x) for x in pre] + [paren(self.val(t)) for t, _ in acc]
            text = " ".join([fn.lean, "rel"] + (["now"] if fn.needs_now else []) + al)
            if fn.mode == "opt":
                return k(Term(text, pending=True), fn.ret)
            v = self.fresh()
            return ("bind", v, ("raw", text), k(Term(v), fn.ret))
        return self.tr_list(args, [pty for _, pty in params], env, done)

    # -------------------------------------------------- methods
    def x_method(self, e, want, env, k):
        recv, name, args = e[1], e[2], e[3]
        rwant = None
        wi = want[1] if want is not None and want[0] in ("opt", "res") else None
        if name == "ok":
            rwant = ("res", wi)
        elif name in ("map_err", "or_else") and want is not None:
            rwant = want
        elif name in ("ok_or", "ok_or_else"):
            rwant = ("opt", wi)
        elif name == "map" and len(args) == 1 and args[0][0] == "path" and len(args[0][1]) == 1 \
                and self.nt_name(args[0][1][0]) and wi is not None and wi[0] == "nt":
            rwant = (want[0], self.W.under(wi[1]))
        return self.tr(recv, rwant, env, lambda t, ty: self.method_on(t, ty, name, args, want, env, k))

    def method_on(self, t, ty, name, args, want, env, k):
        if ty is None:
            raise Bad("method `.%s()` on a value of unknown type" % name)
        kind = ty[0]
        if kind in ("opt", "res"):
            if name == "ok" and kind == "res" and not args:
                return k(t, ("opt", ty[1]))
            if name in ("ok_or", "ok_or_else") and kind == "opt" and len(args) == 1:
                return k(t, ("res", ty[1]))   # the error value is erased
            if name == "map_err" and kind == "res" and len(args) == 1:
                return k(t, ty)               # the error value is erased
            if name == "map" and len(args) == 1 and args[0][0] == "path" and len(args[0][1]) == 1 and self.nt_name(args[0][1][0]):
                nt = self.nt_name(args[0][1][0])
                self.unify(ty[1], self.W.under(nt), "argument of the newtype constructor")
                return k(t, (kind, ("nt", nt)))

            def forced(t2, ty2):
                s = paren(t2)
                if name in ("is_some", "is_ok") and not args:
                    return k(Term("%s.isSome" % s, prop="%s.isSome = true" % s), T_BOOL)
                if name in ("is_none", "is_err") and not args:
                    return k(Term("%s.isNone" % s, prop="%s.isNone = true" % s), T_BOOL)
                if name == "unwrap_or" and len(args) == 1:
                    return self.trf(args[0], ty[1], env, lambda a, aty: k(Term("(%s.getD %s)" % (s, paren(self.val(a)))), self.unify(ty[1], aty)))
                if name in ("unwrap", "expect"):
                    v = self.fresh()
                    return ("bind", v, ("raw", "unwrapP %s" % s), k(Term(v), ty[1]))
                if name in ("map", "and_then") and len(args) == 1 and args[0][0] == "closure" and len(args[0][1]) == 1:
                    return self.opt_closure(t2, ty, name, args[0], want, env, k)
                raise Bad("method `.%s()` on %s is not supported" % (name, show_ty(ty)))
            return self.force(forced)(t, ty)
        if kind == "nt":
            if (ty[1], name) in self.W.fns:
                fn = self.W.pick(ty[1], name, nargs=len(args) + 1)
                return self.user_call(fn, args, env, k, self_term=str(t))
            if name in ("clone", "to_owned") and not args:
                return k(t, ty)
            raise Bad("method `.%s()` on %s is not defined in the translated sources" % (name, ty[1]))
        if kind in ("int", "lit"):
            return self.int_method(t, ty, name, args, want, env, k)
        if kind == "bool":
            if name == "then_some" and len(args) == 1:
                wi = want[1] if want is not None and want[0] in ("opt", "res") else None
                c = t.prop if t.prop else "%s = true" % paren(t)
                return self.trf(args[0], wi, env, lambda a, aty: k(
                    Term("(if %s then some %s else none)" % (c, paren(self.val(a)))), ("opt", aty)))
            if name == "then" and len(args) == 1 and args[0][0] == "closure" and not args[0][1]:
                wi = want[1] if want is not None and want[0] in ("opt", "res") else None
                c = t.prop if t.prop else "%s = true" % paren(t)
                if self.assigned_outer(args[0][2], env):
                    raise Bad("closure assigns a captured variable")
                tys = []

                def kk(a, aty):
                    tys.append(aty)
                    return ("pure", Term("(some %s)" % paren(self.val(a))))
                body = self.closure_body(args[0][2], wi, env, self.force(kk))
                v = self.fresh()
                return ("bind", v, ("if", c, body, ("pure", Term("none"))), k(Term(v), ("opt", tys[0] if tys else None)))
            raise Bad("method `.%s()` on bool is not supported" % name)
        if kind == "dur":
            s = paren(t)
            if name == "as_secs" and not args:
                return k(Term("%s.secs" % s), t_int("u64"))
            if name == "subsec_nanos" and not args:
                return k(Term("%s.nanos" % s), t_int("u32"))
            if name == "as_nanos" and not args:
                return k(Term("(%s.secs * 1000000000 + %s.nanos)" % (s, s)), t_int("u128"))
            if name == "is_zero" and not args:
                p = "%s.secs = 0 ∧ %s.nanos = 0" % (s, s)
                return k(Term("decide (%s)" % p, prop=p), T_BOOL)
            raise Bad("method `Duration::%s` is not supported" % name)
        raise Bad("method `.%s()` on %s is not supported" % (name, show_ty(ty)))

    def closure_body(self, body, want, env, kk):
        if self.value_return(body) or any_try_or_return(body):
            raise Bad("`?`/`return` inside a closure is not supported")
        return self.branch(body, want, env, kk)

    def opt_closure(self, t, ty, name, clo, want, env, k):
        """`o.map(|p| body)` / `o.and_then(|p| body)`: one R-computation yielding the resulting Option"""
        binds = []
        lp = self.irrefutable(clo[1][0], ty[1], binds)
        if self.assigned_outer(clo[2], env):
            raise Bad("closure assigns a captured variable")
        env2 = dict(env)
        env2.update(binds)
        wi = want[1] if want is not None and want[0] in ("opt", "res") else None
        tys = []

        def kk(a, aty):
            if name == "map":
                tys.append((ty[0], aty))
                return ("pure", Term("(some %s)" % paren(self.val(a))))
            if aty[0] not in ("opt", "res"):
                raise Bad("and_then closure returns %s" % show_ty(aty))
            tys.append(aty)
            return ("pure", a)
        some_comp = self.closure_body(clo[2], wi if name == "map" else want, env2, self.force(kk))
        v = self.fresh()
        rty = tys[0] if tys else (ty[0], None)
        return ("bind", v, ("optcase", str(t), lp, some_comp, ("pure", Term("none"))), k(Term(v), rty))

    def int_method(self, t, ty, name, args, want, env, k):
        s = paren(t)
        if name in ("into", "try_into") and not args:
            tgt = want
            if name == "try_into":
                tgt = want[1] if want is not None and want[0] in ("opt", "res") else None
            if tgt is None or tgt[0] != "int":
                raise Bad("cannot infer the target type of `.%s()`" % name)
            lo, hi, _ = INTS[tgt[1]]
            if name == "into":
                if ty == T_LIT or (lo <= INTS[ty[1]][0] and INTS[ty[1]][1] <= hi):
                    return k(t, tgt)
                raise Bad("`.into()` from %s to %s does not exist" % (show_ty(ty), tgt[1]))
            return k(Term("(ck_%s %s)" % (self.use_int(tgt[1]), s)), ("res", tgt))
        if ty == T_LIT:
            raise Bad("method `.%s()` on an integer of unknown type" % name)
        T = ty[1]
        ops = {"add": "+", "sub": "-", "mul": "*"}
        m = re.match(r"(checked|wrapping)_(add|sub|mul)$", name)
        if m and len(args) == 1:
            def done(a, aty):
                self.unify(ty, aty, "operands of `%s`" % name)
                expr = "%s %s %s" % (s, ops[m.group(2)], paren(a))
                if m.group(1) == "checked":
                    return k(Term("(ck_%s (%s))" % (self.use_int(T), expr)), ("opt", ty))
                return k(Term("(wrap_%s (%s))" % (self.use_int(T), expr)), ty)
            return self.trf(args[0], ty, env, done)
        cmpm = {"ge": "≥", "gt": ">", "le": "≤", "lt": "<", "eq": "=", "ne": "≠"}
        if name in cmpm and len(args) == 1:
            def done2(a, aty):
                self.unify(ty, aty, "operands of `%s`" % name)
                p = "%s %s %s" % (s, cmpm[name], paren(a))
                return k(Term("decide (%s)" % p, prop=p), T_BOOL)
            return self.trf(args[0], ty, env, done2)
        if name in ("is_negative", "is_positive") and not args:
            p = "%s %s 0" % (s, "<" if name == "is_negative" else ">")
            return k(Term("decide (%s)" % p, prop=p), T_BOOL)
        if name in ("clone",) and not args:
            return k(t, ty)
        raise Bad("method `.%s()` on %s is not supported" % (name, T))


def _complete(ty):
    if ty is None:
        return False
    if ty[0] in ("opt", "res"):
        return _complete(ty[1])
    if ty[0] == "tup":
        return all(_complete(x) for x in ty[1])
    return ty[0] not in ("never", "err")


# ------------------------------------------------------------------ printing the IR as Lean `do` blocks

def single(comp):
    if comp[0] == "pure":
        return "pure %s" % paren(comp[1])
    if comp[0] == "raw":
        return comp[1]
    return None


def occurs(name, comp):
    return re.search(r"(?<![A-Za-z0-9_'])%s(?![A-Za-z0-9_'])" % re.escape(name), "\n".join(seq(comp, ""))) is not None


def simplify(comp):
    """cosmetic peepholes: `let v ← c; pure v` = `c`; `let v ← c; let x := v; rest` = `let x ← c; rest`"""
    k = comp[0]
    if k == "let":
        return ("let", comp[1], comp[2], simplify(comp[3]))
    if k == "if":
        return ("if", comp[1], simplify(comp[2]), simplify(comp[3]))
    if k == "optcase":
        return ("optcase", comp[1], comp[2], simplify(comp[3]), simplify(comp[4]))
    if k == "bind":
        pat, c, rest = comp[1], simplify(comp[2]), simplify(comp[3])
        if rest[0] == "pure" and str(rest[1]) == pat and pat.endswith("'"):
            return c
        if rest[0] == "let" and rest[2] == pat and pat.endswith("'") and not occurs(pat, rest[3]):
            return ("bind", rest[1].split(" : ")[0], c, rest[3])
        return ("bind", pat, c, rest)
    return comp


def seq(comp, ind):
    """lines of do-items at indentation `ind`"""
    k = comp[0]
    if k in ("pure", "raw"):
        return [ind + single(comp)]
    if k == "let":
        return [ind + "let %s := %s" % (comp[1], comp[2])] + seq(comp[3], ind)
    if k == "bind":
        s = single(comp[2])
        if s is not None:
            head = [ind + "let %s ← %s" % (comp[1], s)]
        else:
            inner = seq(comp[2], ind + "    ")
            inner[-1] += ")"
            head = [ind + "let %s ← (do" % comp[1]] + inner
        return head + seq(comp[3], ind)
    if k == "if":
        return [ind + "if %s then" % comp[1]] + seq(comp[2], ind + "  ") + [ind + "else"] + seq(comp[3], ind + "  ")
    if k == "optcase":
        a = seq(comp[3], ind + "    ")
        a[-1] += "))"
        sb = single(comp[4])
        if sb is not None:
            b = [ind + "  (%s)" % sb]
        else:
            b = seq(comp[4], ind + "    ")
            b[-1] += ")"
            b = [ind + "  (do"] + b
        return [ind + "optCase %s (fun %s => (do" % (paren(comp[1]), comp[2])] + a + b
    raise Bad("cannot print %r" % (k,))


# ------------------------------------------------------------------ functions and constants

def cfg_attrs(attrs):
    return [a for a in attrs if a.replace(" ", "").startswith("cfg(") or a.replace(" ", "").startswith("cfg_attr(")]


def trait_tag(impl):
    if not impl or not impl.get("trait"):
        return ""
    tr = impl["trait"]
    gen = tr[2]
    if not gen:
        return ""
    g = gen[0]
    if g[0] == "path":
        last = g[1][-1]
        return "" if last in ("Self", impl["self"]) else last
    return "X"


def pick(self, owner, name, nargs=None, tag=None):
    cands = self.fns.get((owner, name), [])
    if tag is not None:
        cands = [f for f in cands if trait_tag(f.impl) == tag]
    if not cands:
        raise Bad("`%s%s` not found" % ((owner + "::") if owner else "", name))
    if len(cands) > 1:
        raise Bad("`%s%s` is defined %d times (conditional compilation or several trait impls): ambiguous"
                  % ((owner + "::") if owner else "", name, len(cands)))
    return cands[0]


def lean_fn_name(W, fn):
    base = (fn.owner + "_" if fn.owner else "") + fn.name
    sibs = W.fns.get((fn.owner, fn.name), [])
    if len(sibs) > 1:
        tag = trait_tag(fn.impl)
        if tag:
            base += "_" + tag
    return mangle(base)


def translate_fn(W, fn):
    if fn.state == 2:
        return
    if fn.state == 1:
        raise Bad("recursion through %s" % fn.where())
    fn.state = 1
    try:
        item = fn.item
        if item["body"] is None:
            raise Bad("%s has no body" % fn.where())
        c = cfg_attrs(item["attrs"])
        if c:
            raise Bad("%s is conditionally compiled (#[%s])" % (fn.where(), c[0]))
        try:
            has_self, params, ret = P(list(item["sig"])).signature()
            fn.has_self = has_self
            fn.params = [(n, W.resolve(t, fn.impl)) for n, t in params]
            fn.ret = W.resolve(ret, fn.impl)
            if has_self and not (fn.owner in W.newtypes and W.under(fn.owner) is not None):
                raise Bad("`self` of type %s" % fn.owner)
            fn.mode = "opt" if fn.ret[0] in ("opt", "res") else "plain"
            fn.lean = lean_fn_name(W, fn)
            body = P(list(item["body"])).block_body(None)
            tr = Tr(W, fn)
            env = {}
            if has_self:
                env["self"] = ("nt", fn.owner)
            for n, t in fn.params:
                env[n] = t
            comp = tr.block(body, fn.ret, env, tr.finish)
        except Bad as ex:
            raise Bad("fn %s: %s" % (fn.where(), ex))
        fn.needs_now = tr.needs_now
        ps = ["(rel : Bool)"] + (["(now : TS)"] if fn.needs_now else [])
        if has_self:
            ps.append("(self : TS)")
        for n, t in fn.params:
            ps.append("(%s : %s)" % (mangle(n), lean_ty(t)))
        rty = fn.ret[1] if fn.mode == "opt" else fn.ret
        sig_txt = " ".join(str(x[1]) for x in item["sig"])
        doc = "/-- `fn %s%s %s` — %s -/\n" % ((fn.owner + "::") if fn.owner else "", fn.name,
                                             re.sub(r"\s+", " ", sig_txt).replace("-/", "- /"), fn.file)
        text = doc + "def %s %s : R %s := do\n%s\n" % (fn.lean, " ".join(ps), lean_ty_atom(rty), "\n".join(seq(simplify(comp), "  ")))
        fn.text = text
        W.order.append(("fn", fn.lean, text))
        fn.state = 2
    except Bad:
        fn.state = 0
        raise


def const(self, owner, name):
    """-> (lean name, type, is_pure)"""
    key = (owner, name)
    if key in self.done_consts:
        return self.done_consts[key]
    ents = self.consts.get(key, [])
    if len(ents) != 1 or "error" in ents[0]:
        raise Bad("constant `%s` is defined %d times" % (name, len(ents)))
    ent = ents[0]
    it = ent["item"]
    if cfg_attrs(it["attrs"]):
        raise Bad("constant `%s` is conditionally compiled" % name)
    if it["val"] is None:
        raise Bad("constant `%s` has no value" % name)
    try:
        ty = self.resolve(P(list(it["ty"])).type_(), ent["impl"])
        p = P(list(it["val"]))
        e = p.expr()
        if not p.eof():
            raise Bad("trailing tokens in the initialiser")
        tr = Tr(self, None, ent["impl"])
        got = []

        def fin(t, ty2):
            got.append(tr.unify(ty2, ty, "constant initialiser and declared type"))
            return ("pure", Term(tr.val(t)))
        comp = tr.trf(e, ty, {}, fin)
        if tr.needs_now:
            raise Bad("reads the clock")
    except Bad as ex:
        raise Bad("const %s (%s): %s" % (name, ent["file"], ex))
    lean = mangle((owner + "_" if owner else "") + name)
    vtxt = re.sub(r"\s+", " ", " ".join(str(x[1]) for x in it["val"])).replace("-/", "- /")
    doc = "/-- `const %s: %s = %s` — %s -/\n" % (name, show_ty(ty), vtxt, ent["file"])
    if comp[0] == "pure":
        text = doc + "abbrev %s : %s := %s\n" % (lean, lean_ty(ty), comp[1])
        res = (lean, ty, True)
    else:
        text = doc + "def %s (rel : Bool) : R %s := do\n%s\n" % (lean, lean_ty_atom(ty), "\n".join(seq(simplify(comp), "  ")))
        res = (lean, ty, False)
    self.order.append(("const" if res[2] else "fn", lean, text))
    self.done_consts[key] = res
    return res


World.pick = pick
World.const = const


# ------------------------------------------------------------------ the generated file

ROOTS = [
    # (owner, method, trait-argument tag, Lean name the theorems of Props/C19.lean refer to)
    ("Instant", "add", "Duration", "Instant_add"),
    ("Instant", "sub", "Duration", "Instant_sub_Duration"),
    ("Instant", "sub", "", "Instant_sub"),
    ("Instant", "duration_since", "", "Instant_duration_since"),
    ("Instant", "elapsed", "", "Instant_elapsed"),
    ("SystemTime", "add", "Duration", "SystemTime_add"),
    ("SystemTime", "sub", "Duration", "SystemTime_sub_Duration"),
    ("SystemTime", "sub", "", "SystemTime_sub"),
    ("SystemTime", "duration_since", "", "SystemTime_duration_since"),
    ("SystemTime", "elapsed", "", "SystemTime_elapsed"),
    ("SystemTime", "duration_since_unix_time", "", "SystemTime_duration_since_unix_time"),
    ("MonotonicInstant", "elapsed", "", "MonotonicInstant_elapsed"),
    ("TimeSpec", "try_from", "Duration", "TimeSpec_try_from"),
]

HEADER = """/- GENERATED by checks/time_extract.py from the Rust text of tiny-std/src/time.rs and
   rusl/src/platform/compat/time.rs — do not edit (regenerated on every `bin/check C19`).
   Every function reachable from the public time API, translated statement by statement into the
   three-outcome monad `R` of Model/Time.lean (`.val` / `.none` = the function returned None or Err /
   `.panic`), integers as `Int` with Rust's range semantics explicit:
     ck_T    = checked_add/sub/mul, try_from, try_into   (none when out of T's range)
     plain_T = plain + - *  (out of range: panic in a debug build, two's-complement wrap in release)
     wrap_T  = `as T`, wrapping_*
     dur_new = core::time::Duration::new (carries whole seconds out of nanos, panics on overflow)
   newtype wrappers (Instant, SystemTime, MonotonicInstant, TimeSpec) are erased to `TS`; the error value
   of a Result is erased; `X::now()` is the parameter `now`; `rel` = release build. -/
import TinyVerif.Model.Time
set_option linter.unusedVariables false
namespace TinyVerif.TimeGen
open TinyVerif.Time (R TS Dur)

/-! ### fixed prelude: Rust integer and Option semantics -/

def ck (lo hi x : Int) : Option Int := if lo ≤ x ∧ x ≤ hi then some x else none
def wrap (lo md x : Int) : Int := lo + (x - lo) % md
def plain (rel : Bool) (lo hi md x : Int) : R Int :=
  if lo ≤ x ∧ x ≤ hi then .val x else if rel = true then .val (wrap lo md x) else .panic

/-- `?` on an Option (or Result, error erased) -/
def ofOpt {α : Type} : Option α → R α
  | some a => .val a
  | none => .none
/-- the Option value of a call of an Option-returning function -/
def reify {α : Type} : R α → R (Option α)
  | .val a => .val (some a)
  | .none => .val none
  | .panic => .panic
/-- `.unwrap()` / `.expect(..)` -/
def unwrapP {α : Type} : Option α → R α
  | some a => .val a
  | none => .panic
/-- `match o { Some(a) => s a, None => n }` -/
def optCase {α β : Type} (o : Option α) (s : α → β) (n : β) : β :=
  match o with
  | some a => s a
  | none => n

theorem ofOpt_some {α : Type} (a : α) : ofOpt (some a) = R.val a := rfl
theorem ofOpt_none {α : Type} : ofOpt (none : Option α) = R.none := rfl
theorem ofOpt_ite {α : Type} (c : Prop) [Decidable c] (x y : Option α) :
    ofOpt (if c then x else y) = if c then ofOpt x else ofOpt y := by split <;> rfl
theorem unwrapP_some {α : Type} (a : α) : unwrapP (some a) = R.val a := rfl
theorem unwrapP_none {α : Type} : unwrapP (none : Option α) = R.panic := rfl
theorem unwrapP_ite {α : Type} (c : Prop) [Decidable c] (x y : Option α) :
    unwrapP (if c then x else y) = if c then unwrapP x else unwrapP y := by split <;> rfl
theorem reify_val {α : Type} (a : α) : reify (R.val a) = R.val (some a) := rfl
theorem reify_none {α : Type} : reify (R.none : R α) = R.val none := rfl
theorem reify_panic {α : Type} : reify (R.panic : R α) = R.panic := rfl
theorem reify_ite {α : Type} (c : Prop) [Decidable c] (x y : R α) :
    reify (if c then x else y) = if c then reify x else reify y := by split <;> rfl
theorem optCase_some {α β : Type} (a : α) (s : α → β) (n : β) : optCase (some a) s n = s a := rfl
theorem optCase_none {α β : Type} (s : α → β) (n : β) : optCase (none : Option α) s n = n := rfl
theorem optCase_ite {α β : Type} (c : Prop) [Decidable c] (x y : Option α) (s : α → β) (n : β) :
    optCase (if c then x else y) s n = if c then optCase x s n else optCase y s n := by split <;> rfl
theorem rbind_val {α β : Type} (a : α) (f : α → R β) : (R.val a >>= f) = f a := rfl
theorem rbind_none {α β : Type} (f : α → R β) : ((R.none : R α) >>= f) = R.none := rfl
theorem rbind_panic {α β : Type} (f : α → R β) : ((R.panic : R α) >>= f) = R.panic := rfl
theorem rpure {α : Type} (a : α) : (pure a : R α) = R.val a := rfl
theorem rbind_ite {α β : Type} (c : Prop) [Decidable c] (x y : R α) (f : α → R β) :
    ((if c then x else y) >>= f) = if c then (x >>= f) else (y >>= f) := by split <;> rfl
theorem rbind_assoc {α β γ : Type} (x : R α) (f : α → R β) (g : β → R γ) :
    ((x >>= f) >>= g) = (x >>= fun a => f a >>= g) := by cases x <;> rfl
theorem ite_then_ite_same {α : Type} (c : Prop) [Decidable c] (x y z : α) :
    (if c then (if c then x else y) else z) = if c then x else z := by split <;> simp [*]
"""

DUR_NEW = """
/-- `core::time::Duration::new(secs: u64, nanos: u32)` -/
def dur_new (secs nanos : Int) : R Dur :=
  if nanos < 1000000000 then .val ⟨secs, nanos⟩
  else if 0 ≤ secs + nanos / 1000000000 ∧ secs + nanos / 1000000000 ≤ u64_MAX then
    .val ⟨secs + nanos / 1000000000, nanos % 1000000000⟩
  else .panic
"""


def int_prelude(names):
    out = []
    for n in sorted(names, key=lambda x: (INTS[x][2], x)):
        lo, hi, md = INTS[n]
        out.append("abbrev %s_MIN : Int := %d" % (n, lo))
        out.append("abbrev %s_MAX : Int := %d" % (n, hi))
        out.append("abbrev %s_MOD : Int := %d" % (n, md))
        out.append("abbrev ck_%s (x : Int) : Option Int := ck %s_MIN %s_MAX x" % (n, n, n))
        out.append("abbrev wrap_%s (x : Int) : Int := wrap %s_MIN %s_MOD x" % (n, n, n))
        out.append("abbrev plain_%s (rel : Bool) (x : Int) : R Int := plain rel %s_MIN %s_MAX %s_MOD x" % (n, n, n, n))
    return "\n".join(out) + "\n"


def generate(repo="/repo"):
    """-> (ok, lean_text, problems)"""
    W = World()
    problems = []
    for rel in (TS_REL, TIME_REL):
        try:
            W.load(os.path.join(repo, rel), rel)
        except (OSError, Bad) as ex:
            problems.append("%s: cannot read/parse the file: %s" % (rel, ex))
    got = {}
    if not problems:
        for owner, name, tag, lean in ROOTS:
            try:
                fn = W.pick(owner, name, tag=tag)
                translate_fn(W, fn)
                got[lean] = fn
                if fn.lean != lean:
                    problems.append("root %s::%s is translated under the name %s, expected %s" % (owner, name, fn.lean, lean))
            except Bad as ex:
                problems.append("root %s::%s%s: %s" % (owner, name, ("<" + tag + ">") if tag else "", ex))
            except RecursionError:
                problems.append("root %s::%s: expression nesting too deep" % (owner, name))
    W.used_ints.add("u64")
    names = [n for _, n, _ in W.order]
    if len(set(names)) != len(names):
        problems.append("two translated items share a Lean name: %s" % sorted(n for n in set(names) if names.count(n) > 1))
    out = [HEADER, int_prelude(W.used_ints), DUR_NEW, "\n/-! ### translated items (dependency order) -/\n"]
    for _, _, text in W.order:
        out.append(text)
    fnnames = [n for k, n, _ in W.order if k == "fn"]
    constnames = [n for k, n, _ in W.order if k == "const"]
    ints = sorted(W.used_ints)
    out.append("/-- names of the translated functions / constants -/\ndef genFns : List String := [%s]\ndef genConsts : List String := [%s]\n"
               % (", ".join('"%s"' % n for n in fnnames), ", ".join('"%s"' % n for n in constnames)))
    unfold = fnnames + ["ck", "plain", "dur_new"] + ["ck_%s" % n for n in ints] + ["plain_%s" % n for n in ints] + [
        "ofOpt_some", "ofOpt_none", "ofOpt_ite", "unwrapP_some", "unwrapP_none", "unwrapP_ite", "reify_val", "reify_none",
        "reify_panic", "reify_ite", "optCase_some", "optCase_none", "optCase_ite", "rbind_val", "rbind_none", "rbind_panic",
        "rpure", "rbind_ite", "rbind_assoc", "if_true", "if_false", "eq_self", "Bool.false_eq_true", "reduceCtorEq"]
    arith = ["wrap"] + ["wrap_%s" % n for n in ints] + ["%s_%s" % (n, s) for n in ints for s in ("MIN", "MAX", "MOD")] + constnames
    out.append("/-- unfold every translated function and the R/Option plumbing: what remains is a tree of `if`s over\n"
               "    integer comparisons with `.val`/`.none`/`.panic` leaves -/\n"
               "macro \"time_gen_unfold\" : tactic => `(tactic| simp only [%s] at *)\n" % ", ".join(unfold))
    out.append("/-- unfold the numeric constants and the wrap functions (after splitting) -/\n"
               "macro \"time_gen_consts\" : tactic => `(tactic| simp only [%s] at *)\n" % ", ".join(arith))
    out.append("end TinyVerif.TimeGen\n")
    return (not problems), "\n".join(out), problems


def write_if_changed(path, text):
    try:
        with open(path, encoding="utf-8") as f:
            if f.read() == text:
                return False
    except OSError:
        pass
    os.makedirs(os.path.dirname(path), exist_ok=True)
    tmp = path + ".tmp%d" % os.getpid()
    with open(tmp, "w", encoding="utf-8") as f:
        f.write(text)
    os.replace(tmp, path)
    return True


def main(argv=None):
    import argparse
    ap = argparse.ArgumentParser(description=__doc__.split("\n")[0])
    ap.add_argument("--repo", default=os.environ.get("VERIF_REPO", "/repo"))
    ap.add_argument("--out", default=OUT)
    ap.add_argument("--check", action="store_true", help="do not write; exit 1 if the file is stale or problems")
    ap.add_argument("--print", action="store_true", help="print the generated text")
    a = ap.parse_args(argv)
    ok, text, problems = generate(a.repo)
    for p in problems:
        print("time_extract: PROBLEM: %s" % p, file=sys.stderr)
    if a.print:
        sys.stdout.write(text)
        return 0 if ok else 1
    if a.check:
        try:
            with open(a.out, encoding="utf-8") as f:
                same = f.read() == text
        except OSError:
            same = False
        if not same:
            print("time_extract: %s is stale" % a.out, file=sys.stderr)
        return 0 if (ok and same) else 1
    if not ok:
        print("time_extract: %d problem(s); %s NOT written" % (len(problems), a.out), file=sys.stderr)
        return 1
    changed = write_if_changed(a.out, text)
    print("time_extract: %s %s" % (a.out, "written" if changed else "unchanged"))
    return 0


if __name__ == "__main__":
    sys.exit(main())
