"""Regenerates lean/TinyVerif/Gen/SqeCtors.lean from the `IoUringSubmissionQueueEntry::new_*`
constructors of /repo/rusl/src/platform/compat/io_uring.rs: per constructor, which 64-byte SQE
field gets which constant / parameter / cast of a parameter.  Anything the translator does not
understand raises Untranslatable (the check reports a broken obligation, never skips).

The translator is a small parser + symbolic evaluator for a PURE expression fragment of Rust:

  body    ::= `{` (`let` IDENT [`:` type] `=` expr `;`)* expr `}`          (also `unsafe { .. }`)
  expr    ::= INT | path | expr `as` int-or-pointer-type | expr `.` field | expr `.` method `(` args `)`
            | `if` expr block `else` block | `(` expr `)` | `[` expr `;` expr `]`
            | path `(` args `)` | core::ptr::addr_of!(place)
            | Struct `{` f `:` expr, f, ... [`..` expr] `}`
  a call  is (1) `Self(rec)` — the tuple-struct wrapper,
             (2) a call of a fn of this file (`Self::helper(..)` = an associated fn of `impl
                 IoUringSubmissionQueueEntry` without `self`; `helper(..)` = a free fn of the file): INLINED — the body is
                 evaluated with the argument values bound to the parameter names (parameters are plain identifiers; a `let`
                 or an inner block that rebinds a name in scope is rejected; recursion is rejected), to any depth,
             (3) one of the primitives the Lean side models (`unpack_dir_fd`, `core::ptr::from_ref::<T>`,
                 `__BindgenUnionField::new/default`).
  struct-update `S { f: e, .., ..base }`: `base` must evaluate to a record of the same struct; fields written explicitly
  replace the base's (whole fields, as in Rust), every other field is the base's.

Every accepted expression form is free of side effects, so evaluation order is irrelevant and substituting argument values for
parameters is exact (Rust has no implicit integer conversion at a call).  The result of a constructor must be `Self(io_uring_sqe
{..})` with exactly the 13 fields of the ABI struct, each assigned once after override resolution.  `as` casts: an integer /
pointer cast to a type of w bytes preserves the value modulo 2^(8w); the Lean model (Src.arg: `any as cast is a truncation to
the field width`) is exact iff every cast on the way to a field is at least as wide as the field — checked here, a narrower
cast is Untranslatable.  The fidelity of the whole translation is checked on every run by the image correspondence of
checks/c18.py (real constructors' bytes vs the Lean encoder over the regenerated table)."""
import os
import re

REPO = os.environ.get("VERIF_REPO", "/repo")
SRC = os.path.join(REPO, "rusl/src/platform/compat/io_uring.rs")
OUT = os.path.join(os.path.dirname(os.path.dirname(os.path.abspath(__file__))), "lean/TinyVerif/Gen/SqeCtors.lean")

IMPL_TYPE = "IoUringSubmissionQueueEntry"
RECORD = "io_uring_sqe"


class Untranslatable(Exception):
    pass


KIND_OF_TYPE = {
    "Fd": "fd", "Option<Fd>": "optfd", "usize": "ptr", "u64": "u64", "u32": "u32", "u16": "u16", "i32": "i32",
    "bool": "bool", "Option<u64>": "optu64", "IoUringSQEFlags": "u8", "&UnixStr": "ptr", "&TimeSpec": "ptr",
    "OpenFlags": "nni32", "StatxFlags": "nni32", "Mode": "u32", "StatxMask": "u32", "RenameFlags": "u32",
    "SocketFlags": "u32", "PollAddMultiFlags": "u32", "PollEvents": "i16", "AddressFamily": "u16", "SocketOptions": "u32",
}
NAMED_CONSTS = {"AT_REMOVEDIR": 0x200, "IORING_TIMEOUT_ABS": 1}
# struct-typed reference parameters whose fields a constructor may use: field -> (kind when read by value)
STRUCT_FIELDS = {"&SocketArgUnix": {"addr": None, "addr_len": "u32"},
                 "&crate::platform::SendDropGuard": {"msghdr": None}}
# functions the Lean side models as primitives (never inlined, whatever their body)
PRIMITIVE_FNS = {"unpack_dir_fd"}
# bytes of the target of an `as` cast (x86_64)
CAST_BYTES = {"u8": 1, "i8": 1, "u16": 2, "i16": 2, "u32": 4, "i32": 4, "u64": 8, "i64": 8, "usize": 8, "isize": 8}
FIELDS = ["opcode", "flags", "ioprio", "fd", "__bindgen_anon_1", "__bindgen_anon_2", "len", "__bindgen_anon_3", "user_data",
          "__bindgen_anon_4", "personality", "__bindgen_anon_5", "__bindgen_anon_6"]
MAX_INLINE_DEPTH = 8


def strip_comments(s):
    s = re.sub(r"//[^\n]*", "", s)
    return re.sub(r"/\*.*?\*/", "", s, flags=re.S)


def opcode_numbers(src):
    """IoUringOp::X -> number, through the bindings' io_uring_op_IORING_OP_* constants"""
    bind = None
    reg = os.path.expanduser("~/.cargo/registry/src")
    for d in os.listdir(reg):
        p = os.path.join(reg, d, "linux-rust-bindings-0.1.3/src/io_uring/io_uring_x86.rs")
        if os.path.exists(p):
            bind = open(p).read()
    if bind is None:
        raise Untranslatable("linux-rust-bindings source not found")
    nums = {m.group(1): int(m.group(2)) for m in re.finditer(r"pub const io_uring_op_(IORING_OP_\w+): io_uring_op = (\d+);", bind)}
    out = {}
    for m in re.finditer(r"(\w+)\s*=\s*comptime_u32_to_u8\(\s*linux_rust_bindings::io_uring::io_uring_op_(IORING_OP_\w+)\s*,?\s*\)", src):
        out[m.group(1)] = nums[m.group(2)]
    return out


# ------------------------------------------------------------------------------------------------ tokens

TOK_RE = re.compile(r"""
   (?P<ws>\s+)
 | (?P<lc>//[^\n]*)
 | (?P<bc>/\*.*?\*/)
 | (?P<str>b?r\#"(?:.*?)"\# | b?r"[^"]*" | b?"(?:[^"\\]|\\.)*")
 | (?P<chr>b?'(?:[^'\\]|\\.[^']*)')
 | (?P<life>'[A-Za-z_]\w*)
 | (?P<int>0[xX][0-9a-fA-F_]+(?:[ui](?:8|16|32|64|128|size))?|0[bB][01_]+(?:[ui](?:8|16|32|64|128|size))?|\d[\d_]*(?:[ui](?:8|16|32|64|128|size))?)
 | (?P<id>[A-Za-z_]\w*)
 | (?P<p>::|->|=>|\.\.=|\.\.\.|\.\.|==|!=|<=|>=|&&|\|\||<<=|>>=|<<|>>|\+=|-=|\*=|/=|%=|\^=|&=|\|=|[-+*/%^!&|=<>@.,;:\#$?~\[\]{}()])
""", re.X | re.S)

OPEN = {"(": ")", "[": "]", "{": "}"}
CLOSE = {")", "]", "}"}


def tokenize(src):
    """list of (kind, text); comments and white space dropped, string/char literals kept as single tokens"""
    out = []
    i, n = 0, len(src)
    while i < n:
        m = TOK_RE.match(src, i)
        if not m:
            raise Untranslatable("tokenizer: unexpected character %r at offset %d" % (src[i], i))
        k = m.lastgroup
        if k not in ("ws", "lc", "bc"):
            out.append((k, m.group(k)))
        i = m.end()
    return out


def match_close(toks, i):
    """index of the token closing the bracket opened at toks[i] (all three bracket kinds are tracked)"""
    stack = []
    for j in range(i, len(toks)):
        k, t = toks[j]
        if k != "p":
            continue
        if t in OPEN:
            stack.append(OPEN[t])
        elif t in CLOSE:
            if not stack or stack.pop() != t:
                raise Untranslatable("unbalanced `%s`" % t)
            if not stack:
                return j
    raise Untranslatable("unbalanced `%s`" % toks[i][1])


def join_tokens(toks):
    """source-like rendering: a blank only between two word-like tokens (`*mut T`, `&'a T`)"""
    s = ""
    prev_word = False
    for k, t in toks:
        word = k in ("id", "int", "life")
        if word and prev_word:
            s += " "
        s += t
        prev_word = word
    return s


def split_commas(toks):
    """top-level comma split of a token list; `<`/`>` are counted as brackets too (type positions only)"""
    out, cur, depth = [], [], 0
    for k, t in toks:
        if k == "p":
            if t in OPEN or t == "<":
                depth += 1
            elif t in CLOSE or t == ">":
                depth -= 1
            elif t == ">>":
                depth -= 2
            elif t == "," and depth == 0:
                out.append(cur)
                cur = []
                continue
        cur.append((k, t))
    if cur:
        out.append(cur)
    return out


# ------------------------------------------------------------------------------------------------ items

class Fn:
    def __init__(self, name, vis, impl, params, ret, body, problem):
        self.name, self.vis, self.impl, self.params, self.ret, self.body, self.problem = name, vis, impl, params, ret, body, problem
        self.ast = None


def strip_attrs(toks):
    out, i = [], 0
    while i < len(toks):
        if toks[i] == ("p", "#") and i + 1 < len(toks) and toks[i + 1][1] in ("[", "!"):
            j = i + 1
            if toks[j][1] == "!":
                j += 1
            if j < len(toks) and toks[j][1] == "[":
                i = match_close(toks, j) + 1
                continue
        out.append(toks[i])
        i += 1
    return out


def header_kind(head):
    """(kind, index of the keyword) of an item header (attributes already stripped)"""
    i = 0
    while i < len(head):
        k, t = head[i]
        if k == "id" and t in ("pub", "const", "unsafe", "async", "extern", "default"):
            i += 1
            if t == "pub" and i < len(head) and head[i][1] == "(":
                i = match_close(head, i) + 1
            continue
        if k == "str":          # extern "C"
            i += 1
            continue
        break
    if i < len(head) and head[i][0] == "id" and head[i][1] in ("fn", "impl", "mod", "trait"):
        return head[i][1], i
    return "other", i


def impl_target(head, ki):
    """type name an `impl` header is for: `impl<..> [Trait for] path::Type<..>` -> Type"""
    rest = head[ki + 1:]
    if rest and rest[0][1] == "<":
        depth = 0
        for j, (k, t) in enumerate(rest):
            if t == "<":
                depth += 1
            elif t == ">":
                depth -= 1
            elif t == ">>":
                depth -= 2
            if depth <= 0:
                rest = rest[j + 1:]
                break
    depth = 0
    for j, (k, t) in enumerate(rest):
        if t == "<":
            depth += 1
        elif t == ">":
            depth -= 1
        elif t == ">>":
            depth -= 2
        elif depth == 0 and (k, t) == ("id", "for"):
            rest = rest[j + 1:]
            break
    name = None
    for k, t in rest:
        if k == "id" and t == "where" or t == "<":
            break
        if k == "id":
            name = t
    return name


def parse_fn_header(head, ki, body, impl):
    """head[ki] is `fn`"""
    name = head[ki + 1][1]
    vis = join_tokens(head[:ki])
    problem = None
    j = ki + 2
    if j < len(head) and head[j][1] == "<":
        problem = "generic function"
        depth = 0
        while j < len(head):
            t = head[j][1]
            depth += {"<": 1, ">": -1, ">>": -2}.get(t, 0)
            j += 1
            if depth <= 0:
                break
    if j >= len(head) or head[j][1] != "(":
        return Fn(name, vis, impl, [], "", body, "unreadable signature")
    pe = match_close(head, j)
    params = []
    for ptoks in split_commas(head[j + 1:pe]):
        if len(ptoks) >= 3 and ptoks[0][0] == "id" and ptoks[0][1] not in ("mut", "self", "ref") and ptoks[1] == ("p", ":"):
            params.append((ptoks[0][1], join_tokens(ptoks[2:])))
        else:
            problem = problem or "parameter `%s` is not `name: Type`" % join_tokens(ptoks)
            params.append((None, join_tokens(ptoks)))
    ret = ""
    rest = head[pe + 1:]
    if rest and rest[0][1] == "->":
        r = []
        for k, t in rest[1:]:
            if (k, t) == ("id", "where"):
                problem = problem or "where clause"
                break
            r.append((k, t))
        ret = join_tokens(r)
    elif rest:
        problem = problem or "unreadable signature"
    return Fn(name, vis, impl, params, ret, body, problem)


def scan_items(toks):
    """all fn items of the file that are free functions (top level) or associated functions of a top-level impl block:
    list of Fn (impl = the impl's type name or None); nested modules, traits and function bodies are not entered"""
    fns = []

    def scan(lo, hi, impl):
        i = start = lo
        while i < hi:
            k, t = toks[i]
            if k == "p" and t == ";":
                start = i + 1
            elif k == "p" and t in ("(", "["):
                i = match_close(toks, i)
            elif k == "p" and t == "{":
                j = match_close(toks, i)
                head = strip_attrs(toks[start:i])
                kind, ki = header_kind(head)
                if kind == "fn" and ki + 1 < len(head):
                    fns.append(parse_fn_header(head, ki, toks[i:j + 1], impl))
                elif kind == "impl" and impl is None:
                    scan(i + 1, j, impl_target(head, ki) or "?")
                i = j
                start = j + 1
            i += 1

    scan(0, len(toks), None)
    return fns


# ------------------------------------------------------------------------------------------------ expressions

BINOPS = {"+", "-", "*", "/", "%", "^", "&", "|", "&&", "||", "<<", ">>", "==", "!=", "<", ">", "<=", ">=", "=", "+=", "-=", "*=",
          "/=", "%=", "^=", "&=", "|=", "<<=", ">>=", "..", "..=", "?"}
KEYWORD_EXPRS = {"match", "loop", "while", "for", "return", "break", "continue", "move", "async", "let", "const", "static", "fn",
                 "struct", "enum", "use", "impl", "type", "trait", "mod", "dyn", "ref", "mut", "await", "yield", "where"}


class Parser:
    """recursive descent over a token list; every form outside the fragment raises Untranslatable naming it"""

    def __init__(self, toks, where):
        self.t = toks
        self.i = 0
        self.where = where

    def fail(self, msg):
        raise Untranslatable("%s: %s (near `%s`)" % (self.where, msg, join_tokens(self.t[max(0, self.i - 3):self.i + 5])))

    def peek(self, off=0):
        j = self.i + off
        return self.t[j] if j < len(self.t) else ("eof", "")

    def at(self, text):
        return self.peek()[0] in ("p", "id") and self.peek()[1] == text

    def eat(self, text):
        if not self.at(text):
            self.fail("expected `%s`" % text)
        self.i += 1

    def ident(self):
        k, t = self.peek()
        if k != "id":
            self.fail("expected an identifier")
        self.i += 1
        return t

    # ---- types (after `as`, in `let x: T`)
    def ty(self):
        start = self.i
        if self.at("*"):
            self.i += 1
            if not (self.at("const") or self.at("mut")):
                self.fail("raw pointer type")
            self.i += 1
            self.ty()
        elif self.at("&"):
            self.i += 1
            if self.peek()[0] == "life":
                self.i += 1
            if self.at("mut"):
                self.i += 1
            self.ty()
        else:
            if self.at("::"):
                self.i += 1
            self.ident()
            while True:
                if self.at("::"):
                    self.i += 1
                    if self.at("<"):
                        self.generics()
                    else:
                        self.ident()
                elif self.at("<"):
                    self.generics()
                else:
                    break
        return join_tokens(self.t[start:self.i])

    def generics(self):
        """balanced `<..>` at self.i; returns its text"""
        start = self.i
        depth = 0
        while True:
            k, t = self.peek()
            if k == "eof":
                self.fail("unbalanced `<`")
            if k == "p":
                if t == "<":
                    depth += 1
                elif t == ">":
                    depth -= 1
                elif t == ">>":
                    depth -= 2
                elif t in OPEN:
                    self.i = match_close(self.t, self.i)
                elif t in (";", "{", "}"):
                    self.fail("unbalanced `<`")
            self.i += 1
            if depth <= 0:
                break
        if depth < 0:
            self.fail("unbalanced `>`")
        return join_tokens(self.t[start:self.i])

    # ---- blocks
    def block(self):
        """`{ (let x [: T] = e;)* e }` -> ("block", [(name, expr)], expr)"""
        self.eat("{")
        lets = []
        while self.at("let"):
            self.i += 1
            if self.at("mut"):
                self.fail("`let mut` is outside the translatable fragment")
            if self.peek()[0] != "id" or self.peek()[1] in ("ref", "_") or self.peek(1)[1] not in (":", "="):
                self.fail("`let` with a pattern is outside the translatable fragment")
            name = self.ident()
            if self.at(":"):
                self.i += 1
                self.ty()
            self.eat("=")
            e = self.expr()
            if self.at("else"):
                self.fail("`let .. else` is outside the translatable fragment")
            if not self.at(";"):
                self.fail("expected `;` after the `let` initialiser")
            self.i += 1
            lets.append((name, e))
        if self.at("}"):
            self.fail("block without a final expression")
        e = self.expr()
        if self.at(";"):
            self.fail("expression statement `..;` is outside the translatable fragment (only `let x = e;` before the final expression)")
        self.eat("}")
        return ("block", lets, e)

    # ---- expressions
    def expr(self, no_struct=False):
        e = self.postfix(no_struct)
        while self.at("as"):
            self.i += 1
            e = ("cast", e, self.ty())
        k, t = self.peek()
        if k == "p" and t in BINOPS:
            self.fail("operator `%s` is outside the translatable fragment" % t)
        return e

    def args(self):
        """`( e, e, .. )` at self.i"""
        self.eat("(")
        out = []
        while not self.at(")"):
            out.append(self.expr())
            if self.at(","):
                self.i += 1
            elif not self.at(")"):
                self.fail("expected `,` or `)` in an argument list")
        self.i += 1
        return out

    def postfix(self, no_struct):
        e = self.primary(no_struct)
        while True:
            if self.at("."):
                self.i += 1
                k, t = self.peek()
                if k == "int" and re.fullmatch(r"\d+", t):
                    self.i += 1
                    e = ("field", e, t)
                elif k == "id" and t != "await":
                    self.i += 1
                    if self.at("("):
                        e = ("mcall", e, t, self.args())
                    elif self.at("::"):
                        self.fail("method call with a turbofish is outside the translatable fragment")
                    else:
                        e = ("field", e, t)
                else:
                    self.fail("unexpected token after `.`")
            elif self.at("(") or self.at("["):
                self.fail("call / index of a computed value is outside the translatable fragment")
            else:
                return e

    def primary(self, no_struct):
        k, t = self.peek()
        if k == "int":
            self.i += 1
            m = re.fullmatch(r"(0[xX][0-9a-fA-F_]+?|0[bB][01_]+?|\d[\d_]*?)(?:[ui](?:8|16|32|64|128|size))?", t)
            return ("int", int(m.group(1).replace("_", ""), 0))
        if k in ("str", "chr", "life"):
            self.fail("literal `%s` is outside the translatable fragment" % t[:20])
        if k == "p":
            if t == "(":
                self.i += 1
                if self.at(")"):
                    self.fail("unit value")
                e = self.expr()
                if not self.at(")"):
                    self.fail("tuple or unbalanced parenthesis")
                self.i += 1
                return e
            if t == "[":
                self.i += 1
                e = self.expr()
                if not self.at(";"):
                    self.fail("array literal other than `[e; n]`")
                self.i += 1
                n = self.expr()
                self.eat("]")
                return ("repeat", e, n)
            if t == "{":
                return self.block()
            if t in ("-", "!", "*", "&", "&&", "|", "||"):
                self.fail("unary operator / closure `%s` is outside the translatable fragment" % t)
            if t not in ("::",):
                self.fail("unexpected `%s`" % t)
        if k == "id":
            if t == "if":
                self.i += 1
                if self.at("let"):
                    self.fail("`if let` is outside the translatable fragment")
                c = self.expr(no_struct=True)
                a = self.block()
                if not self.at("else"):
                    self.fail("`if` without `else`")
                self.i += 1
                b = ("block", [], self.primary(False)) if self.at("if") else self.block()
                return ("if", c, a, b)
            if t == "unsafe" and self.peek(1)[1] == "{":
                self.i += 1
                return self.block()
            if t in KEYWORD_EXPRS:
                self.fail("`%s` is outside the translatable fragment" % t)
        if k == "eof":
            self.fail("unexpected end")
        # path
        segs, generics = [], None
        if self.at("::"):
            self.i += 1
        if self.at("<"):
            self.fail("qualified path `<T as Trait>::..` is outside the translatable fragment")
        segs.append(self.ident())
        while self.at("::"):
            self.i += 1
            if self.at("<"):
                if generics is not None:
                    self.fail("two generic argument lists in one path")
                generics = self.generics()
            else:
                if generics is not None:
                    self.fail("generic arguments in the middle of a path")
                segs.append(self.ident())
        if self.at("!"):
            self.i += 1
            if self.peek()[1] not in OPEN:
                self.fail("macro invocation")
            j = match_close(self.t, self.i)
            inner = self.t[self.i + 1:j]
            self.i = j + 1
            return ("macro", segs, inner)
        if self.at("("):
            return ("call", segs, generics, self.args())
        if self.at("{") and not no_struct:
            if generics is not None:
                self.fail("struct literal with generic arguments")
            return self.struct(segs)
        if generics is not None:
            self.fail("generic path used as a value")
        return ("path", segs)

    def struct(self, segs):
        self.eat("{")
        fields, base = [], None
        while not self.at("}"):
            if self.at(".."):
                self.i += 1
                if self.at("}"):
                    self.fail("`..` without a base expression")
                base = self.expr()
                if not self.at("}"):
                    self.fail("the base of a struct update must come last")
                break
            if self.peek()[0] != "id":
                self.fail("field name expected in a struct literal")
            name = self.ident()
            if self.at(":"):
                self.i += 1
                fields.append((name, self.expr()))
            else:
                fields.append((name, ("path", [name])))        # field init shorthand
            if self.at(","):
                self.i += 1
            elif not self.at("}"):
                self.fail("expected `,` or `}` in a struct literal")
        self.eat("}")
        return ("struct", segs, fields, base)


def parse_body(fn, where):
    if fn.ast is None:
        p = Parser(fn.body, where)
        fn.ast = p.block()
        if p.i != len(fn.body):
            p.fail("trailing tokens after the function body")
    return fn.ast


# ------------------------------------------------------------------------------------------------ evaluation (inlining)

def show(v):
    """readable rendering of a value / expression for messages"""
    k = v[0]
    if k == "int":
        return str(v[1])
    if k in ("param", "named"):
        return v[1]
    if k == "path":
        return "::".join(v[1])
    if k == "cast":
        return "%s as %s" % (show(v[1]), v[2])
    if k == "field":
        return "%s.%s" % (show(v[1]), v[2])
    if k == "mcall":
        return "%s.%s(%s)" % (show(v[1]), v[2], ", ".join(show(a) for a in v[3]))
    if k == "call":
        return "%s%s(%s)" % ("::".join(v[1]), "::" + v[2] if v[2] else "", ", ".join(show(a) for a in v[3]))
    if k == "if":
        return "if %s { %s } else { %s }" % (show(v[1]), show(v[2]), show(v[3]))
    if k == "addr_of":
        return "addr_of!(%s)" % show(v[1])
    if k == "repeat":
        return "[%s; %s]" % (show(v[1]), show(v[2]))
    if k == "rec":
        return "%s { %s }" % (v[1], ", ".join("%s: %s" % (f, show(x)) for f, x in v[2].items()))
    if k == "wrap":
        return "Self(%s)" % show(v[1])
    return str(v)[:80]


class Evaluator:
    def __init__(self, fns, ctor):
        self.impl_fns, self.free_fns = {}, {}
        for f in fns:
            if f.impl == IMPL_TYPE:
                self.impl_fns.setdefault(f.name, []).append(f)
            elif f.impl is None:
                self.free_fns.setdefault(f.name, []).append(f)
        self.ctor = ctor
        self.inlined = []           # helper fns the constructor's value went through, in evaluation order
        self.struct_updates = 0
        self.lets = 0

    def fail(self, msg):
        raise Untranslatable("%s: %s" % (self.ctor, msg))

    def resolve(self, segs):
        """the fn of this file a call path names, or None"""
        if len(segs) == 2 and segs[0] in ("Self", IMPL_TYPE) and segs[1] in self.impl_fns:
            cands = self.impl_fns[segs[1]]
        elif len(segs) == 1 and segs[0] in self.free_fns and segs[0] not in PRIMITIVE_FNS:
            cands = self.free_fns[segs[0]]
        else:
            return None
        if len(cands) != 1:
            self.fail("%d definitions of `%s` in the file (cfg variants?): cannot tell which one is called" % (len(cands), "::".join(segs)))
        return cands[0]

    def block(self, b, env, stack):
        env = dict(env)
        for name, e in b[1]:
            if name in env or name in NAMED_CONSTS:
                self.fail("`let %s` rebinds a name that is already in scope (shadowing is outside the translatable fragment)" % name)
            env[name] = self.ev(e, env, stack)
            self.lets += 1
        return self.ev(b[2], env, stack)

    def inline(self, fn, args, stack):
        label = ("Self::" if fn.impl else "") + fn.name
        if fn.problem:
            self.fail("call of `%s`: %s" % (label, fn.problem))
        if fn.name in [s for s in stack]:
            self.fail("call of `%s`: recursion" % label)
        if len(stack) >= MAX_INLINE_DEPTH:
            self.fail("call of `%s`: helpers nested deeper than %d" % (label, MAX_INLINE_DEPTH))
        if len(args) != len(fn.params):
            self.fail("call of `%s` with %d arguments for %d parameters" % (label, len(args), len(fn.params)))
        names = [p for p, _ in fn.params]
        if len(set(names)) != len(names):
            self.fail("call of `%s`: duplicate parameter names" % label)
        for p in names:
            if p in NAMED_CONSTS:
                self.fail("call of `%s`: parameter `%s` hides a constant" % (label, p))
        body = parse_body(fn, "%s: helper `%s`" % (self.ctor, label))
        self.inlined.append(label)
        # lexical scoping: the helper sees its own parameters only
        return self.block(body, dict(zip(names, args)), stack + [fn.name])

    def ev(self, e, env, stack):
        k = e[0]
        if k == "int":
            return e
        if k == "path":
            segs = e[1]
            if len(segs) == 1:
                if segs[0] in env:
                    return env[segs[0]]
                if segs[0] in NAMED_CONSTS:
                    return ("named", segs[0])
                self.fail("identifier `%s` is neither a parameter, a `let` binding in scope nor a known constant" % segs[0])
            return e
        if k == "cast":
            return ("cast", self.scalar(self.ev(e[1], env, stack), "operand of `as`"), e[2])
        if k == "field":
            return ("field", self.scalar(self.ev(e[1], env, stack), "receiver of `.%s`" % e[2]), e[2])
        if k == "mcall":
            return ("mcall", self.scalar(self.ev(e[1], env, stack), "receiver of `.%s()`" % e[2]), e[2],
                    [self.scalar(self.ev(a, env, stack), "method argument") for a in e[3]])
        if k == "if":
            return ("if", self.scalar(self.ev(e[1], env, stack), "condition"), self.block(e[2], env, stack), self.block(e[3], env, stack))
        if k == "block":
            return self.block(e, env, stack)
        if k == "repeat":
            return ("repeat", self.ev(e[1], env, stack), self.ev(e[2], env, stack))
        if k == "macro":
            if e[1] not in (["core", "ptr", "addr_of"], ["ptr", "addr_of"], ["addr_of"]):
                self.fail("macro `%s!` is outside the translatable fragment" % "::".join(e[1]))
            p = Parser(e[2], "%s: addr_of!" % self.ctor)
            inner = p.expr()
            if p.i != len(e[2]):
                p.fail("trailing tokens")
            return ("addr_of", self.ev(inner, env, stack))
        if k == "struct":
            tyname = e[1][-1]
            if len(e[1]) != 1 or tyname in ("Self", IMPL_TYPE):
                self.fail("struct literal of `%s`: only the binding structs are translatable" % "::".join(e[1]))
            fields = {}
            for f, x in e[2]:
                if f in fields:
                    self.fail("field `%s` written twice in one `%s` literal" % (f, tyname))
                fields[f] = self.ev(x, env, stack)
            if e[3] is not None:
                base = self.ev(e[3], env, stack)
                if base[0] != "rec" or base[1] != tyname:
                    self.fail("struct update `..%s`: the base is not a translatable `%s` value" % (show(e[3])[:60], tyname))
                merged = dict(base[2])          # the base's fields, then the explicit ones replace them (whole fields)
                merged.update(fields)
                fields = merged
                self.struct_updates += 1
            return ("rec", tyname, fields)
        if k == "call":
            segs, generics = e[1], e[2]
            args = [self.ev(a, env, stack) for a in e[3]]
            if segs in (["Self"], [IMPL_TYPE]) and generics is None:
                if len(args) != 1 or args[0][0] != "rec" or args[0][1] != RECORD:
                    self.fail("`%s(..)` is not applied to one `%s` value" % (segs[0], RECORD))
                return ("wrap", args[0])
            fn = self.resolve(segs)
            if fn is not None:
                if generics is not None:
                    self.fail("call of `%s` with generic arguments" % "::".join(segs))
                return self.inline(fn, args, stack)
            if segs == ["__BindgenUnionField", "new"] or segs == ["__BindgenUnionField", "default"]:
                if args or generics:
                    self.fail("`%s` with arguments" % "::".join(segs))
                return ("call", segs, None, [])
            if segs == ["unpack_dir_fd"] or segs in (["core", "ptr", "from_ref"], ["ptr", "from_ref"]):
                return ("call", segs, generics, [self.scalar(a, "argument of `%s`" % segs[-1]) for a in args])
            self.fail("call of `%s`: neither a function defined in this file (free, or associated to %s) nor a primitive the model knows"
                      % ("::".join(segs), IMPL_TYPE))
        self.fail("expression form `%s` is outside the translatable fragment" % k)

    def scalar(self, v, what):
        if v[0] in ("rec", "wrap"):
            self.fail("%s is a struct value (`%s`): outside the translatable fragment" % (what, show(v)[:60]))
        return v


# ------------------------------------------------------------------------------------------------ one constructor

def build(name, params, fields, ops):
    """params: [(name, type)]; fields: field name -> evaluated value (leaves are ("param", p))"""
    operands = []      # (name, kind)
    index = {}

    def operand(nm, kind):
        if nm not in index:
            index[nm] = len(operands)
            operands.append((nm, kind))
        return index[nm]

    ptypes = dict(params)
    for pn, pt in params:
        if pt in KIND_OF_TYPE:
            operand(pn, KIND_OF_TYPE[pt])
        elif pt.startswith("*mut ") or pt.startswith("*const "):
            operand(pn, "ptr")
        elif pt in STRUCT_FIELDS:
            pass        # flattened on use
        else:
            raise Untranslatable("%s: parameter type %s" % (name, pt))

    def peel(v, width):
        """strips `as` casts; each must keep at least `width` low bytes intact"""
        while v[0] == "cast":
            ty = v[2]
            w = 8 if (ty.startswith("*const ") or ty.startswith("*mut ")) else CAST_BYTES.get(ty)
            if w is None:
                raise Untranslatable("%s: cast to `%s` is outside the translatable fragment" % (name, ty))
            if w < width:
                raise Untranslatable("%s: `%s` narrows to %d bytes before a %d-byte field: the model's cast rule (truncation to the field "
                                     "width) does not describe it" % (name, show(v), w, width))
            v = v[1]
        return v

    def const_of(v, width):
        v = peel(v, width)
        if v[0] == "mcall" and v[2] == "into_u32" and not v[3]:
            v = peel(v[1], width)
        if v[0] == "int":
            return v[1]
        if v[0] == "named":
            return NAMED_CONSTS[v[1]]
        raise Untranslatable("%s: constant %s" % (name, show(v)))

    def is_param(v, pred=None):
        return v[0] == "param" and v[1] in ptypes and (pred is None or pred(ptypes[v[1]]))

    def tr(v, width):
        whole = v
        v = peel(v, width)
        k = v[0]
        if k == "int":
            return "(.const %d)" % v[1]
        if k == "named":
            return "(.const %d)" % NAMED_CONSTS[v[1]]
        if k == "path" and len(v[1]) == 2 and v[1][0] == "IoUringOp":
            if v[1][1] not in ops:
                raise Untranslatable("%s: opcode %s has no number in the bindings" % (name, show(v)))
            return "(.const %d)" % ops[v[1][1]]
        if k == "call" and v[1] == ["unpack_dir_fd"] and len(v[3]) == 1 and is_param(v[3][0], lambda t: t == "Option<Fd>"):
            return "(.optFd %d)" % index[v[3][0][1]]
        if k == "mcall" and v[2] == "unwrap_or_default" and not v[3] and is_param(v[1], lambda t: t == "Option<u64>"):
            return "(.optU64 %d)" % index[v[1][1]]
        if k == "if" and is_param(v[1], lambda t: t == "bool"):
            return "(.ite %d %d %d)" % (index[v[1][1]], const_of(v[2], width), const_of(v[3], width))
        if k == "addr_of":
            p = v[1]
            if p[0] == "field" and is_param(p[1], lambda t: t in STRUCT_FIELDS) and p[2] in STRUCT_FIELDS[ptypes[p[1][1]]]:
                return "(.arg %d)" % operand("%s.%s@ptr" % (p[1][1], p[2]), "ptr")
        if k == "field" and is_param(v[1], lambda t: t in STRUCT_FIELDS) and STRUCT_FIELDS[ptypes[v[1][1]]].get(v[2]):
            return "(.arg %d)" % operand("%s.%s" % (v[1][1], v[2]), STRUCT_FIELDS[ptypes[v[1][1]]][v[2]])
        if k == "call" and v[1][-1] == "from_ref" and v[2] and len(v[3]) == 1 and is_param(v[3][0]) and v[3][0][1] in index \
                and ptypes[v[3][0][1]] == "&" + v[2].strip("<>"):
            return "(.arg %d)" % index[v[3][0][1]]
        # a parameter, possibly through the accessor of its newtype / flags type
        base = None
        if k == "param":
            base = v
        elif k == "field" and v[2] == "0":
            base = v[1]                                                         # x.0
        elif k == "mcall" and not v[3] and v[2] in ("value", "bits"):
            base = v[1]                                                         # x.value()  x.bits()
        elif k == "mcall" and not v[3] and v[2] == "as_ptr" and v[1][0] == "field" and v[1][2] == "0":
            base = v[1][1]                                                      # x.0.as_ptr()
        elif k == "mcall" and not v[3] and v[2] == "into_u32" and v[1][0] == "mcall" and v[1][2] == "bits" and not v[1][3]:
            base = v[1][1]                                                      # x.bits().into_u32()
        if base is not None and base[0] == "param" and base[1] in index:
            return "(.arg %d)" % index[base[1]]
        raise Untranslatable("%s: expression `%s`" % (name, show(whole)))

    def union(fname, allowed):
        v = fields[fname]
        if v[0] != "rec" or len(v[2]) != 1 or next(iter(v[2])) not in allowed:
            raise Untranslatable("%s: union %s = %s" % (name, fname, show(v)))
        return next(iter(v[2].items()))

    want = set(FIELDS)
    if set(fields) != want:
        raise Untranslatable("%s: fields %s" % (name, sorted(set(fields) ^ want)))
    tail = fields["__bindgen_anon_6"]
    zero_member = lambda x: x[0] == "call" and x[1] in (["__BindgenUnionField", "new"], ["__BindgenUnionField", "default"]) and not x[3]
    if not (tail[0] == "rec" and tail[1] == "io_uring_sqe__bindgen_ty_6" and list(tail[2]) == ["__bindgen_anon_1", "cmd", "bindgen_union_field"]
            and zero_member(tail[2]["__bindgen_anon_1"]) and zero_member(tail[2]["cmd"])
            and tail[2]["bindgen_union_field"] == ("repeat", ("int", 0), ("int", 2))):
        raise Untranslatable("%s: tail union is not zero: %s" % (name, show(tail)))
    for f in ("opcode", "flags", "ioprio", "fd", "len", "user_data", "personality"):
        if fields[f][0] in ("rec", "wrap"):
            raise Untranslatable("%s: field %s = %s" % (name, f, show(fields[f])[:60]))
    offn, offe = union("__bindgen_anon_1", {"off", "addr2"})
    _, addre = union("__bindgen_anon_2", {"addr", "splice_off_in"})
    u3 = {"rw_flags": 4, "fsync_flags": 4, "poll_events": 2, "poll32_events": 4, "sync_range_flags": 4, "msg_flags": 4, "timeout_flags": 4,
          "accept_flags": 4, "cancel_flags": 4, "open_flags": 4, "statx_flags": 4, "fadvise_advice": 4, "splice_flags": 4,
          "rename_flags": 4, "unlink_flags": 4, "hardlink_flags": 4, "xattr_flags": 4, "msg_ring_flags": 4, "uring_cmd_flags": 4}
    ofn, ofe = union("__bindgen_anon_3", set(u3))
    _, bie = union("__bindgen_anon_4", {"buf_index", "buf_group"})
    _, fie = union("__bindgen_anon_5", {"file_index", "splice_fd_in"})
    c = {
        "name": name,
        "opcode": tr(fields["opcode"], 1), "flags": tr(fields["flags"], 1), "ioprio": tr(fields["ioprio"], 2), "fd": tr(fields["fd"], 4),
        "off": tr(offe, 8), "addr": tr(addre, 8), "len": tr(fields["len"], 4), "opflags": tr(ofe, u3[ofn]), "opflagsBytes": u3[ofn],
        "userData": tr(fields["user_data"], 8), "bufIndex": tr(bie, 2), "personality": tr(fields["personality"], 2), "fileIndex": tr(fie, 4),
        "offName": offn, "opflagsName": ofn,
    }
    c["operands"] = operands
    return c


def extract():
    raw = open(SRC).read()
    ops = opcode_numbers(strip_comments(raw))
    fns = scan_items(tokenize(raw))
    ctors = []
    for fn in fns:
        if fn.impl != IMPL_TYPE or not fn.name.startswith("new_") or not fn.vis.startswith("pub"):
            continue
        if fn.ret not in ("Self", IMPL_TYPE):
            continue            # not an SQE constructor (sqe_table_complete states which ones must be in the table)
        if fn.problem:
            raise Untranslatable("%s: %s" % (fn.name, fn.problem))
        ev = Evaluator(fns, fn.name)
        body = parse_body(fn, fn.name)
        val = ev.block(body, {p: ("param", p) for p, _ in fn.params}, [fn.name])
        if val[0] != "wrap":
            raise Untranslatable("%s: the body does not evaluate to `Self(%s { .. })` but to `%s`" % (fn.name, RECORD, show(val)[:80]))
        c = build(fn.name, fn.params, val[1][2], ops)
        c["via"] = {"inlined": ev.inlined, "struct_updates": ev.struct_updates, "lets": ev.lets}
        ctors.append(c)
    if not ctors:
        raise Untranslatable("no constructors found")
    names = [c["name"] for c in ctors]
    if len(set(names)) != len(names):
        raise Untranslatable("constructor defined more than once (cfg variants?): %s" % sorted(n for n in set(names) if names.count(n) > 1))
    return ctors


def via_summary(ctors):
    """how the table rows were obtained (evidence): constructors whose value went through an inlined helper fn / struct-update / let"""
    helpers = sorted({h for c in ctors for h in c["via"]["inlined"]})
    return {"constructors": len(ctors),
            "through_inlined_helper_fn": sorted(c["name"] for c in ctors if c["via"]["inlined"]),
            "through_struct_update": sorted(c["name"] for c in ctors if c["via"]["struct_updates"]),
            "with_let_bindings": sorted(c["name"] for c in ctors if c["via"]["lets"]),
            "helpers_inlined": helpers,
            "plain_literal": sum(1 for c in ctors if not c["via"]["inlined"] and not c["via"]["struct_updates"] and not c["via"]["lets"])}


def render(ctors):
    out = ["/- GENERATED by checks/c18_gen.py from rusl/src/platform/compat/io_uring.rs — do not edit. -/",
           "import TinyVerif.Model.SqeEnc", "namespace TinyVerif.Sqe", "", "def ctors : List Ctor := ["]
    rows = []
    for c in ctors:
        ops = ", ".join('("%s", .%s)' % (n, k) for n, k in c["operands"])
        rows.append("  { name := \"%s\", operands := [%s],\n    opcode := %s, flags := %s, ioprio := %s, fd := %s, off := %s, addr := %s,\n"
                    "    len := %s, opflags := %s, opflagsBytes := %d, userData := %s, bufIndex := %s, personality := %s, fileIndex := %s }"
                    % (c["name"], ops, c["opcode"], c["flags"], c["ioprio"], c["fd"], c["off"], c["addr"], c["len"], c["opflags"],
                       c["opflagsBytes"], c["userData"], c["bufIndex"], c["personality"], c["fileIndex"]))
    out.append(",\n".join(rows))
    out += ["]", "", "end TinyVerif.Sqe", ""]
    return "\n".join(out)


def regenerate():
    """returns (ctors, changed)"""
    ctors = extract()
    text = render(ctors)
    os.makedirs(os.path.dirname(OUT), exist_ok=True)
    old = open(OUT).read() if os.path.exists(OUT) else None
    if old != text:
        with open(OUT, "w") as f:
            f.write(text)
    return ctors, old != text


def last_generated():
    """operand lists of the table generated last (Gen/SqeCtors.lean as it is on disk): used by checks/c18.py to keep searching for
    a failing input when the current source cannot be translated"""
    if not os.path.exists(OUT):
        return []
    out = []
    for m in re.finditer(r'name := "(\w+)", operands := \[(.*?)\],\n', open(OUT).read()):
        out.append({"name": m.group(1), "operands": re.findall(r'\("([^"]+)", \.(\w+)\)', m.group(2))})
    return out


if __name__ == "__main__":
    import sys
    if "--dry" in sys.argv:
        cs = extract()
        sys.stdout.write(render(cs))
        sys.stderr.write(repr(via_summary(cs)) + "\n")
    else:
        cs, ch = regenerate()
        print("%d constructors, %s" % (len(cs), "rewritten" if ch else "unchanged"))
        for c in cs:
            print(c["name"], [n for n, _ in c["operands"]], c["via"])
