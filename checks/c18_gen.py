"""Regenerates lean/TinyVerif/Gen/SqeCtors.lean from the `IoUringSubmissionQueueEntry::new_*`
constructors of /repo/rusl/src/platform/compat/io_uring.rs: per constructor, which 64-byte SQE
field gets which constant / parameter / cast of a parameter.  Anything the extractor does not
understand raises Untranslatable (the check reports a broken obligation, never skips)."""
import os
import re

REPO = os.environ.get("VERIF_REPO", "/repo")
SRC = os.path.join(REPO, "rusl/src/platform/compat/io_uring.rs")
OUT = os.path.join(os.path.dirname(os.path.dirname(os.path.abspath(__file__))), "lean/TinyVerif/Gen/SqeCtors.lean")


class Untranslatable(Exception):
    pass


KIND_OF_TYPE = {
    "Fd": "fd", "Option<Fd>": "optfd", "usize": "ptr", "u64": "u64", "u32": "u32", "u16": "u16", "i32": "i32",
    "bool": "bool", "Option<u64>": "optu64", "IoUringSQEFlags": "u8", "&UnixStr": "ptr", "&TimeSpec": "ptr",
    "OpenFlags": "nni32", "StatxFlags": "nni32", "Mode": "u32", "StatxMask": "u32", "RenameFlags": "u32",
    "SocketFlags": "u32", "PollAddMultiFlags": "u32", "PollEvents": "i16", "AddressFamily": "u16", "SocketOptions": "u32",
}
NAMED_CONSTS = {"AT_REMOVEDIR": 0x200, "IORING_TIMEOUT_ABS": 1}
# struct-typed reference parameters whose fields a constructor may use: field -> (kind when read by value)
STRUCT_FIELDS = {"&SocketArgUnix": {"addr": None, "addr_len": "u32"},
                 "&crate::platform::SendDropGuard": {"msghdr": None}}


def strip_comments(s):
    s = re.sub(r"//[^\n]*", "", s)
    return re.sub(r"/\*.*?\*/", "", s, flags=re.S)


def split_top(s, sep=","):
    out, depth, cur = [], 0, ""
    for ch in s:
        if ch in "([{<":
            depth += 1
        elif ch in ")]}>":
            depth -= 1
        if ch == sep and depth == 0:
            out.append(cur)
            cur = ""
        else:
            cur += ch
    if cur.strip():
        out.append(cur)
    return [x.strip() for x in out if x.strip()]


def matching(s, i, open_ch, close_ch):
    depth = 0
    for j in range(i, len(s)):
        if s[j] == open_ch:
            depth += 1
        elif s[j] == close_ch:
            depth -= 1
            if depth == 0:
                return j
    raise Untranslatable("unbalanced " + open_ch)


def opcode_numbers(src):
    """IoUringOp::X -> number, through the bindings' io_uring_op_IORING_OP_* constants"""
    bind = None
    reg = os.path.expanduser("~/.cargo/registry/src")
    for d in os.listdir(reg):
        p = os.path.join(reg, d, "linux-rust-bindings-0.1.3/src/io_uring/io_uring_x86.rs")
        if os.path.exists(p):
            bind = open(p).read()
    if bind is None:
        raise Untranslatable("linux-rust-bindings source not found")
    nums = {m.group(1): int(m.group(2)) for m in re.finditer(r"pub const io_uring_op_(IORING_OP_\w+): io_uring_op = (\d+);", bind)}
    out = {}
    for m in re.finditer(r"(\w+)\s*=\s*comptime_u32_to_u8\(\s*linux_rust_bindings::io_uring::io_uring_op_(IORING_OP_\w+)\s*,?\s*\)", src):
        out[m.group(1)] = nums[m.group(2)]
    return out


def parse_fields(body):
    """`name: expr, name: expr {…}` at top level of a struct literal body"""
    fields = {}
    for item in split_top(body):
        if re.fullmatch(r"\w+", item):      # field init shorthand
            fields[item] = item
            continue
        m = re.match(r"(\w+)\s*:\s*(.*)$", item, flags=re.S)
        if not m:
            raise Untranslatable("field item: " + item[:60])
        fields[m.group(1)] = " ".join(m.group(2).split())
    return fields


def nullary_helpers(src):
    """`fn name() -> T { <one expression> }` defined in the file: name -> normalised body expression, so that a field
    value written as `name()` is read as that expression (a refactoring that factors a repeated literal out)"""
    out = {}
    for m in re.finditer(r"(?:pub\s+)?(?:const\s+)?fn\s+(\w+)\s*\(\s*\)\s*->\s*[\w:<>]+\s*\{", src):
        b0 = m.end() - 1
        try:
            b1 = matching(src, b0, "{", "}")
        except Untranslatable:
            continue
        body = " ".join(src[b0 + 1:b1].split())
        if ";" not in re.sub(r"\[[^\]\[]*\]", "[]", body) and "let " not in body:
            out[m.group(1)] = body
    return out


def extract():
    raw = open(SRC).read()
    src = strip_comments(raw)
    ops = opcode_numbers(src)
    helpers = nullary_helpers(src)
    ctors = []
    for m in re.finditer(r"pub\s+(?:const\s+)?(?:unsafe\s+)?fn\s+(new_\w+)\s*\(", src):
        name = m.group(1)
        pe = matching(src, m.end() - 1, "(", ")")
        params = []
        for p in split_top(src[m.end():pe]):
            pm = re.match(r"(\w+)\s*:\s*(.+)$", p, flags=re.S)
            params.append((pm.group(1), " ".join(pm.group(2).split()).replace("& ", "&")))
        rest = src[pe:]
        if not re.match(r"\)\s*->\s*Self\s*\{", rest):
            continue
        lit = rest.find("Self(io_uring_sqe {")
        nxt = rest.find("fn ", 5)
        if lit < 0 or (0 < nxt < lit):
            raise Untranslatable(name + ": body is not a single io_uring_sqe literal")
        b0 = rest.index("{", lit)
        b1 = matching(rest, b0, "{", "}")
        fields = parse_fields(rest[b0 + 1:b1])
        for fn_, v in list(fields.items()):
            hm = re.fullmatch(r"(?:Self::)?(\w+)\(\)", v)
            if hm and hm.group(1) in helpers:
                fields[fn_] = helpers[hm.group(1)]
        ctors.append(build(name, params, fields, ops))
    if not ctors:
        raise Untranslatable("no constructors found")
    return ctors


def build(name, params, fields, ops):
    operands = []      # (name, kind)
    index = {}

    def operand(nm, kind):
        if nm not in index:
            index[nm] = len(operands)
            operands.append((nm, kind))
        return index[nm]

    ptypes = dict(params)
    for pn, pt in params:
        if pt in KIND_OF_TYPE:
            operand(pn, KIND_OF_TYPE[pt])
        elif pt.startswith("*mut ") or pt.startswith("*const "):
            operand(pn, "ptr")
        elif pt in STRUCT_FIELDS:
            pass        # flattened on use
        else:
            raise Untranslatable("%s: parameter type %s" % (name, pt))

    def const_of(e):
        e = e.strip()
        if re.fullmatch(r"\d+", e):
            return int(e)
        m = re.fullmatch(r"(\w+)(?:\.into_u32\(\))?(?: as u32)?", e)
        if m and m.group(1) in NAMED_CONSTS:
            return NAMED_CONSTS[m.group(1)]
        raise Untranslatable("%s: constant %s" % (name, e))

    def tr(e):
        e = e.strip()
        while True:
            m = re.fullmatch(r"(.+) as (?:u64|u32|i32|u16|u8)", e)
            if not m:
                break
            e = m.group(1).strip()
        if re.fullmatch(r"\d+", e):
            return "(.const %d)" % int(e)
        m = re.fullmatch(r"IoUringOp::(\w+)", e)
        if m:
            return "(.const %d)" % ops[m.group(1)]
        m = re.fullmatch(r"unpack_dir_fd\((\w+)\)", e)
        if m and ptypes.get(m.group(1)) == "Option<Fd>":
            return "(.optFd %d)" % index[m.group(1)]
        m = re.fullmatch(r"(\w+)\.unwrap_or_default\(\)", e)
        if m and ptypes.get(m.group(1)) == "Option<u64>":
            return "(.optU64 %d)" % index[m.group(1)]
        m = re.fullmatch(r"if (\w+) \{ (.+?) \} else \{ (.+?) \}", e)
        if m and ptypes.get(m.group(1)) == "bool":
            return "(.ite %d %d %d)" % (index[m.group(1)], const_of(m.group(2)), const_of(m.group(3)))
        m = re.fullmatch(r"core::ptr::addr_of!\((\w+)\.(\w+)\)", e)
        if m and ptypes.get(m.group(1)) in STRUCT_FIELDS and m.group(2) in STRUCT_FIELDS[ptypes[m.group(1)]]:
            return "(.arg %d)" % operand("%s.%s@ptr" % (m.group(1), m.group(2)), "ptr")
        m = re.fullmatch(r"(\w+)\.(\w+)", e)
        if m and ptypes.get(m.group(1)) in STRUCT_FIELDS and STRUCT_FIELDS[ptypes[m.group(1)]].get(m.group(2)):
            return "(.arg %d)" % operand("%s.%s" % (m.group(1), m.group(2)), STRUCT_FIELDS[ptypes[m.group(1)]][m.group(2)])
        m = re.fullmatch(r"core::ptr::from_ref::<\w+>\((\w+)\)", e)
        if m and m.group(1) in index:
            return "(.arg %d)" % index[m.group(1)]
        m = re.fullmatch(r"(\w+)(\.0\.as_ptr\(\)|\.0|\.value\(\)|\.bits\(\)\.into_u32\(\)|\.bits\(\))?", e)
        if m and m.group(1) in index:
            return "(.arg %d)" % index[m.group(1)]
        raise Untranslatable("%s: expression `%s`" % (name, e))

    def union(fname, allowed):
        v = fields[fname]
        m = re.fullmatch(r"\w+ \{ (\w+): (.+?),? \}", v)
        if not m or m.group(1) not in allowed:
            raise Untranslatable("%s: union %s = %s" % (name, fname, v))
        return m.group(1), m.group(2)

    want = {"opcode", "flags", "ioprio", "fd", "__bindgen_anon_1", "__bindgen_anon_2", "len", "__bindgen_anon_3", "user_data",
            "__bindgen_anon_4", "personality", "__bindgen_anon_5", "__bindgen_anon_6"}
    if set(fields) != want:
        raise Untranslatable("%s: fields %s" % (name, sorted(set(fields) ^ want)))
    if not re.fullmatch(r"io_uring_sqe__bindgen_ty_6 \{ __bindgen_anon_1: __BindgenUnionField::(new|default)\(\), cmd: __BindgenUnionField::(new|default)\(\), bindgen_union_field: \[0; 2\],? \}",
                        fields["__bindgen_anon_6"]):
        raise Untranslatable("%s: tail union is not zero: %s" % (name, fields["__bindgen_anon_6"]))
    offn, offe = union("__bindgen_anon_1", {"off", "addr2"})
    _, addre = union("__bindgen_anon_2", {"addr", "splice_off_in"})
    u3 = {"rw_flags": 4, "fsync_flags": 4, "poll_events": 2, "poll32_events": 4, "sync_range_flags": 4, "msg_flags": 4, "timeout_flags": 4,
          "accept_flags": 4, "cancel_flags": 4, "open_flags": 4, "statx_flags": 4, "fadvise_advice": 4, "splice_flags": 4,
          "rename_flags": 4, "unlink_flags": 4, "hardlink_flags": 4, "xattr_flags": 4, "msg_ring_flags": 4, "uring_cmd_flags": 4}
    ofn, ofe = union("__bindgen_anon_3", set(u3))
    _, bie = union("__bindgen_anon_4", {"buf_index", "buf_group"})
    _, fie = union("__bindgen_anon_5", {"file_index", "splice_fd_in"})
    c = {
        "name": name,
        "opcode": tr(fields["opcode"]), "flags": tr(fields["flags"]), "ioprio": tr(fields["ioprio"]), "fd": tr(fields["fd"]),
        "off": tr(offe), "addr": tr(addre), "len": tr(fields["len"]), "opflags": tr(ofe), "opflagsBytes": u3[ofn],
        "userData": tr(fields["user_data"]), "bufIndex": tr(bie), "personality": tr(fields["personality"]), "fileIndex": tr(fie),
        "offName": offn, "opflagsName": ofn,
    }
    c["operands"] = operands
    return c


def render(ctors):
    out = ["/- GENERATED by checks/c18_gen.py from rusl/src/platform/compat/io_uring.rs — do not edit. -/",
           "import TinyVerif.Model.SqeEnc", "namespace TinyVerif.Sqe", "", "def ctors : List Ctor := ["]
    rows = []
    for c in ctors:
        ops = ", ".join('("%s", .%s)' % (n, k) for n, k in c["operands"])
        rows.append("  { name := \"%s\", operands := [%s],\n    opcode := %s, flags := %s, ioprio := %s, fd := %s, off := %s, addr := %s,\n"
                    "    len := %s, opflags := %s, opflagsBytes := %d, userData := %s, bufIndex := %s, personality := %s, fileIndex := %s }"
                    % (c["name"], ops, c["opcode"], c["flags"], c["ioprio"], c["fd"], c["off"], c["addr"], c["len"], c["opflags"],
                       c["opflagsBytes"], c["userData"], c["bufIndex"], c["personality"], c["fileIndex"]))
    out.append(",\n".join(rows))
    out += ["]", "", "end TinyVerif.Sqe", ""]
    return "\n".join(out)


def regenerate():
    """returns (ctors, changed)"""
    ctors = extract()
    text = render(ctors)
    os.makedirs(os.path.dirname(OUT), exist_ok=True)
    old = open(OUT).read() if os.path.exists(OUT) else None
    if old != text:
        with open(OUT, "w") as f:
            f.write(text)
    return ctors, old != text


if __name__ == "__main__":
    cs, ch = regenerate()
    print("%d constructors, %s" % (len(cs), "rewritten" if ch else "unchanged"))
    for c in cs:
        print(c["name"], [n for n, _ in c["operands"]])
