"""C18 — io_uring ops complete once with the direct syscall's result; teardown is exact.

Proof: lean/TinyVerif/Props/C18.lean over Gen/SqeCtors.lean (regenerated here from the Rust
constructors), Model/UringAbi.lean (kernel ABI + intent), Model/UringRes.lean (setup/Drop script).
Tie:   64-byte images of the real constructors vs the Lean encoder; sc-shim log of real
       setup_io_uring/Drop on the running kernel (with/without SINGLE_MMAP, every failing mmap) vs the
       script; and, reported separately, the implementation-vs-oracle run: random batches on one
       long-lived real ring vs the same operations by direct system calls in a twin directory.
       Kernel contract (Model/Ring.lean kstep): the real get_next_sqe_slot / flush_submission_queue / get_next_cqe /
       needs_wakeup over harness-owned ring memory against a simulated kernel obeying the contract (out-of-order
       completion, completion ring full, overflow list, link chains, SQPOLL sleep) vs the Lean driver, judged by an
       independent exactly-once oracle (checks/c18_kring.py); the contract's consequences on the REAL kernel:
       `overflow` runs (more completions outstanding than the completion ring holds, reaped late), `refrace` and the
       delayed-read run (the entry behind the reference get_next_cqe returned must not change before the next call)."""
import os
import shutil
import tempfile
import time

from . import common as C
from . import c18_gen
from . import c18_kring as K
from . import c17_borrow

# the kring stream needs the cfg(tiny_std_verif) hook IoUring::verif_from_raw_parts: a build of its own, in the target
# directory harness/c17 uses for the same flag (rusl is compiled once for both)
RUSTFLAGS_VERIF = "--cfg %s --check-cfg cfg(%s)" % (C.GUARD_CFG, C.GUARD_CFG)
TARGET_VERIF = os.path.join(C.HARNESS, "target", "cfg-verif")

KIND_RANGE = {"fd": (0, 2**31 - 1), "optfd": (-1, 2**31 - 1), "u8": (0, 255), "u16": (0, 65535), "u32": (0, 2**32 - 1),
              "u64": (0, 2**64 - 1), "i16": (-32768, 32767), "i32": (-2**31, 2**31 - 1), "nni32": (0, 2**31 - 1),
              "bool": (0, 1), "optu64": (-1, 2**64 - 1), "ptr": (0, 2**64 - 1)}
REF_PARAMS = {"path", "old_path", "new_path", "ts"}     # references: fabricated non-null, 8-aligned


def build(ctx, release=False):
    err = ""
    for _ in range(4):
        exe, err = C.cargo_build(ctx, "c18", release=release)
        if exe is not None or "failed to load manifest for workspace member" not in err:
            return exe, err
        time.sleep(10)
    return None, err


def build_verif(ctx, release=False):
    err = ""
    for _ in range(4):
        exe, err = C.cargo_build(ctx, "c18", release=release, rustflags=RUSTFLAGS_VERIF, extra_env={"CARGO_TARGET_DIR": TARGET_VERIF})
        if exe is not None:
            return os.path.join(TARGET_VERIF, "release" if release else "debug", "c18"), ""
        if "failed to load manifest for workspace member" not in err:
            break
        time.sleep(10)
    return None, err


def rand_val(r, name, kind):
    lo, hi = KIND_RANGE[kind]
    if kind == "ptr" and name in REF_PARAMS:
        return r.choice([8, 4096, 2**47 - 8, 2**64 - 8, 8 * r.range(1, 2**44)])
    k = r.below(6)
    if k == 0:
        return lo
    if k == 1:
        return hi
    if k == 2:
        return r.choice([v for v in (0, 1, 2, 255, 256, 65535, 65536, 2**31 - 1, 2**31, 2**32 - 1, 2**32, 2**63, -1, -100) if lo <= v <= hi])
    return r.range(lo, hi)


def sqe_cases(ctx, ctors, n):
    r = ctx.rng
    cases = []
    for i in range(n):
        c = ctors[i % len(ctors)]
        if c["name"] == "new_sendmsg":          # needs a live SendDropGuard; covered by the theorem only
            continue
        if c["name"] == "new_connect_unix":
            cases.append("sqe new_connect_unix %d %d %d %d" % (r.range(0, 2**31 - 1), r.range(1, 100), rand_val(r, "user_data", "u64"), r.range(0, 255)))
            continue
        cases.append("sqe %s %s" % (c["name"], " ".join(str(rand_val(r, nm, k)) for nm, k in c["operands"])))
    return cases


# struct io_uring_sqe (include/uapi/linux/io_uring.h), byte ranges
SQE_LAYOUT = [("opcode", 0, 1), ("flags", 1, 2), ("ioprio", 2, 4), ("fd", 4, 8), ("off/addr2", 8, 16), ("addr", 16, 24), ("len", 24, 28),
              ("op_flags", 28, 32), ("user_data", 32, 40), ("buf_index", 40, 42), ("personality", 42, 44), ("file_index", 44, 48),
              ("addr3/cmd", 48, 64)]


def judge_sqe(ctors_by_name, intent=None):
    """independent byte-level oracle: the struct io_uring_sqe layout, written out by hand here; then the SPEC image: what the
    kernel ABI + the constructor's intent (Model/UringAbi.lean, hand-written; rendered by the driver's `sqe-intent` line from
    the operand names only, none of the regenerated field sources) prescribe for these arguments — a byte that differs is a
    concrete failing input of the encoding property, however the constructor is spelled in the source"""
    intent = intent or {}

    def j(case, out):
        w = case.split()
        if not out.startswith("img "):
            return "constructor did not produce an image: " + out
        b = bytes.fromhex(out.split()[1])
        if len(b) != 64:
            return "image is not 64 bytes"
        name = w[1]
        c = ctors_by_name[name]
        if name == "new_connect_unix":
            vals = {"socket": int(w[2]), "user_data": int(w[4]), "sqe_flags": int(w[5])}
            if int.from_bytes(b[8:16], "little") != int(out.split()[3]):
                return "connect: addr2 does not carry the address length the direct connect syscall passes"
            if int.from_bytes(b[16:24], "little") != 0xA11CE0:
                return "connect: addr is not the sockaddr pointer the direct connect syscall passes"
        else:
            vals = {nm: int(v) for (nm, _), v in zip(c["operands"], w[2:])}
        if b[1] != vals["sqe_flags"] or int.from_bytes(b[32:40], "little") != vals["user_data"]:
            return "sqe flags / user_data not intact"
        if b[2:4] != b"\0\0" or b[42:44] != b"\0\0" or b[48:64] != bytes(16):
            return "ioprio / personality / tail bytes not zero"
        first = [nm for nm, k in c["operands"] if k in ("fd", "optfd")]
        if first and name != "new_timeout":
            v = vals.get(first[0])
            if v is not None:
                want = -100 if (v == -1) else v
                if int.from_bytes(b[4:8], "little", signed=True) != want:
                    return "fd field does not carry %s" % first[0]
        spec = intent.get(case, "")
        if name != "new_poll_add" and spec.startswith("img "):      # poll_add: sqe_poll_add_partial (2 of 4 bytes written)
            sb = bytes.fromhex(spec.split()[1])
            for fname, lo, hi in SQE_LAYOUT:
                if b[lo:hi] != sb[lo:hi]:
                    return "intent %s@%d: the constructor stores %d there, the kernel ABI + the constructor's intent prescribe %d" % (
                        fname, lo, int.from_bytes(b[lo:hi], "little"), int.from_bytes(sb[lo:hi], "little"))
        return None
    return j


def run(ctx):
    ctx.rule = ("sqe stream: every regenerated constructor (except new_sendmsg, which needs a live guard object) on boundary-biased "
                "random operands, image compared byte for byte with the Lean encoder over the regenerated table AND with the spec image "
                "(ABI + intent; all but new_poll_add); teardown stream: (entries, flags, SINGLE_MMAP shown/hidden, failing "
                "mmap none/0/1/2) on the running kernel, against the dev AND the release build of the harness; distinct_nontrivial = distinct (constructor) + (entries, flags, single, fail) classes; "
                "oracle run: random batches of 1..8 independent or linked ops (openat/close/readv/writev/statx/mkdirat/unlinkat/renameat/"
                "timeout) on one 8-entry ring vs std/direct syscalls in a twin directory, (user_data,res), read content, statx and final "
                "directory trees compared; kring stream: op sequences {g ud flags len, f, r, w, k n, x i, o n, i} over rings of 1..8 submission "
                "entries and 1..16 completion entries, counters at the 32-bit wrap, SQPOLL/SQE128/CQE32, + (size, cq size, flags, sq wrapped, "
                "cq wrapped, sq full, overflow used, overflow flushed, out-of-order completion, link waited, link cancelled, woken) classes; "
                "overflow run: rounds of cq_entries+1..cq_entries+2*sq_entries independent ops submitted without reaping, then reaped")
    ctx.assumptions += [
        "Model/UringAbi.lean states the io_uring ABI (field per operand per opcode, C types) and the intent of each constructor; both are "
        "hand-written from the kernel sources / the constructors' documentation",
        "Gen/SqeCtors.lean is regenerated by checks/c18_gen.py: a parser + symbolic evaluator for a pure expression fragment (13-field "
        "literal, struct-update `..base`, calls of this file's helper fns inlined by substituting arguments for parameters to any depth, "
        "`let x = e;` prefixes, casts at least as wide as the field); anything outside it is a broken obligation, never a guess; its "
        "fidelity is checked on every run by the image correspondence (sqe-debug / sqe-release run on the regenerated table: a wrong "
        "inlining is a disagreement) and every image is also judged against the spec image ABI + intent prescribe (coverage.gen says "
        "how many rows went through inlining / struct-update)",
        "KERNEL CONTRACT (Model/Ring.lean kstep: in-order consumption, exactly one completion per consumed entry with its user_data and the "
        "direct call's result or -ECANCELED behind a failed link, any completion order, posting only while the completion ring has room, "
        "FIFO overflow list otherwise): kernel behaviour, ASSUMED by cqe_exactly_once / cqe_complete_at_quiescence / link_chain_order / "
        "one_cqe_per_sqe; its observable consequences are checked on the running kernel by the batch and overflow oracle runs, not proved",
        "below call granularity (the returned entry read after arbitrary kernel steps) exactly-once is proved for the split model "
        "(cqe_exactly_once_split) and exercised by the streams kring-split-reap, refrace and the delayed-read overflow run; before /repo "
        "bc63d9e it was false (orig_reap_reference_outlives_slot)",
        "the simulated kernel of harness/c18/src/kring.rs is an independent Rust reading of the contract (checked against the Lean model "
        "token by token and by the Python oracle of checks/c18_kring.py)",
        "Model/UringRes.lean describes setup_io_uring/Drop (checked by the sc-shim log of real runs on this kernel, for both compiled "
        "artefacts: dev profile = debug assertions on, release profile = off; the model itself has no notion of build profile)",
        "bytes 30..31 of new_poll_add's image are not written by the constructor (u16 union member); observed zero",
    ]
    ctx.trusted += ["checks/c18_gen.py (extractor)", "sc-shim syscall log; harness/c18 oracle (std::fs / raw syscalls as the reference)",
                    "simulated kernel of harness/c18/src/kring.rs + the cfg(tiny_std_verif) hook constructor of /repo"]
    # 1. regenerate the constructor table from /repo
    try:
        ctors, changed = c18_gen.regenerate()
        # how each table row was obtained: straight from a 13-field literal, or through inlined helper fns / struct-update / lets
        ctx.extra["gen"] = dict(c18_gen.via_summary(ctors), rewritten=changed)
    except Exception as e:  # Untranslatable or I/O
        ctx.broken.append({"translator": repr(e)})
        ctors = None
    # Props/C18 imports C17's borrow_contract_holds (the split-reap theorems assume one outstanding completion reference):
    # regenerate Gen/RingBorrow.lean from the compile-contract probes; a contract that is gone is C17's violation to report
    c17_borrow.probe(ctx, report=False)
    ok = C.lean_prove(ctx, "TinyVerif.Props.C18", drivers=["drv_c18"]) if ctors is not None else False
    if ctors is None:
        ctx.obligations += 1
    exe, err = build(ctx)
    if exe is None:
        ctx.broken.append({"harness_build_failed": err})
        ctx.violation({"kind": "harness-build-failed"}, {"error": err}, no_input=True)
        return
    drv = [C.driver_path("drv_c18")]
    quick = ctx.tier == "quick"
    # 2. images of the real constructors
    if ctors is None:
        # the source could not be translated (a broken obligation, reported at the end): the failing-input search goes on with the
        # table generated last (Gen/SqeCtors.lean as it is on disk = the last translatable source) and its driver; a constructor
        # whose bytes changed, not just its spelling, then shows up with its arguments
        ctors = c18_gen.last_generated()
        C.sh(["lake", "build", "drv_c18"], cwd=C.LEAN, timeout=3000)
        if not os.path.exists(drv[0]):
            ctors = []
        ctx.extra["gen"] = {"translator_failed": True, "image_stream_uses": "the table generated last (%d constructors)" % len(ctors)}
    if ctors:
        by_name = {c["name"]: c for c in ctors}
        cases = sqe_cases(ctx, ctors, 4000 if quick else 200000)
        # the spec image of every case (ABI + intent), from the driver
        _, spec_imgs, _ = C.run_filter(drv, ["sqe-intent " + c_[4:] for c_ in cases])
        intent = dict(zip(cases, spec_imgs)) if len(spec_imgs) == len(cases) else {}
        ctx.extra["sqe_spec_images"] = {"cases": len(cases), "with_spec_image": sum(1 for v in spec_imgs if v.startswith("img ")) if intent else 0}
        j = judge_sqe(by_name, intent)
        for release in (False, True):
            e2, err = build(ctx, release)
            if e2 is None:
                ctx.violation({"kind": "harness-build-failed"}, {"error": err}, no_input=True)
                return
            C.correspond(ctx, "sqe-" + ("release" if release else "debug"), cases, [e2], drv, j,
                         lambda c, o, why: {"op": c.split()[1], "kind": why.split(":")[0][:40]})
        for c_ in cases:
            ctx.count(("sqe", c_.split()[1]))
            ctx.hist("constructors", c_.split()[1])
        ctx.sample({"case": cases[0]})
        bad = ["sqe", "sqe new_nothing 1", "sqe new_close 1 2", "sqe new_close -1 2 3", "sqe new_close 1 2 256", "sqe new_openat -2 8 0 0 0 0",
               "sqe new_openat 3 7 0 0 0 0", "sqe new_close x 2 3", "sqe new_sendmsg 1 2 3 4 8", "teardown 4 0 1", "teardown 4 0 1 x 4 8 192 64", "nonsense"]
        C.correspond(ctx, "malformed", bad, [exe], drv, lambda c, o: None if o == "bad-op" else "malformed request accepted",
                     lambda c, o, why: {"op": "parse", "kind": "malformed"})
    # 3. setup / drop on the running kernel
    combos = []
    for entries in ([1, 4, 8, 64, 3, 100, 1000] if quick else [1, 2, 4, 8, 16, 64, 256, 1024, 3, 5, 100, 600, 1000, 1500, 3000, 4096]):
        for flags in (0, 1 << 10, 1 << 11, (1 << 10) | (1 << 11), 1 << 4, 1 << 7, 1 << 12):
            for single in (1, 0):
                combos.append((entries, flags, single))
    rc, probes, _ = C.run_filter([exe], ["probe %d %d %d" % x for x in combos])
    tcases = []
    rejected = 0
    for (entries, flags, single), p in zip(combos, probes):
        if not p.startswith("ans "):
            rejected += 1          # flag combination the running kernel does not accept
            continue
        a = p.split()[1:5]
        for fail in ["-", "0", "1"] + ([] if single else ["2"]):
            tcases.append("teardown %d %d %d %s %s" % (entries, flags, single, fail, " ".join(a)))
    ctx.extra["setup_flag_combinations"] = {"tried": len(combos), "rejected_by_kernel": rejected}

    def judge_teardown(case, out):
        """independent multiset oracle on the observed syscalls"""
        w = out.split()
        if w[0] not in ("ok", "err"):
            return "unexpected: " + out[:60]
        acq, rel, fd_open, fd_closed = [], [], 0, 0
        for t in w[1:]:
            if t == "S":
                fd_open += 1
            elif t == "C":
                fd_closed += 1
            elif t.startswith("ME") or t == "|" or t == "SE":
                pass
            elif t.startswith("M"):
                i, ln, _ = t[1:].split(":")
                acq.append((i, ln))
            elif t.startswith("U?") or t.startswith("C?") or t.startswith("X"):
                return "released or touched something setup did not acquire: " + t
            elif t.startswith("U"):
                rel.append(tuple(t[1:].split(":")))
        for m in set(acq + rel):
            if acq.count(m) != 1 or rel.count(m) != 1:
                if rel.count(m) > acq.count(m):
                    return "mapping %s of %s bytes unmapped %d times" % (m[0], m[1], rel.count(m))
                return "mapping %s of %s bytes never unmapped (leak)" % m
        if fd_open != fd_closed:
            return "ring fd closed %d times for %d acquisitions" % (fd_closed, fd_open)
        # io_uring ABI (io_uring_setup(2)): what each region must span for the ring the kernel laid out
        cw = case.split()
        flags, sq_e, cq_e, sq_arr, cq_cqes = int(cw[2]), int(cw[5]), int(cw[6]), int(cw[7]), int(cw[8])
        need_sq = sq_arr + sq_e * 4
        need_cq = cq_cqes + cq_e * (32 if flags & (1 << 11) else 16)
        need = {"0": max(need_sq, need_cq) if cw[3] == "1" else need_sq, "134217728": need_cq, "268435456": sq_e * (128 if flags & (1 << 10) else 64)}
        for t in w[1:]:
            if t.startswith("M") and not t.startswith("ME"):
                i, ln, off = t[1:].split(":")
                if off in need and int(ln) < need[off]:
                    return "mapping at offset %s spans %s bytes, the ring the kernel laid out needs %d" % (off, ln, need[off])
        fail = case.split()[4]
        if (fail == "-") != (w[0] == "ok"):
            return "setup result does not match the injected mmap failure"
        return None
    if tcases:
        C.correspond(ctx, "teardown", tcases, [exe], drv, judge_teardown,
                     lambda c, o, why: {"op": "teardown", "single": c.split()[3], "fail": c.split()[4], "kind": why.split(" of ")[0][:30]})
        # the same stream against the release build (debug assertions off, optimised): clean-up placed under
        # cfg(debug_assertions) / inside debug_assert! exists in one artefact only; the model describes the source
        exe_rel, err = build(ctx, True)
        if exe_rel is None:
            ctx.broken.append({"harness_build_failed": err})
            ctx.violation({"kind": "harness-build-failed", "mode": "release"}, {"error": err}, no_input=True)
            return
        C.correspond(ctx, "teardown-release", tcases, [exe_rel], drv, judge_teardown,
                     lambda c, o, why: {"op": "teardown", "profile": "release", "single": c.split()[3], "fail": c.split()[4], "kind": why.split(" of ")[0][:30]})
        for c_ in tcases:
            ctx.count(("teardown",) + tuple(c_.split()[1:5]))
        ctx.sample({"case": tcases[0]})
    else:
        ctx.broken.append({"teardown": "io_uring_setup not available on this kernel"})
    # 3b. the kernel contract: real ring methods over harness-owned memory + simulated kernel vs the Lean driver (krun2)
    kcases = K.directed_cases() + K.gen_cases(ctx.rng, 12000 if quick else 250000, 56 if quick else 160)
    split_cases = K.gen_cases(ctx.rng, 2500 if quick else 40000, 40 if quick else 120, split=True)
    kexe_debug = None
    # the minimal witness of the repaired defect (= theorem orig_reap_reference_outlives_slot) first
    split_cases.insert(0, "kring 0 0 1 0 0 : g 1 0 7 : f : k 1 : x 0 : g 2 0 8 : f : k 1 : x 0 : g 3 0 9 : f : k 1 : x 0 : rb : o 1 : rr : r : r : r")
    for release in (False, True):
        mode = "release" if release else "debug"
        kexe, err = build_verif(ctx, release)
        if kexe is None:
            ctx.broken.append({"harness_build_failed": err})
            ctx.violation({"kind": "harness-build-failed", "mode": "cfg-" + mode}, {"error": err}, no_input=True)
            return
        if not release:
            kexe_debug = kexe
        C.correspond(ctx, "kring-" + mode, kcases, [kexe], drv, K.judge, K.sig_of)
        C.correspond(ctx, "kring-malformed-" + mode, K.MALFORMED, [kexe], drv, K.judge, K.sig_of)
        # below call granularity: the reference get_next_cqe returns is read after arbitrary kernel steps (cqe_exactly_once_split;
        # before /repo bc63d9e this stream showed a completion lost and another delivered twice)
        C.correspond(ctx, "kring-split-reap-" + mode, split_cases, [kexe], drv, K.judge, K.sig_of)
        if not release:
            _, kouts, _ = C.run_filter([kexe], kcases)
            K.coverage(ctx, kcases, kouts)
            for c_, o_ in list(zip(kcases, kouts))[:1] + list(zip(kcases, kouts))[-2:]:
                ctx.sample({"case": c_[:600], "implementation": o_[:600]})
    # 4. implementation vs oracle (reported separately from the model tie)
    tmp = tempfile.mkdtemp(prefix="c18-", dir=os.path.join(C.HARNESS, "target"))
    try:
        nb = 1500 if quick else 60000
        lines = ["netprobe %s/np" % tmp] + ["batch %s/b%d %d %d" % (tmp, i, ctx.rng.below(2**32), nb) for i in range(2 if quick else 6)]
        # requested ring sizes that are not powers of two / are large (every slot position gets used: nb batches >> ring size)
        lines += ["batch %s/c%d %d %d %d" % (tmp, i, ctx.rng.below(2**32), nb if e > 100 else nb // 3, e)
                  for i, e in enumerate([1, 3, 1000] if quick else [1, 2, 3, 5, 100, 1000, 1500, 3000])]
        # the kernel contract on the REAL kernel where the batch run never gets: completion ring full, kernel overflow list,
        # late reaping, asynchronous (out-of-order) completions
        nover = len(lines)
        lines += ["overflow %s/o%d %d %d %d" % (tmp, i, ctx.rng.below(2**32), rounds if quick else rounds * 12, e)
                  for i, (e, rounds) in enumerate([(1, 150), (2, 100), (8, 60), (3, 60), (64, 12), (1000, 1)] + ([] if quick else [(5, 60), (256, 8), (1500, 1)]))]
        # ... and the finding: a kernel overflow flush between get_next_cqe() and the read of the returned reference
        nref = len(lines)
        lines += ["refrace %d" % e for e in (1, 2, 8, 64)]
        # the overflow / refrace lines run on the cfg(tiny_std_verif) build: with the read-only view of the ring pointers the
        # harness copies each completion out BEFORE it calls get_next_cqe and compares with what the returned reference shows
        # (before /repo bc63d9e the two differed now and then: the slot was released before the caller read the entry)
        rc, outs, errt = C.run_filter([exe], lines[:nover], timeout=(100 if quick else 1700))
        rc2, outs2, errt2 = C.run_filter([kexe_debug], lines[nover:], timeout=(200 if quick else 1700))
        outs, errt = outs + outs2, errt + errt2
        ctx.evaluations += len(lines)
        # the same overflow scenario with a few microseconds of user-mode work between get_next_cqe() and the read of the
        # returned reference, no system call in between (before /repo bc63d9e: dozens of overwritten references per 1000 ops)
        _, wild, _ = C.run_filter([kexe_debug], ["overflow %s/w%d %d %d %d" % (tmp, i, ctx.rng.below(2**32), 60, e) for i, e in enumerate((1, 3, 8))],
                                  timeout=300, env={"C18_READ_DELAY_SPINS": "3000"})
        ctx.extra["overflow_run_with_3000_spins_between_get_next_cqe_and_the_read"] = [w[:260] for w in wild]
        ctx.evaluations += len(wild)
        for w in wild:
            if not w.startswith("agree "):
                ctx.violation({"op": "overflow-delayed-read", "kind": "held-reference-overwritten" if w.startswith("refrace-in-the-wild") else w[:40]},
                              {"implementation": w[:400], "how_to_replay": "C18_READ_DELAY_SPINS=3000 %s  # line: overflow <dir> <seed> 60 <1|3|8>; timing dependent" % kexe_debug,
                               "why": "what the reference returned by get_next_cqe showed a few microseconds later was not the completion that was in the "
                                      "slot when the call was made: the kernel overwrote an entry the caller could still read"})
        ctx.extra["oracle_run"] = outs
        if len(outs) != len(lines):
            ctx.violation({"kind": "oracle-run-crashed"}, {"lines": lines, "outputs": outs, "stderr": errt[-400:]})
        else:
            np_ = outs[0]
            want = "connect ring=0 direct=0 ; accept ring_res_ok=true ring_addrlen=2 ring_family=1 direct_res_ok=true direct_addrlen=2 direct_family=1"
            if not np_.startswith(want):
                ctx.violation({"op": "netprobe", "kind": "connect/accept through the ring differ from the direct syscalls"},
                              {"case": lines[0], "implementation": np_, "expected_prefix": want,
                               "how_to_replay": "echo '%s' | %s" % (lines[0], exe)})
            for ln, o in zip(lines[nref:], outs[nref:]):
                if o.startswith("setup-err"):
                    continue
                if not o.endswith("exactly-once=true"):
                    kv = dict(x.split("=", 1) for x in o.split() if "=" in x)
                    changed = kv.get("held-before-enter") != kv.get("held-after-enter")
                    ctx.violation({"op": "refrace", "kind": "held-reference-overwritten" if changed else "not-exactly-once"},
                                  {"case": ln, "implementation": o, "how_to_replay": "echo '%s' | %s" % (ln, kexe_debug),
                                   "why": ("on the running kernel: the completion read through the reference get_next_cqe returned changed when the kernel "
                                           "flushed its overflow list (the slot was released before the caller read the entry): one operation's completion is "
                                           "lost, another is reaped twice") if changed else
                                          "on the running kernel: 2*entries+1 operations submitted with the completion ring full and one completion on the kernel's "
                                          "overflow list; reaping (get_next_cqe until None, io_uring_enter(GETEVENTS), repeat) did not deliver every user_data exactly once"})
            for ln, o in zip(lines[nover:nref], outs[nover:nref]):
                if o.startswith("refrace-in-the-wild "):
                    # the entry behind a returned reference changed under the caller, caught in the act on the running kernel
                    ctx.violation({"op": "overflow", "kind": "held-reference-overwritten"},
                                  {"case": ln, "implementation": o[:600], "how_to_replay": "echo '%s' | %s   # timing dependent" % (ln, kexe_debug)})
                    o = "agree " + o[len("refrace-in-the-wild "):].split(" first: ")[0]
                if not o.startswith("agree "):
                    ctx.violation({"op": "overflow", "kind": o.split(":")[0][:60] if o.startswith("mismatch") else o[:30]},
                                  {"case": ln, "implementation": o, "how_to_replay": "echo '%s' | %s" % (ln, exe)})
                else:
                    kv = dict(x.split("=") for x in o.split()[1:] if "=" in x)
                    ctx.hist("oracle_overflow", "ops", int(kv["ops"]))
                    ctx.hist("oracle_overflow", "through-overflow-or-late", int(kv["through-overflow-or-late"]))
                    ctx.hist("oracle_overflow", "out-of-order-pairs", int(kv["out-of-order-pairs"]))
                    ctx.count(("overflow", ln.split()[4], int(kv["through-overflow-or-late"]) > 0, int(kv["out-of-order-pairs"]) > 0))
                    ctx.evaluations += int(kv["ops"])
            for ln, o in zip(lines[1:nover], outs[1:nover]):
                if not o.startswith("agree "):
                    ctx.violation({"op": "batch", "kind": o.split(":")[0].split(" op ")[-1][:40] if o.startswith("mismatch") else o[:30]},
                                  {"case": ln, "implementation": o, "how_to_replay": "echo '%s' | %s" % (ln, exe)})
                else:
                    for kv in o.split()[5:]:
                        k, v = kv.split("=")
                        ctx.hist("oracle_ops", k, int(v))
                    ctx.evaluations += int(o.split()[2].split("=")[1])
    finally:
        shutil.rmtree(tmp, ignore_errors=True)
    if not ok and not ctx.violations:
        ctx.violation({"kind": "proof-broken"}, {"broken": ctx.broken}, no_input=True)
