"""C04 — allocator footprint: memory held from the OS is bounded by peak demand, not by history length.

Proof: lean/TinyVerif/Props/C04.lean (footprint_exact, os_balance, reuse_without_os, cycle_fixpoint,
       trim arithmetic) about Model/Dlmalloc.lean.
Tie:   the same harness / driver / two-pass scheme as C03 (checks/c03.py): footprint, max_footprint,
       trim_check, release_checks, the segment list and every OS call (with arguments) are part of the
       answer line the model has to reproduce after every operation.
Judge: `FootJudge` — on the implementation's answers: footprint == sum of the segment sizes == bytes
       obtained from the OS minus bytes returned (ledger over the recorded mmap/mremap/munmap),
       every munmap/mremap lies inside memory held, after free-everything the heap is canonical
       (one free chunk or `top` per segment plus its trailer), and over workload x N rounds the
       per-round peak footprint does not grow any more in the second half of the rounds.
       `Reuse` — "freed space is reused by later requests", on the implementation's own answers: an operation whose
       answer shows a request for memory to the OS (mmap, served or refused, or a growing mremap) although the
       implementation's OWN heap as dumped right before the operation (= the layout part of the previous answer
       line) held a free chunk that could have served the padded request — a binned chunk (small bin / tree bin)
       of size >= nb, dv with dvsize >= nb, or top with topsize > nb, nb computed exactly as the model's
       `inner_malloc` does (for over-aligned requests from memalign's over-allocated request) — is a violation
       whose replay is the history up to and including that operation plus the ignored chunk.  The dv/top part is
       the theorem reuse_without_os; the binned part is what the model's malloc_nosys does (any binned chunk of
       size >= nb is usable, a remainder < MIN_CHUNK_SIZE is absorbed) and is cross-checked against the model on
       every case: the same oracle runs on the MODEL's own answer lines and a complaint there is reported as an
       internal error of the check (oracle stricter than the model), never as a violation of the code."""
import os
import re

from . import common as C
from . import c03


# constants of dlmalloc.rs the reuse oracle needs (the cross-check against the model notices a drift)
MALLOC_ALIGNMENT, CHUNK_OVERHEAD, MIN_CHUNK_SIZE, MIN_REQUEST = 16, 8, 32, 23
REUSE_MAX_REQUEST = 1 << 40     # far below MAX_REQUEST; larger requests are not judged


def padded_request(size, align):
    """the padded chunk size `inner_malloc` looks for (the model's nbOf; for align > MALLOC_ALIGNMENT of the request
    memalign hands to inner_malloc); None when nothing is claimed"""
    def pad(n):
        return MIN_CHUNK_SIZE if n < MIN_REQUEST else (n + CHUNK_OVERHEAD + MALLOC_ALIGNMENT - 1) & ~(MALLOC_ALIGNMENT - 1)
    if size >= REUSE_MAX_REQUEST or align >= REUSE_MAX_REQUEST or align < 1:
        return None
    if align > MALLOC_ALIGNMENT:
        size = pad(size) + max(align, MIN_CHUNK_SIZE) + MIN_CHUNK_SIZE - CHUNK_OVERHEAD
    return pad(size)


EMPTY_HEAP = {"dv": 0, "top": 0, "bins": [], "line": "(heap before the first mapping: nothing held)"}


def free_view(out):
    """what a full-layout answer line says about reusable free space: dvsize, topsize and the chunks in the small bins
    and tree bins (place, address, size); None when the line carries no full layout"""
    f = dict(x.split("=", 1) for x in out.split() if "=" in x)
    if not all(k in f for k in ("C", "B", "T", "dv", "top")):
        return None
    sizes = {}
    for seg in f["C"].split("/"):
        for e in seg.split(","):
            if e:
                q = e.split(":")
                sizes[q[0]] = int(q[1])
    bins = []
    for b in f["B"].split(";"):
        if b:
            idx, addrs = b.split(":")
            for a in addrs.split(","):
                bins.append(("smallbin %s" % idx, int(a), sizes[a]))
    for t in f["T"].split(";"):
        if t:
            idx = t.split(":", 1)[0]
            for m in re.finditer(r"\((\d+):(\d+)((?:~\d+)*)", t):
                bins.append(("treebin %s" % idx, int(m.group(1)), int(m.group(2))))
                for u in m.group(3).split("~")[1:]:
                    bins.append(("treebin %s (same-size ring)" % idx, int(u), int(m.group(2))))
    return {"dv": int(f["dv"].split(":")[1]), "top": int(f["top"].split(":")[1]), "bins": bins, "line": out}


def asks_os_for_memory(ev):
    """the events of an answer that ask the OS for memory: every mmap (served or refused) and a growing mremap"""
    asked = []
    if ev != "-":
        for e in ev.split(";"):
            if e[0] == "M":
                asked.append(e)
            elif e[0] == "R":
                q = e[1:].split(":")
                if int(q[2]) > int(q[1]):
                    asked.append(e)
    return asked


class Reuse:
    """the reuse oracle over one stream of (operation, answer) lines of ONE party (implementation or model)"""

    def __init__(self):
        self.prev = EMPTY_HEAP      # free view of the heap before the next operation; None = unknown
        self.align = {}             # id -> alignment of the live block
        self.detail = None
        self.judged = 0

    def __call__(self, case, out):
        try:
            return self.step(case, out)
        except (ValueError, KeyError, IndexError):
            self.prev = None
            return None

    def step(self, case, out):
        w = case.split("|")[0].split()
        if not w:
            return None
        if w[0] == "reset":
            self.prev, self.align = EMPTY_HEAP, {}
            return None
        if w[0] not in ("m", "c", "r", "f") or out == "bad-op":
            return None
        before, self.prev = self.prev, None
        f = dict(x.split("=", 1) for x in out.split() if "=" in x)
        if "p" not in f or "os" not in f:
            return None             # panic / poisoned / error outcome: nothing known from here on
        self.prev = free_view(out)
        i = int(w[1])
        if w[0] == "f":
            self.align.pop(i, None)
            return None
        if w[0] == "r":
            if i not in self.align:
                return None
            size, align = int(w[2]), self.align[i]
        else:
            size, align = int(w[2]), int(w[3])
            if f["p"] != "-":
                self.align[i] = align
        asked = asks_os_for_memory(f["os"])
        if not asked or before is None:
            return None
        nb = padded_request(size, align)
        if nb is None:
            return None
        self.judged += 1
        fit = None
        if before["dv"] >= nb:
            fit = ("dv", None, before["dv"])
        elif before["top"] > nb:
            fit = ("top", None, before["top"])
        else:
            cands = [b for b in before["bins"] if b[2] >= nb]
            if cands:
                fit = min(cands, key=lambda b: (b[2], b[1]))
        if fit is None:
            return None
        self.detail = {"request_bytes": size, "request_align": align, "padded_request_nb": nb, "os_requests": asked,
                       "ignored_free_chunk": {"where": fit[0], "address": fit[1], "size": fit[2]},
                       "usable_free_chunks": len([b for b in before["bins"] if b[2] >= nb]),
                       "heap_before_the_operation": before["line"][:6000]}
        return ("freed space not reused: request of %d bytes (align %d, padded %d) asked the OS for memory (%s) although the heap "
                "held a free chunk of %d bytes in %s%s" % (size, align, nb, ";".join(asked)[:80], fit[2], fit[0],
                                                            (" at %d" % fit[1]) if fit[1] is not None else ""))


class FootJudge(c03.Judge):
    """C03's oracle plus the footprint obligations and the reuse oracle; rounds are recognised by id // ROUND"""
    ROUND = 1000000

    def __init__(self, rounds_expected=0):
        self.reuse = Reuse()            # on the implementation's answers
        self.reuse_model = Reuse()      # the same oracle on the model's answers: must never complain
        super().__init__()
        self.rounds_expected = rounds_expected
        self.detail = None

    def reset(self):
        super().reset()
        self.round = 0
        self.peak = {}       # round -> peak footprint seen
        self.end = {}        # round -> footprint when everything was freed
        self.peak_demand = 0

    def held(self):
        return sum(e - s for s, e in self.mapped)

    @staticmethod
    def sig_of(case, out, why):
        return sig_of(case, out, why)

    def model_side(self, case, model_out):
        why = self.reuse_model(case, model_out)
        return ("reuse oracle on the model's own answers: " + why) if why else None

    def __call__(self, case, out):
        self.detail = None
        unused = self.reuse(case, out)          # always stepped: it carries the heap seen before the next operation
        why = self.foot(case, out)
        if why is None and unused:
            self.detail = self.reuse.detail
            return unused
        return why

    def foot(self, case, out):
        why = super().__call__(case, out)
        if why:
            return why
        w = case.split()
        if not w or w[0] not in ("m", "c", "r", "f") or out == "bad-op":
            return None
        f = dict(x.split("=", 1) for x in out.split() if "=" in x)
        fp = int(f["fp"])
        if fp != self.held():
            return "footprint %d != bytes held from the OS %d" % (fp, self.held())
        if int(f["mfp"]) < fp:
            return "max_footprint below footprint"
        if "S" in f:
            segs = [x.split("+") for x in f["S"].split(",")] if f["S"] else []
            if fp != sum(int(s[1]) for s in segs):
                return "footprint %d != sum of segment sizes" % fp
            for b, sz in segs:
                if not self.covered(int(b), int(b) + int(sz)):
                    return "segment not inside memory held from the OS"
        rnd = int(w[1]) // self.ROUND
        self.peak[rnd] = max(self.peak.get(rnd, 0), fp)
        # demand of this moment: requested bytes + worst-case padding of each live block
        demand = sum(sz + al + 64 for (_, sz, al) in self.live.values())
        self.peak_demand = max(self.peak_demand, demand)
        if fp > 3 * self.peak_demand + (8 << 20):
            return "footprint %d exceeds 3 x peak demand %d + 8 MiB" % (fp, self.peak_demand)
        if not self.live:
            self.end[rnd] = fp
            if "C" in f:
                why = self.canonical(f)
                if why:
                    return why
            n = self.rounds_expected
            if n >= 8 and rnd == n:
                # a leak grows round after round; convergence shows plateaus: count the rounds of the second
                # half that set a new record
                ks = sorted(self.peak)
                records = 0
                best = max(self.peak[k] for k in ks if k <= n // 2)
                for k in ks:
                    if k > n // 2 and self.peak[k] > best:
                        records += 1
                        best = self.peak[k]
                if records > (n - n // 2) // 2:
                    return "peak footprint keeps growing: new record in %d of the last %d rounds" % (records, n - n // 2)
        return None

    def canonical(self, f):
        top = f["top"].split(":")[0]
        for si, seg in enumerate(f["C"].split("/")):
            ents = [e.split(":") for e in seg.split(",") if e]
            free = [e for e in ents if e[2] == "01" and e[0] != top]
            inuse = [e for e in ents if e[2][0] == "1"]
            # in-use headers left: segment record (48) followed by fenceposts (8) only
            seen_rec = False
            for e in ents:
                if e[2][0] == "1":
                    if e[1] == "8":
                        if not seen_rec:
                            return "quiescent heap: fencepost without segment record"
                    elif e[1] == "48" and not seen_rec:
                        seen_rec = True
                    else:
                        return "quiescent heap: in-use chunk %s:%s although nothing is live" % (e[0], e[1])
                elif seen_rec:
                    return "quiescent heap: free chunk after the segment record"
            if len(free) > 1:
                return "quiescent heap: %d free chunks in one segment (not coalesced)" % len(free)
            if si == 0 and (free or inuse):
                return "quiescent heap: head segment is not a single top chunk"
        return None


def sig_of(case, out, why):
    if why.startswith("freed space not reused"):
        return {"op": case.split()[0], "kind": "freed space not reused"}
    for pre in ("footprint", "max_footprint", "segment not inside", "quiescent heap", "peak footprint keeps growing"):
        if why.startswith(pre):
            return {"op": case.split()[0], "kind": re.sub(r"[0-9]+", "N", why)[:70]}
    return c03.sig_of(case, out, why)


def workload(r, kind):
    """list of (size, align) plus a free order"""
    n = r.range(3, 60)
    g = c03.Gen(r, big=(kind != "small"))
    items = []
    for _ in range(n):
        if kind == "small":
            items.append((r.range(1, 2000), g.align()))
        elif kind == "large":
            items.append((r.choice([70000, 200000, 1 << 20, (2 << 20) + 5, 3000000, r.range(60000, 4000000)]), r.choice([8, 16, 64, 4096])))
        else:
            items.append((g.size(), g.align()))
    order = r.choice(["lifo", "fifo", "rand", "other"])
    return items, order


def rounds_lines(r, items, order, n, policy="l", interleave=False):
    lines = ["reset"]
    for rnd in range(1, n + 1):
        ids = []
        for k, (sz, al) in enumerate(items):
            i = rnd * FootJudge.ROUND + k
            lines.append("%s %d %d %d | P%s" % ("c" if k % 7 == 3 else "m", i, sz, al, policy))
            ids.append(i)
            if interleave and k % 3 == 2 and len(ids) > 1:
                j = ids.pop(r.below(len(ids)))
                lines.append("f %d | P%s" % (j, policy))
        if order == "lifo":
            seq = ids[::-1]
        elif order == "fifo":
            seq = ids
        elif order == "other":
            seq = ids[::2] + ids[1::2]
        else:
            seq = r.shuffle(ids)
        for i in seq:
            lines.append("f %d | P%s" % (i, policy))
    return lines


def chunk_req(chunk):
    """a request whose padded size is `chunk` (a multiple of 16, >= 32)"""
    return max(1, chunk - CHUNK_OVERHEAD)


def reuse_histories(r, n):
    """short histories aimed at 'a fitting free chunk exists, but not where the search looks first': free chunks of
    different size classes kept apart by live blocks, `top` and `dv` too small, then requests between the sizes —
    in the size class of a too-small free chunk (own tree bin non-empty, nothing in it fits, a fitting chunk sits in a
    higher bin), across the tree-bin boundaries (…, 0x100000, 0x180000, 0x200000, …) and for small-bin sizes"""
    hs = []
    for hn in range(n):
        g = c03.Gen(r)
        form = hn % 4
        kind = lambda: r.choice("mmmc")
        if form == 0:
            # small bins: chunks of 32..240 bytes
            a = 16 * r.range(2, 12)
            b = a + 16 * r.range(1, 15 - a // 16)
            decoys = [a] + [16 * r.range(2, a // 16) for _ in range(r.below(3))]
            big = [b] + [16 * r.range(b // 16, 15) for _ in range(r.below(2))]
            want = [a + 16 * r.range(1, (b - a) // 16) for _ in range(r.range(1, 3))]
            pin = 24
        elif form in (1, 2):
            # tree bins inside one 64 KiB segment: own bin 0..11, the fitting chunk in a higher bin (or the same one)
            i = r.range(0, 11)
            lo, hi = c03.min_size_for_tree_index(i), c03.min_size_for_tree_index(i + 1)
            a = lo + 16 * r.below(max(1, (hi - lo) // 32))
            decoys = [a] + [lo + 16 * r.below(max(1, (a - lo) // 16 + 1)) for _ in range(r.below(3))]
            b = r.choice([hi, hi + 16 * r.below(40), c03.min_size_for_tree_index(i + 2), hi - 16])
            big = [b]
            want = [r.choice([a + 16, a + 16 * r.range(1, max(1, (hi - a) // 16 - 1)), hi - 16, hi - 32, b, b - 16, b - 32])
                    for _ in range(r.range(1, 3))]
            want = [x for x in want if a < x <= b] or [a + 16]
            pin = r.choice([24, 24, 100, 300])
        else:
            # tree bins with one mapping per block (blocks of 64 KiB .. 4 MiB), pins with mappings of their own in between
            i = r.range(16, 27)
            lo, hi = c03.min_size_for_tree_index(i), c03.min_size_for_tree_index(i + 1)
            a = r.choice([lo, lo + 4096 * r.below(max(1, (hi - lo) // 8192)), lo + 0x1000])
            decoys = [a]
            b = r.choice([hi, hi + 65536 * r.below(8), c03.min_size_for_tree_index(i + 2), hi + 0x1000])
            big = [b]
            want = [r.choice([hi - 0x1000, hi - 16, a + 16, a + 4096 * r.range(1, max(1, (hi - a) // 4096 - 1)), hi - 65536])
                    for _ in range(r.range(1, 3))]
            want = [x for x in want if a < x <= b] or [hi - 16]
            pin = 70000
        pol = "Pl" if form != 3 or r.chance(3, 4) else "P" + r.choice("gla")
        g.alloc(pin if form == 3 else 24, 8, "m", pol)
        holes = []
        blocks = [(x, 0) for x in decoys] + [(x, 1) for x in big]
        for x, _ in (r.shuffle(blocks) if r.chance(1, 2) else blocks):
            holes.append(g.alloc(chunk_req(x), r.choice([1, 8, 16]), kind(), pol))
            g.alloc(pin, 8, "m", pol)                       # keeps the holes apart (and away from top)
        if form != 3:
            # use up `top` of the single 64 KiB segment (65456 bytes of chunks) down to 48 bytes
            used = 32 + sum(x for x, _ in blocks) + len(blocks) * ((pin + 8 + 15) & ~15)
            rest = 65456 - used - 48
            if rest >= 32:
                g.alloc(chunk_req(rest & ~15), 8, "m", pol)
        for hole in (r.shuffle(holes) if r.chance(1, 2) else holes):
            g.free(hole)
        for rnd in range(r.range(1, 3)):                    # the request between the sizes, several rounds of it
            ids = [g.alloc(chunk_req(x) - r.choice([0, 0, 1, 7]), r.choice([1, 8, 16]), kind(), pol) for x in want]
            if r.chance(1, 4):
                g.alloc(pin, 8, "m", pol)
            for j in ids:
                g.free(j)
        g.free_all()
        hs.append(g)
    return hs


def reuse_search(ctx, name, exe, fd):
    """failing-input search for a correspondence stream that disagrees although no oracle complained: the history up to
    the first disagreement is run again on the implementation alone with the full layout dumped after every operation,
    so that the reuse oracle (and the layout parts of the footprint oracle) see the heap right before every operation.
    The first complaint is a violation with the history as replay."""
    hist = [("dump full" if l.startswith("dump ") else l) for l in fd["history"]]
    rc, outs, err = C.run_filter([exe], hist, timeout=3000)
    j = FootJudge(0)
    ctx.evaluations += len(outs)
    for i, (c_, a) in enumerate(zip(hist, outs)):
        why = j(c_, a)
        if why:
            rp = {"stream": name + " (prefix of the first disagreement, full layout dumped)", "why": why, "history": hist[:i + 1],
                  "failing_operation": c_, "implementation": a[:2000],
                  "how_to_replay": "feed the lines of `history` (one per line) to " + exe}
            if j.detail:
                rp["detail"] = j.detail
            ctx.violation(sig_of(c_, a, why), rp)
            return True
    return False


NL = os.path.join(C.VERIF, "harness-nolibc")
PROBE = os.path.join(NL, "c04probe")


def build_probe(ctx, threaded):
    tdir = os.path.join(NL, "target-c04-dyn" + ("-thr" if threaded else ""))
    cmd = ["cargo", "build", "--offline", "-q", "--target-dir", tdir] + (["--features", "threaded"] if threaded else [])
    rc, out = C.sh(cmd, cwd=PROBE, env={"RUSTFLAGS": "-C link-arg=-nostartfiles"}, timeout=3000)
    if rc != 0:
        return None, "\n".join(out.splitlines()[-30:])
    return os.path.join(tdir, "debug", "c04probe"), ""


def probe_runs(ctx, r, quick):
    """the real GlobalAlloc glue (GlobalDlMalloc, with the Mutex when threaded) in a no-libc executable whose only
    mapper is the allocator (plus thread stacks): VmSize after every round of a repeated workload"""
    import subprocess
    obs = []
    for threaded in (False, True):
        exe, err = build_probe(ctx, threaded)
        if exe is None:
            ctx.broken.append({"probe_build_failed": err})
            ctx.violation({"kind": "probe-build-failed", "threaded": threaded}, {"error": err}, no_input=True)
            continue
        nw = 5 if quick else 14
        for wi in range(nw + (2 if threaded else 0)):
            kind = ["small", "mixed", "large"][wi % 3]
            items, _ = workload(r, kind)
            items = [(min(sz, 8 << 20), al) for sz, al in items[:40]]
            order = r.below(3)
            rounds = 40 if quick else (2000 if wi < 3 else 200)
            threads = 3 if threaded else 1
            foreign = 0
            if wi >= (4 if quick else 12):
                # a long-lived foreign mapping before every round and blocks above the trim threshold: every round the
                # allocator's new segment is not adjacent to its old ones, the trimmed old head segment must be unmapped
                kind, foreign, order = "large+foreign", 4 << 20, 0
                items = [(3000000, 8), (2500000, 16)] if wi % 2 == 0 else [(2200000, 4096), (5 << 20, 8)]
                rounds = 60 if quick else 400
            reps = 1
            if wi >= nw:
                # contention: many threads hammering the global allocator with the same few sizes, so that every path of the
                # GlobalAlloc glue that depends on WHO holds the allocator lock is taken all the time
                kind, foreign, order = "contended", 0, wi % 2
                items = [(16384, 8)] if wi == nw else [(16384, 8), (48, 8), (700, 16), (16384, 64)]
                threads, rounds, reps = 12, (8 if quick else 12), (4000 if quick else 60000) // len(items)
            script = ("".join("b %d %d\n" % it for it in items) +
                      "order %d\nrounds %d\nthreads %d\nreps %d\nforeign %d\ngo\n" % (order, rounds, threads, reps, foreign))
            p = None
            for attempt in range(2):       # a hang is retried once (seen once, with a thread/join state another check owns)
                try:
                    p = subprocess.run([exe], input=script, stdout=subprocess.PIPE, stderr=subprocess.PIPE, text=True,
                                       timeout=120 if quick else 900)
                    break
                except subprocess.TimeoutExpired:
                    ctx.hist("probe_hangs", "threaded" if threaded else "single")
            if p is None:
                ctx.violation({"kind": "probe-hung", "threaded": threaded},
                              {"why": "the no-libc probe did not finish twice in a row", "script": script,
                               "how_to_replay": "feed `script` on stdin to " + exe})
                continue
            ctx.evaluations += rounds * reps * (threads if reps > 1 else 1)
            lines = [l.split() for l in p.stdout.splitlines()]
            vm = [int(l[2]) * 4096 for l in lines if l and l[0] == "r" and len(l) == 4]
            bad = sum(int(l[3]) for l in lines if l and l[0] == "r" and len(l) == 4)
            sig = None
            if p.returncode != 0 or len(vm) != rounds or not lines or lines[-1] != ["done"]:
                sig, why = "probe-died", "probe exited %s after %d of %d rounds: %s" % (p.returncode, len(vm), rounds, p.stdout[-200:])
            elif bad:
                sig, why = "probe-block-damaged", "%d blocks misaligned / not zeroed / altered" % bad
            else:
                demand = threads * sum(int(sz * 1.5) + al + 64 for sz, al in items)
                best = max(vm[:rounds // 2])
                records = 0
                for v in vm[rounds // 2:]:
                    if v > best:
                        records, best = records + 1, v
                if records > (rounds - rounds // 2) // 2:
                    sig, why = "vmsize-keeps-growing", "VmSize set a new record in %d of the last %d rounds" % (records, rounds - rounds // 2)
                elif kind == "contended" and vm[-1] - vm[0] > demand + (512 << 10):
                    # every thread frees all it allocated within one repetition: after the first round (which sizes the heap
                    # for `threads` simultaneous repetitions) the mapped size has no reason to move at all
                    sig, why = "vmsize-keeps-growing", "contended workload: VmSize grew by %d from the first to the last round (demand of all threads together %d)" % (vm[-1] - vm[0], demand)
                elif max(vm) - vm[0] > 3 * demand + (16 << 20):
                    sig, why = "vmsize-exceeds-demand", "VmSize grew by %d, more than 3 x demand %d + 16 MiB" % (max(vm) - vm[0], demand)
            if sig:
                ctx.violation({"kind": sig, "threaded": threaded},
                              {"why": why, "script": script, "how_to_replay": "feed `script` on stdin to " + exe, "vmsize_bytes": vm[:60]})
            ctx.count(("probe", threaded, kind, order))
            obs.append({"threaded": threaded, "blocks": len(items), "kind": kind, "rounds": rounds,
                        "vmsize_first": vm[0] if vm else None, "vmsize_max": max(vm) if vm else None,
                        "last_growth_round": max([i + 1 for i in range(1, len(vm)) if vm[i] > max(vm[:i])], default=1)})
    ctx.extra["nolibc_probe"] = obs[:12]


def replay(ctx, rp):
    if "script" in rp.get("replay", {}):
        import subprocess
        r = rp["replay"]
        exe, err = build_probe(ctx, "thr" in str(r.get("how_to_replay", "")))
        if exe is None:
            print(err)
            return 2
        p = subprocess.run([exe], input=r["script"], stdout=subprocess.PIPE, text=True, timeout=3000)
        print(p.stdout[-2000:])
        return 0
    return c03.replay(ctx, rp, judge_factory=lambda: FootJudge(int(rp.get("replay", {}).get("rounds", 0) or 0)))


def run(ctx):
    ctx.rule = ("cases = workloads (3..60 blocks; small / mixed / large sizes up to 32 MiB, alignments 1..8192, optionally interleaved "
                "frees; free order LIFO/FIFO/random/every-other) repeated N times with mmap placement below the lowest mapping (as "
                "Linux), adjacent above, or disjoint; distinct_nontrivial = distinct (workload kind, free order, placement policy, "
                "interleaved, number of segments reached, trim seen, segment release seen) classes; plus the `reuse` stream: short "
                "directed histories (free chunks of different small-bin / tree-bin classes kept apart by live blocks, top and dv used "
                "up, then requests between the sizes: own bin non-empty but nothing in it fits, across tree-bin boundaries up to 4 MiB), "
                "classes (small/tree request, where fitting chunks were, too-small chunks present, dv fits, top fits, OS asked)")
    ctx.assumptions += c03.ASSUMPTIONS + [
        "the closed-form bound footprint <= f(peak live bytes) for arbitrary histories (a Robson-type fragmentation bound) is NOT proved; "
        "proved: footprint bookkeeping exact, OS asked only when neither dv nor top fits, determinism fixpoint; observed: per-round peak "
        "footprint stops growing on every generated workload",
        "reuse oracle (an OS request although the heap dumped right before the operation holds a usable free chunk is a violation): "
        "the dv/top part is the theorem reuse_without_os; the binned part (a small-bin/tree-bin chunk of size >= the padded request is "
        "found by the search) is NOT a theorem — it is what the model's malloc_nosys does on every explored case: the same oracle runs "
        "on the model's own answers and a complaint there is reported as an internal error of the check",
        "multi-threaded use goes through GlobalDlMalloc = Mutex<Dlmalloc> (C01 proves the mutex); the sequential allocator is what is "
        "modelled here",
    ]
    ctx.trusted.append("harness/c03 (walker, arena OS emulation, shadow map); checks/dl_extract.py; the no-libc probe "
                       "harness-nolibc/c04probe (VmSize from /proc/self/statm; observation only)")
    if not c03.prepare(ctx):
        return
    ok = C.lean_prove(ctx, "TinyVerif.Props.C04", drivers=["drv_c03"])
    quick = ctx.tier == "quick"
    drv = C.driver_path("drv_c03")
    exe, err = c03.build(ctx, "optda")
    if exe is None:
        ctx.broken.append({"harness_build_failed": err})
        ctx.violation({"kind": "harness-build-failed"}, {"error": err}, no_input=True)
        return
    r = ctx.rng
    # reuse: directed histories (free chunks of different classes kept apart, top and dv used up, requests in between)
    # (first, so that a failure is reported with a short history; own generator: the workloads below do not depend on it)
    rh = reuse_histories(C.Rng(ctx.seed ^ 0x5e05e), 160 if quick else 4000)
    rconc = c03.run_histories(ctx, "reuse", exe, drv, rh, judge_factory=lambda: FootJudge(0), timeout=3000)
    if rconc is not None:
        rc, outs, _ = C.run_filter([exe], rconc, timeout=3000)
        jr = Reuse()
        prev = None
        for c_, o_ in zip(rconc, outs):
            w = c_.split()
            if w and w[0] in ("m", "c") and " os=" in o_ and prev is not None:
                # which free space served the request: classes of (own bin state, where a fitting chunk was, OS asked)
                nb = padded_request(int(w[2]), int(w[3]))
                if nb is not None:
                    own = "small" if nb < 256 else "tree"
                    fits = sorted(set(b[0].split()[0] for b in prev["bins"] if b[2] >= nb))
                    small_only = any(b[2] < nb for b in prev["bins"])
                    asked = bool(asks_os_for_memory(o_.split(" os=")[1].split()[0]))
                    ctx.count(("reuse", own, tuple(fits), small_only, prev["dv"] >= nb, prev["top"] > nb, asked))
                    ctx.hist("reuse_served_from", "os" if asked else ("dv" if prev["dv"] >= nb and not fits else
                                                                     ("bins" if fits else ("top" if prev["top"] > nb else "dv/top"))))
            jr(c_, o_)
            prev = jr.prev
        ctx.extra["reuse_oracle"] = {"histories": len(rh), "operations": len(rconc), "os_requests_judged": jr.judged}
    nw = 12 if quick else 120
    n = 20 if quick else 60
    # directed: blocks above the trim threshold with every new mapping disjoint from the old ones (as when foreign
    # mappings sit in between): each round abandons a trimmed head segment that release_unused_segments must unmap
    directed = [("large", [(3000000, 8), (2500000, 16)], "lifo", "g", False),
                ("large", [(2200000, 4096), (5 << 20, 8), (70000, 8)], "fifo", "G", False),
                ("large", [(3 << 20, 8)], "lifo", "g", True)]
    for wi in range(nw + len(directed)):
        if wi < len(directed):
            kind, items, order, policy, inter = directed[wi]
        else:
            kind = ["small", "mixed", "large"][wi % 3]
            items, order = workload(r, kind)
            policy = r.choice("lllllagGh")
            inter = r.chance(1, 3)
        lines = rounds_lines(r, items, order, n, policy, inter)
        conc = c03.run_histories(ctx, "rounds-%d" % wi, exe, drv, [lines], judge_factory=lambda n=n: FootJudge(n), timeout=3000)
        if conc is None:
            continue
        # classes
        rc, outs, _ = C.run_filter([exe], conc, timeout=3000)
        nseg = max((o.count("+") for o in outs if " S=" in o), default=0)
        trim = any(" os=R" in o or ";R" in o for o in outs)
        rel = any("U" in o.split(" os=")[1].split()[0] for o in outs if " os=" in o)
        ctx.count((kind, order, policy, inter, min(nseg, 6), trim, rel))
        ctx.hist("workloads", "%s/%s/P%s" % (kind, order, policy))
        fps = {}
        for c_, o_ in zip(conc, outs):
            if " fp=" in o_ and c_.split()[0] in "mcrf":
                rnd = int(c_.split()[1]) // FootJudge.ROUND
                fps[rnd] = max(fps.get(rnd, 0), int(o_.split(" fp=")[1].split()[0]))
        if wi < 6:
            ctx.sample({"workload": items[:8], "blocks": len(items), "free_order": order, "policy": policy, "interleaved": inter,
                        "peak_footprint_per_round": [fps[k] for k in sorted(fps)][:n]})
    # long run: 2000 rounds (thorough) / 200 (quick) of one mixed workload, hashed layout
    items, order = workload(r, "mixed")
    nlong = 200 if quick else 2000
    lines = rounds_lines(r, items[:25], order, nlong, "l", True)
    c03.run_histories(ctx, "rounds-long", exe, drv, [lines], judge_factory=lambda: FootJudge(nlong), timeout=3000, dump="hash",
                      on_disagree=reuse_search)
    probe_runs(ctx, r, quick)
    if not ok and not ctx.violations:
        ctx.violation({"kind": "proof-broken"}, {"broken": ctx.broken}, no_input=True)
