"""C04 — allocator footprint: memory held from the OS is bounded by peak demand, not by history length.

Proof: lean/TinyVerif/Props/C04.lean (footprint_exact, os_balance, reuse_without_os, cycle_fixpoint,
       trim arithmetic) about Model/Dlmalloc.lean.
Tie:   the same harness / driver / two-pass scheme as C03 (checks/c03.py): footprint, max_footprint,
       trim_check, release_checks, the segment list and every OS call (with arguments) are part of the
       answer line the model has to reproduce after every operation.
Judge: `FootJudge` — on the implementation's answers: footprint == sum of the segment sizes == bytes
       obtained from the OS minus bytes returned (ledger over the recorded mmap/mremap/munmap),
       every munmap/mremap lies inside memory held, after free-everything the heap is canonical
       (one free chunk or `top` per segment plus its trailer), and over workload x N rounds the
       per-round peak footprint does not grow any more in the second half of the rounds."""
import os

from . import common as C
from . import c03


class FootJudge(c03.Judge):
    """C03's oracle plus the footprint obligations; rounds are recognised by id // ROUND"""
    ROUND = 1000000

    def __init__(self, rounds_expected=0):
        super().__init__()
        self.rounds_expected = rounds_expected

    def reset(self):
        super().reset()
        self.round = 0
        self.peak = {}       # round -> peak footprint seen
        self.end = {}        # round -> footprint when everything was freed
        self.peak_demand = 0

    def held(self):
        return sum(e - s for s, e in self.mapped)

    def __call__(self, case, out):
        why = super().__call__(case, out)
        if why:
            return why
        w = case.split()
        if not w or w[0] not in ("m", "c", "r", "f") or out == "bad-op":
            return None
        f = dict(x.split("=", 1) for x in out.split() if "=" in x)
        fp = int(f["fp"])
        if fp != self.held():
            return "footprint %d != bytes held from the OS %d" % (fp, self.held())
        if int(f["mfp"]) < fp:
            return "max_footprint below footprint"
        if "S" in f:
            segs = [x.split("+") for x in f["S"].split(",")] if f["S"] else []
            if fp != sum(int(s[1]) for s in segs):
                return "footprint %d != sum of segment sizes" % fp
            for b, sz in segs:
                if not self.covered(int(b), int(b) + int(sz)):
                    return "segment not inside memory held from the OS"
        rnd = int(w[1]) // self.ROUND
        self.peak[rnd] = max(self.peak.get(rnd, 0), fp)
        # demand of this moment: requested bytes + worst-case padding of each live block
        demand = sum(sz + al + 64 for (_, sz, al) in self.live.values())
        self.peak_demand = max(self.peak_demand, demand)
        if fp > 3 * self.peak_demand + (8 << 20):
            return "footprint %d exceeds 3 x peak demand %d + 8 MiB" % (fp, self.peak_demand)
        if not self.live:
            self.end[rnd] = fp
            if "C" in f:
                why = self.canonical(f)
                if why:
                    return why
            n = self.rounds_expected
            if n >= 8 and rnd == n:
                # a leak grows round after round; convergence shows plateaus: count the rounds of the second
                # half that set a new record
                ks = sorted(self.peak)
                records = 0
                best = max(self.peak[k] for k in ks if k <= n // 2)
                for k in ks:
                    if k > n // 2 and self.peak[k] > best:
                        records += 1
                        best = self.peak[k]
                if records > (n - n // 2) // 2:
                    return "peak footprint keeps growing: new record in %d of the last %d rounds" % (records, n - n // 2)
        return None

    def canonical(self, f):
        top = f["top"].split(":")[0]
        for si, seg in enumerate(f["C"].split("/")):
            ents = [e.split(":") for e in seg.split(",") if e]
            free = [e for e in ents if e[2] == "01" and e[0] != top]
            inuse = [e for e in ents if e[2][0] == "1"]
            # in-use headers left: segment record (48) followed by fenceposts (8) only
            seen_rec = False
            for e in ents:
                if e[2][0] == "1":
                    if e[1] == "8":
                        if not seen_rec:
                            return "quiescent heap: fencepost without segment record"
                    elif e[1] == "48" and not seen_rec:
                        seen_rec = True
                    else:
                        return "quiescent heap: in-use chunk %s:%s although nothing is live" % (e[0], e[1])
                elif seen_rec:
                    return "quiescent heap: free chunk after the segment record"
            if len(free) > 1:
                return "quiescent heap: %d free chunks in one segment (not coalesced)" % len(free)
            if si == 0 and (free or inuse):
                return "quiescent heap: head segment is not a single top chunk"
        return None


def sig_of(case, out, why):
    import re
    for pre in ("footprint", "max_footprint", "segment not inside", "quiescent heap", "peak footprint keeps growing"):
        if why.startswith(pre):
            return {"op": case.split()[0], "kind": re.sub(r"[0-9]+", "N", why)[:70]}
    return c03.sig_of(case, out, why)


def workload(r, kind):
    """list of (size, align) plus a free order"""
    n = r.range(3, 60)
    g = c03.Gen(r, big=(kind != "small"))
    items = []
    for _ in range(n):
        if kind == "small":
            items.append((r.range(1, 2000), g.align()))
        elif kind == "large":
            items.append((r.choice([70000, 200000, 1 << 20, (2 << 20) + 5, 3000000, r.range(60000, 4000000)]), r.choice([8, 16, 64, 4096])))
        else:
            items.append((g.size(), g.align()))
    order = r.choice(["lifo", "fifo", "rand", "other"])
    return items, order


def rounds_lines(r, items, order, n, policy="l", interleave=False):
    lines = ["reset"]
    for rnd in range(1, n + 1):
        ids = []
        for k, (sz, al) in enumerate(items):
            i = rnd * FootJudge.ROUND + k
            lines.append("%s %d %d %d | P%s" % ("c" if k % 7 == 3 else "m", i, sz, al, policy))
            ids.append(i)
            if interleave and k % 3 == 2 and len(ids) > 1:
                j = ids.pop(r.below(len(ids)))
                lines.append("f %d | P%s" % (j, policy))
        if order == "lifo":
            seq = ids[::-1]
        elif order == "fifo":
            seq = ids
        elif order == "other":
            seq = ids[::2] + ids[1::2]
        else:
            seq = r.shuffle(ids)
        for i in seq:
            lines.append("f %d | P%s" % (i, policy))
    return lines


NL = os.path.join(C.VERIF, "harness-nolibc")
PROBE = os.path.join(NL, "c04probe")


def build_probe(ctx, threaded):
    tdir = os.path.join(NL, "target-c04-dyn" + ("-thr" if threaded else ""))
    cmd = ["cargo", "build", "--offline", "-q", "--target-dir", tdir] + (["--features", "threaded"] if threaded else [])
    rc, out = C.sh(cmd, cwd=PROBE, env={"RUSTFLAGS": "-C link-arg=-nostartfiles"}, timeout=3000)
    if rc != 0:
        return None, "\n".join(out.splitlines()[-30:])
    return os.path.join(tdir, "debug", "c04probe"), ""


def probe_runs(ctx, r, quick):
    """the real GlobalAlloc glue (GlobalDlMalloc, with the Mutex when threaded) in a no-libc executable whose only
    mapper is the allocator (plus thread stacks): VmSize after every round of a repeated workload"""
    import subprocess
    obs = []
    for threaded in (False, True):
        exe, err = build_probe(ctx, threaded)
        if exe is None:
            ctx.broken.append({"probe_build_failed": err})
            ctx.violation({"kind": "probe-build-failed", "threaded": threaded}, {"error": err}, no_input=True)
            continue
        nw = 5 if quick else 14
        for wi in range(nw + (2 if threaded else 0)):
            kind = ["small", "mixed", "large"][wi % 3]
            items, _ = workload(r, kind)
            items = [(min(sz, 8 << 20), al) for sz, al in items[:40]]
            order = r.below(3)
            rounds = 40 if quick else (2000 if wi < 3 else 200)
            threads = 3 if threaded else 1
            foreign = 0
            if wi >= (4 if quick else 12):
                # a long-lived foreign mapping before every round and blocks above the trim threshold: every round the
                # allocator's new segment is not adjacent to its old ones, the trimmed old head segment must be unmapped
                kind, foreign, order = "large+foreign", 4 << 20, 0
                items = [(3000000, 8), (2500000, 16)] if wi % 2 == 0 else [(2200000, 4096), (5 << 20, 8)]
                rounds = 60 if quick else 400
            reps = 1
            if wi >= nw:
                # contention: many threads hammering the global allocator with the same few sizes, so that every path of the
                # GlobalAlloc glue that depends on WHO holds the allocator lock is taken all the time
                kind, foreign, order = "contended", 0, wi % 2
                items = [(16384, 8)] if wi == nw else [(16384, 8), (48, 8), (700, 16), (16384, 64)]
                threads, rounds, reps = 12, (8 if quick else 12), (4000 if quick else 60000) // len(items)
            script = ("".join("b %d %d\n" % it for it in items) +
                      "order %d\nrounds %d\nthreads %d\nreps %d\nforeign %d\ngo\n" % (order, rounds, threads, reps, foreign))
            p = None
            for attempt in range(2):       # a hang is retried once (seen once, with a thread/join state another check owns)
                try:
                    p = subprocess.run([exe], input=script, stdout=subprocess.PIPE, stderr=subprocess.PIPE, text=True,
                                       timeout=120 if quick else 900)
                    break
                except subprocess.TimeoutExpired:
                    ctx.hist("probe_hangs", "threaded" if threaded else "single")
            if p is None:
                ctx.violation({"kind": "probe-hung", "threaded": threaded},
                              {"why": "the no-libc probe did not finish twice in a row", "script": script,
                               "how_to_replay": "feed `script` on stdin to " + exe})
                continue
            ctx.evaluations += rounds * reps * (threads if reps > 1 else 1)
            lines = [l.split() for l in p.stdout.splitlines()]
            vm = [int(l[2]) * 4096 for l in lines if l and l[0] == "r" and len(l) == 4]
            bad = sum(int(l[3]) for l in lines if l and l[0] == "r" and len(l) == 4)
            sig = None
            if p.returncode != 0 or len(vm) != rounds or not lines or lines[-1] != ["done"]:
                sig, why = "probe-died", "probe exited %s after %d of %d rounds: %s" % (p.returncode, len(vm), rounds, p.stdout[-200:])
            elif bad:
                sig, why = "probe-block-damaged", "%d blocks misaligned / not zeroed / altered" % bad
            else:
                demand = threads * sum(int(sz * 1.5) + al + 64 for sz, al in items)
                best = max(vm[:rounds // 2])
                records = 0
                for v in vm[rounds // 2:]:
                    if v > best:
                        records, best = records + 1, v
                if records > (rounds - rounds // 2) // 2:
                    sig, why = "vmsize-keeps-growing", "VmSize set a new record in %d of the last %d rounds" % (records, rounds - rounds // 2)
                elif kind == "contended" and vm[-1] - vm[0] > demand + (512 << 10):
                    # every thread frees all it allocated within one repetition: after the first round (which sizes the heap
                    # for `threads` simultaneous repetitions) the mapped size has no reason to move at all
                    sig, why = "vmsize-keeps-growing", "contended workload: VmSize grew by %d from the first to the last round (demand of all threads together %d)" % (vm[-1] - vm[0], demand)
                elif max(vm) - vm[0] > 3 * demand + (16 << 20):
                    sig, why = "vmsize-exceeds-demand", "VmSize grew by %d, more than 3 x demand %d + 16 MiB" % (max(vm) - vm[0], demand)
            if sig:
                ctx.violation({"kind": sig, "threaded": threaded},
                              {"why": why, "script": script, "how_to_replay": "feed `script` on stdin to " + exe, "vmsize_bytes": vm[:60]})
            ctx.count(("probe", threaded, kind, order))
            obs.append({"threaded": threaded, "blocks": len(items), "kind": kind, "rounds": rounds,
                        "vmsize_first": vm[0] if vm else None, "vmsize_max": max(vm) if vm else None,
                        "last_growth_round": max([i + 1 for i in range(1, len(vm)) if vm[i] > max(vm[:i])], default=1)})
    ctx.extra["nolibc_probe"] = obs[:12]


def replay(ctx, rp):
    if "script" in rp.get("replay", {}):
        import subprocess
        r = rp["replay"]
        exe, err = build_probe(ctx, "thr" in str(r.get("how_to_replay", "")))
        if exe is None:
            print(err)
            return 2
        p = subprocess.run([exe], input=r["script"], stdout=subprocess.PIPE, text=True, timeout=3000)
        print(p.stdout[-2000:])
        return 0
    return c03.replay(ctx, rp, judge_factory=lambda: FootJudge(int(rp.get("replay", {}).get("rounds", 0) or 0)))


def run(ctx):
    ctx.rule = ("cases = workloads (3..60 blocks; small / mixed / large sizes up to 32 MiB, alignments 1..8192, optionally interleaved "
                "frees; free order LIFO/FIFO/random/every-other) repeated N times with mmap placement below the lowest mapping (as "
                "Linux), adjacent above, or disjoint; distinct_nontrivial = distinct (workload kind, free order, placement policy, "
                "interleaved, number of segments reached, trim seen, segment release seen) classes")
    ctx.assumptions += c03.ASSUMPTIONS + [
        "the closed-form bound footprint <= f(peak live bytes) for arbitrary histories (a Robson-type fragmentation bound) is NOT proved; "
        "proved: footprint bookkeeping exact, OS asked only when neither dv nor top fits, determinism fixpoint; observed: per-round peak "
        "footprint stops growing on every generated workload",
        "multi-threaded use goes through GlobalDlMalloc = Mutex<Dlmalloc> (C01 proves the mutex); the sequential allocator is what is "
        "modelled here",
    ]
    ctx.trusted.append("harness/c03 (walker, arena OS emulation, shadow map); checks/dl_extract.py; the no-libc probe "
                       "harness-nolibc/c04probe (VmSize from /proc/self/statm; observation only)")
    if not c03.prepare(ctx):
        return
    ok = C.lean_prove(ctx, "TinyVerif.Props.C04", drivers=["drv_c03"])
    quick = ctx.tier == "quick"
    drv = C.driver_path("drv_c03")
    exe, err = c03.build(ctx, "optda")
    if exe is None:
        ctx.broken.append({"harness_build_failed": err})
        ctx.violation({"kind": "harness-build-failed"}, {"error": err}, no_input=True)
        return
    r = ctx.rng
    nw = 12 if quick else 120
    n = 20 if quick else 60
    # directed: blocks above the trim threshold with every new mapping disjoint from the old ones (as when foreign
    # mappings sit in between): each round abandons a trimmed head segment that release_unused_segments must unmap
    directed = [("large", [(3000000, 8), (2500000, 16)], "lifo", "g", False),
                ("large", [(2200000, 4096), (5 << 20, 8), (70000, 8)], "fifo", "G", False),
                ("large", [(3 << 20, 8)], "lifo", "g", True)]
    for wi in range(nw + len(directed)):
        if wi < len(directed):
            kind, items, order, policy, inter = directed[wi]
        else:
            kind = ["small", "mixed", "large"][wi % 3]
            items, order = workload(r, kind)
            policy = r.choice("lllllagGh")
            inter = r.chance(1, 3)
        lines = rounds_lines(r, items, order, n, policy, inter)
        conc = c03.run_histories(ctx, "rounds-%d" % wi, exe, drv, [lines], judge_factory=lambda n=n: FootJudge(n), timeout=3000)
        if conc is None:
            continue
        # classes
        rc, outs, _ = C.run_filter([exe], conc, timeout=3000)
        nseg = max((o.count("+") for o in outs if " S=" in o), default=0)
        trim = any(" os=R" in o or ";R" in o for o in outs)
        rel = any("U" in o.split(" os=")[1].split()[0] for o in outs if " os=" in o)
        ctx.count((kind, order, policy, inter, min(nseg, 6), trim, rel))
        ctx.hist("workloads", "%s/%s/P%s" % (kind, order, policy))
        fps = {}
        for c_, o_ in zip(conc, outs):
            if " fp=" in o_ and c_.split()[0] in "mcrf":
                rnd = int(c_.split()[1]) // FootJudge.ROUND
                fps[rnd] = max(fps.get(rnd, 0), int(o_.split(" fp=")[1].split()[0]))
        if wi < 6:
            ctx.sample({"workload": items[:8], "blocks": len(items), "free_order": order, "policy": policy, "interleaved": inter,
                        "peak_footprint_per_round": [fps[k] for k in sorted(fps)][:n]})
    # long run: 2000 rounds (thorough) / 200 (quick) of one mixed workload, hashed layout
    items, order = workload(r, "mixed")
    nlong = 200 if quick else 2000
    lines = rounds_lines(r, items[:25], order, nlong, "l", True)
    c03.run_histories(ctx, "rounds-long", exe, drv, [lines], judge_factory=lambda: FootJudge(nlong), timeout=3000, dump="hash")
    probe_runs(ctx, r, quick)
    if not ok and not ctx.violations:
        ctx.violation({"kind": "proof-broken"}, {"broken": ctx.broken}, no_input=True)
