"""C05 — Threads: closure runs once; join awaits exit and returns the value (None on panic); a thread that
cannot be created is an error.  (C06 — resources released exactly once — shares this machinery: checks/c06.py.)

Implementation side: the no-libc probe /verif/harness-nolibc/c05probe (own cargo workspace, built from /repo's
working tree, dynamic PIE + static + static PIE) runs scenario scripts against the real
tiny_std::thread::{spawn, JoinHandle::join, Drop} under `strace -f` (raw arguments).  The probe makes its own
protocol points and every heap event visible as marker system calls, so one totally ordered stream carries
mmap / clone / set_tid_address / futex / munmap / exit per tid + markers + allocator events.
The stream is (a) judged directly against the property in plain Python and (b) mapped to the Lean model's events
and replayed by drv_c05: the model must accept the history, end with a clean ledger and predict every join.

Tie T (checks/thread_extract.py -> Gen/ThreadSites.lean -> Props/C05 `gen_shape_ok`, `gen_params_from_paths`,
`gen_cfg_good`) is semantic: helper functions inlined, paths enumerated, orderings as "at least".  A model parameter
the extractor cannot decide from the source (a construct it does not understand) is taken from the running code —
`calibrate`: fault-injected / scheduled probe runs — and reported in the evidence (`coverage.tie_T`); the demand that
the parameters be the good ones is never dropped.  Orders the model does not rely on are canonicalised before the
replay (the releases of spawn's error path commute: `undo_releases_commute`).

Result classes include types whose `Option<T>::None` is not the all-zero pattern (bool, char, Ordering, field-less
enum, Option<u32>, Result<u8,u8>, a struct(bool) with a counting destructor): "None exactly when the closure
panicked, Some(v) with the exact value otherwise" is judged for them too, joined and dropped (a value nobody made must
never be dropped).

Classes 13 / 14 are results whose destructor panics (13: wherever it runs — the probe holds such a closure until its dropped
handle is gone and forgets a joined value; 14: only on a spawned thread, so every order of join / drop-before / drop-while /
drop-after is run freely).  A destructor that panics on the spawned thread starts the panic handler in the middle of the
thread's epilogue: every release the epilogue did before that point is repeated by the handler.  The destructor's entry is a
marker system call, so its position relative to the releases is observed, judged (double / foreign free, futex call on a freed
block, exactly one destructor run per returned value, on the side that frees the block, heap at baseline + the closures of the
panicked threads) and replayed on the model (`tDropVal` / `tDropPanic`).  The allocator wrapper poisons released blocks and
keeps them in a quarantine ring, so a read through a dangling pointer sees 0xDD.. and a double release is reported, not executed."""
import concurrent.futures as cf
import os
import re
import signal
import subprocess
import tempfile
import time

if __name__ == "__main__":
    import sys
    sys.path.insert(0, os.path.dirname(os.path.dirname(os.path.abspath(__file__))))
    from checks import common as C
    from checks import thread_extract
else:
    from . import common as C
    from . import thread_extract

NL = os.path.join(C.VERIF, "harness-nolibc")
PROBE = os.path.join(NL, "c05probe")
MODES = {
    "dyn": "-C link-arg=-nostartfiles",
    "static": "-C target-feature=+crt-static -C relocation-model=static -C link-arg=-nostartfiles",
    "spie": "-C target-feature=+crt-static -C relocation-model=pie -C link-arg=-nostartfiles",
}
TRACE = "clone,clone3,mmap,munmap,mremap,brk,futex,set_tid_address,exit,exit_group,pread64"
M64 = (1 << 64) - 1
STACK_LEN = 0x200000
CLASSES = {0: "zst", 1: "u8", 2: "u64", 3: "[u8;4096]", 4: "align64", 5: "Box<[u64;3]>",
           # result types whose `Option<T>::None` is NOT the all-zero bit pattern (the niche is a non-zero value): a result
           # slot that is merely zeroed instead of initialised to `None` reads back as `Some(<zero value>)`
           6: "bool", 7: "char", 8: "core::cmp::Ordering", 9: "fieldless enum", 10: "Option<u32>", 11: "Result<u8,u8>",
           # the same with a destructor that counts its runs: a value fabricated from a zeroed slot is *dropped* by a dropped handle
           12: "struct(bool) with Drop",
           # a result whose DESTRUCTOR PANICS: when the handle was dropped before the closure returned the runtime runs it on the
           # spawned thread, in the middle of the thread's epilogue — the panic handler then starts from there
           13: "struct with Drop that panics", 14: "struct with Drop that panics on a spawned thread only"}
BOMBS = (13, 14)
# mmap flags under which what mmap(len) mapped is exactly what munmap(addr, len) releases (Props/C06 `fixedExtentFlags`): MAP_PRIVATE,
# MAP_ANONYMOUS, MAP_LOCKED, MAP_NORESERVE, MAP_POPULATE, MAP_NONBLOCK, MAP_STACK.  Outside: MAP_GROWSDOWN (the kernel extends the area
# downwards on demand), MAP_HUGETLB / MAP_HUGE_* (length rounded), MAP_FIXED / MAP_FIXED_NOREPLACE (caller's address), shared / file.
FIXED_EXTENT_FLAGS = 0x2 | 0x20 | 0x2000 | 0x4000 | 0x8000 | 0x10000 | 0x20000
MAP_NAMES = {0x1: "MAP_SHARED", 0x10: "MAP_FIXED", 0x100: "MAP_GROWSDOWN", 0x40000: "MAP_HUGETLB", 0x100000: "MAP_FIXED_NOREPLACE"}


def fixed_extent(flags):
    return flags is not None and (flags | FIXED_EXTENT_FLAGS) == FIXED_EXTENT_FLAGS and flags & 0x22 == 0x22


def flag_names(flags):
    bad = flags & ~FIXED_EXTENT_FLAGS
    return "|".join([n for b, n in MAP_NAMES.items() if bad & b] + (["%#x" % (bad & ~sum(MAP_NAMES))] if bad & ~sum(MAP_NAMES) else []))
# WHERE the closure panics (script token `panic_<site>`): "" a plain panic!; "e" / "o" / "d" inside an argument of tiny-std's
# eprintln! / println! / dbg! — the thread then holds the library's stderr / stdout print lock while its panic handler runs;
# "m" while holding guards of a tiny_std::sync::Mutex and RwLock of its own.  The property is the same for all of them: the
# thread exits, join returns None, everything but the closure is released.
SITES = {"": "plain panic!", "e": "inside an eprintln! argument (stderr print lock held)", "o": "inside a println! argument (stdout print lock held)",
         "d": "inside a dbg! argument (stderr print lock held)", "m": "holding guards of its own Mutex and RwLock"}
# a thread that dies inside a print macro never releases that print lock (nothing unwinds), so the next thread that prints to the
# same stream would block before it panics: one per lock per probe process
LOCK_OF = {"e": "stderr", "d": "stderr", "o": "stdout"}


def one_per_print_lock(batches):
    """keep at most one panic_e/panic_d and one panic_o thread per script (= per probe process); the others panic plainly"""
    used = set()
    for specs in batches:
        for sp in specs:
            lk = LOCK_OF.get(sp.get("site", ""))
            if sp["panic"] and lk:
                if lk in used:
                    sp["site"] = ""
                else:
                    used.add(lk)
    return batches
NCLASS = len(CLASSES)


# ------------------------------------------------------------------ build / run

def build_probe(ctx, mode, stock=False):
    cmd = ["cargo", "build", "--offline", "-q", "--target-dir", os.path.join(NL, "target-" + mode + ("-stock" if stock else ""))]
    if stock:
        cmd += ["--no-default-features", "--features", "stock"]
    rc, out = 1, ""
    for _ in range(4):
        rc, out = C.sh(cmd, cwd=PROBE, env={"RUSTFLAGS": MODES[mode]}, timeout=3000)
        if rc == 0 or "error: linking" in out or "error[" in out or "undefined symbol" in out:
            break
        time.sleep(5)
    if rc != 0:
        return None, "\n".join([l for l in out.splitlines() if l.strip() and "warning" not in l][-25:])
    return os.path.join(NL, "target-" + mode + ("-stock" if stock else ""), "debug", "c05probe"), ""


def run_probe(exe, script, inject=None, timeout=25.0):
    """returns dict(status, out, trace(lines), timed_out)"""
    fd, tpath = tempfile.mkstemp(prefix="c05tr-", dir=os.path.join(C.VERIF, "scratch") if os.path.isdir(os.path.join(C.VERIF, "scratch")) else None)
    os.close(fd)
    cmd = ["strace", "-f", "-o", tpath, "-e", "raw=all", "-e", "trace=" + TRACE]
    if inject:
        cmd += ["-e", "inject=" + inject]
    cmd.append(exe)
    p = subprocess.Popen(cmd, stdin=subprocess.PIPE, stdout=subprocess.PIPE, stderr=subprocess.PIPE, start_new_session=True)
    timed_out = False
    try:
        out, err = p.communicate(script.encode(), timeout=timeout)
    except subprocess.TimeoutExpired:
        timed_out = True
        try:
            os.killpg(p.pid, signal.SIGKILL)
        except ProcessLookupError:
            pass
        out, err = p.communicate()
    try:
        trace = open(tpath, errors="replace").read().splitlines()
    finally:
        try:
            os.unlink(tpath)
        except OSError:
            pass
    return {"status": p.returncode, "out": out.decode("ascii", "replace"), "trace": trace, "timed_out": timed_out,
            "stderr": err.decode("ascii", "replace")[-300:]}


# ------------------------------------------------------------------ strace stream -> records

RE_FULL = re.compile(r"^(\d+)\s+(\w+)\((.*)\)\s+= (.+)$")
RE_UNF = re.compile(r"^(\d+)\s+(\w+)\((.*) <unfinished \.\.\.>$")
RE_RES = re.compile(r"^(\d+)\s+<\.\.\. (\w+) resumed>(.*)\)\s+= (.+)$")
RE_EXITED = re.compile(r"^(\d+)\s+\+\+\+ (exited with (\d+)|killed by (\w+)) \+\+\+")


def _args(s):
    out = []
    for a in s.split(","):
        a = a.strip()
        if not a:
            continue
        try:
            out.append(int(a, 0))
        except ValueError:
            out.append(None)
    return out


def _ret(s):
    s = s.strip()
    if s.startswith("?"):
        return None, None
    m = re.match(r"^(-?\w+)(?:\s+(E\w+))?", s)
    try:
        v = int(m.group(1), 0)
    except (ValueError, AttributeError):
        return None, None
    return v, m.group(2)


def parse_trace(lines):
    """-> (list of syscall records {pid,name,args,ret,err,entry,exit,injected}, {pid: exited line idx})"""
    recs, pending, exited = [], {}, {}
    for idx, l in enumerate(lines):
        m = RE_FULL.match(l)
        if m and "<unfinished" not in l and "resumed>" not in l:
            v, e = _ret(m.group(4))
            recs.append({"pid": int(m.group(1)), "name": m.group(2), "args": _args(m.group(3)), "ret": v, "err": e,
                         "entry": idx, "exit": idx, "injected": "INJECTED" in l})
            continue
        m = RE_UNF.match(l)
        if m:
            r = {"pid": int(m.group(1)), "name": m.group(2), "args": _args(m.group(3)), "ret": None, "err": None,
                 "entry": idx, "exit": None, "injected": False}
            recs.append(r)
            pending[int(m.group(1))] = r
            continue
        m = RE_RES.match(l)
        if m:
            r = pending.pop(int(m.group(1)), None)
            if r is not None:
                r["args"] += _args(m.group(3))
                r["ret"], r["err"] = _ret(m.group(4))
                r["exit"] = idx
                r["injected"] = "INJECTED" in l
            continue
        m = RE_EXITED.match(l)
        if m:
            exited[int(m.group(1))] = idx
    return recs, exited


RE_SIGNAL = re.compile(r"^(\d+)\s+--- (SIG\w+) \{(.*)\} ---")


def fatal_signals(lines):
    """{tid: (signal, line, siginfo)} for the threads that received a signal the probe does not handle (it installs no handlers and
    sends no signals: any SIGSEGV / SIGBUS / SIGILL / SIGABRT line is the thread that faulted, the process dies with it)"""
    out = {}
    for idx, l in enumerate(lines):
        m = RE_SIGNAL.match(l)
        if m and m.group(2) in ("SIGSEGV", "SIGBUS", "SIGILL", "SIGABRT", "SIGFPE", "SIGTRAP"):
            out.setdefault(int(m.group(1)), (m.group(2), idx, m.group(3)[:80]))
    return out


def is_marker(r):
    return r["name"] == "pread64" and len(r["args"]) >= 4 and r["args"][0] == M64 - 1


def is_heap(r):
    return r["name"] == "pread64" and len(r["args"]) >= 4 and r["args"][0] == M64


def parse_out(text):
    """probe's text records -> {batch_no: {...}}"""
    batches, cur, classes = {}, None, {}
    for l in text.splitlines():
        w = l.split()
        if not w:
            continue
        if w[0] == "class":
            classes[int(w[1])] = (int(w[2]), int(w[3]))
        elif w[0] == "batch":
            cur = {"n": int(w[2]), "spawn": {}, "join": {}, "drop": set(), "runs": {}, "before": None, "after": None, "ended": False, "drops": None,
                   "bombs": None, "mapdiff": []}
            batches[int(w[1])] = cur
        elif cur is None:
            continue
        elif w[0] in ("before", "after"):
            cur[w[0]] = dict(zip(["bytes", "blocks", "vm", "maps", "maphash", "threads"], [int(x) for x in w[1:7]]))
        elif w[0] == "spawn":
            cur["spawn"][int(w[1])] = ("ok", 0) if w[2] == "ok" else ("err", int(w[3]))
        elif w[0] == "join":
            cur["join"][int(w[1])] = {"val": int(w[3]) if w[2] == "some" else None, "effect": int(w[-1])}
        elif w[0] == "drop":
            cur["drop"].add(int(w[1]))
        elif w[0] == "runs":
            cur["runs"][int(w[1])] = {"count": int(w[2]), "token": int(w[3]), "effect": int(w[4]), "drops": int(w[5]) if len(w) > 5 else None,
                                      "made": int(w[6]) if len(w) > 6 else None}
        elif w[0] == "drops":
            cur["drops"] = (int(w[1]), int(w[2]))
        elif w[0] == "mapdiff":
            cur["mapdiff"].append((w[1], int(w[2], 16), int(w[3], 16), int(w[4])))
        elif w[0] == "bombs":
            cur["bombs"] = tuple(int(x) for x in w[1:5])
        elif w[0] == "end":
            cur["ended"] = True
    return batches, classes


# ------------------------------------------------------------------ layout (property side, plain Python)

def layout(vsize, valign):
    def pad(b, a):
        return 0 if b % a == 0 else a - b % a
    off = 24 + pad(24, valign)
    align = max(8, valign)
    end = off + vsize
    return end + pad(end, align), align, off


# ------------------------------------------------------------------ one batch: observation -> judge + model events

class Inst:
    def __init__(self, iid, spec):
        self.id, self.spec = iid, spec
        self.tsm = self.box = self.tls = None      # (ptr, size, align, line)
        self.stack = None                          # (addr, len, line) when mmap ok
        self.mmap_fail = self.clone_fail = False
        self.tid = None
        self.ev = []                               # (pos, seq, token)
        self.problems = []
        self.hwon = None
        self.path = None                           # join/drop wait path: fast | eagain | parked | won
        self.kpos_need = None
        self.t_exit = self.t_exited = None
        self.rval = "unset"
        self.edigest = None
        self.hung = None
        self.dmarks = []                           # destructor entries of this id's result: (pos, 'x' returns | 'X' panics, pid)
        self.forgot = 0


def futex_word(inst):
    """the address join / drop wait on: the clear-tid address the thread was cloned with (x86-64 raw clone: flags, stack, ptid, ctid, tls);
    before a clone was seen, where the model's layout puts the word"""
    ca = getattr(inst, "clone_args", None)
    if ca and len(ca) > 3 and ca[3]:
        return ca[3]
    return inst.tsm[0] + 4 if inst.tsm else None


def analyze_batch(recs, exited, lo, hi, main, specs, cfg, classes, textb, nlines, heap_before, faults=None):
    """recs[lo:hi] = records between the batch's 'b' and 'e' markers (hi = len if the batch never ended).
    Returns (instances, problems(list of (kind, why)), stats)"""
    seqc = [0]
    problems = []
    insts = {sp["id"]: Inst(sp["id"], sp) for sp in specs}

    def add(inst, pos, tok):
        seqc[0] += 1
        inst.ev.append((pos, seqc[0], tok))

    by_tid = {}
    # ---- pass 1: the handle side of every instance, executed by its owner: the main thread, or (nested scripts) the thread of the
    # instance named as its parent, inside that thread's closure.  One state machine per owner thread.
    class Owner:
        def __init__(self, iid):
            self.iid, self.cur, self.phase, self.nalloc = iid, None, None, 0
    owners = {main: Owner(None)}
    has_children = {sp.get("parent") for sp in specs if sp.get("parent") is not None}
    h_vm = set()                                   # mmap / munmap records accounted for as part of somebody's spawn (pass 1)
    heap_live = dict(heap_before)
    stats = {"alloc_mmap": 0, "alloc_munmap": 0, "other_vm": 0}
    window = recs[lo:hi]
    stack_ranges = {}
    word_of = {}                                   # futex word address -> the instance whose shared block holds it
    for r in window:
        if is_marker(r) and chr(r["args"][1] & 0xff) in "xXf" and r["args"][2] in insts:
            k = chr(r["args"][1] & 0xff)
            if k == "f":
                insts[r["args"][2]].forgot += 1
            else:
                insts[r["args"][2]].dmarks.append((r["entry"], k, r["pid"]))
        if r["name"] in ("mremap", "mmap") and r["args"] and r["args"][0] and stack_ranges:
            lo_, hi_ = r["args"][0], r["args"][0] + (r["args"][1] or 0)
            fixed = r["name"] == "mmap" and len(r["args"]) > 3 and (r["args"][3] or 0) & 0x100010
            if r["name"] == "mremap" or fixed:
                for a_, i_ in stack_ranges.items():
                    if i_.stack and i_.stack[0] == a_ and lo_ < a_ + i_.stack[1] and hi_ > a_ and getattr(i_, "t_munmap", None) is None and i_.tid is not None:
                        problems.append(("stack", "%s by tid %d over [%#x, %#x) changes the extent of the stack mapping of id %d" % (
                            r["name"] + ("(MAP_FIXED)" if fixed else ""), r["pid"], lo_, hi_, i_.id)))
        if r["name"] == "futex" and r["args"] and r["args"][0] in word_of:
            wi = word_of[r["args"][0]]
            if wi.tsm and wi.tsm[0] not in heap_live:
                problems.append(("use-after-free", "futex call by tid %d on the exit word %#x of id %d after its shared block %#x was released" % (
                    r["pid"], r["args"][0], wi.id, wi.tsm[0])))
        if is_heap(r):
            ptr, size, al, op = r["args"][1], r["args"][2], r["args"][3] >> 1, r["args"][3] & 1
            if op == 0:
                if ptr in heap_live:
                    problems.append(("heap", "allocator returned a live block %#x twice" % ptr))
                heap_live[ptr] = (size, al)
            else:
                if ptr not in heap_live:
                    problems.append(("double-free", "free of %#x (size %d) by tid %d: not a live block (double or foreign free)" % (ptr, size, r["pid"])))
                else:
                    if heap_live[ptr][:2] != (size, al):
                        problems.append(("heap", "free of %#x with layout (%d,%d), allocated with %s" % (ptr, size, al, heap_live[ptr][:2])))
                    del heap_live[ptr]
        st = owners.get(r["pid"])
        if st is None:
            continue
        if is_marker(r):
            kind, iid, aux = chr(r["args"][1] & 0xff), r["args"][2], r["args"][3]
            if kind in "SsJRDd" and iid not in insts:
                problems.append(("probe", "marker for unknown id %d" % iid))
                continue
            if kind in "SsJRDd" and insts[iid].spec.get("parent") != st.iid:
                problems.append(("probe", "handle-side marker %s of id %d on the thread of %s, its script parent is %s" % (
                    kind, iid, "main" if st.iid is None else "id %d" % st.iid, insts[iid].spec.get("parent"))))
                continue
            if kind not in "SsJRDd":
                continue            # closure / destructor markers of the thread itself: pass 2
            if kind == "S":
                st.cur, st.phase, st.nalloc = insts[iid], "spawn", 0
                st.cur.undo = []
            elif kind == "s":
                st.cur.spawn_ret = aux
                # spawn's error path: the releases of tls, stack, closure and shared block touch one resource each and no
                # other party exists yet, so they commute (Props/C05 `undo_releases_commute`); the model performs them in one
                # fixed order: hand them to it in that order, at the observed positions.  That each happens exactly once is
                # still decided by the model (ledger) and by the heap / mapping oracles.
                if st.cur.undo:
                    rank = {"hUndoTls": 0, "hUndoStack": 1, "hUndoBox": 2, "hUndoTsm": 3}
                    st.cur.undo_order = [t for _, t in st.cur.undo]
                    for (pos, _), tok in zip(st.cur.undo, sorted(st.cur.undo_order, key=lambda t: rank[t])):
                        add(st.cur, pos, tok)
                st.cur, st.phase = None, None
            elif kind == "J":
                st.cur, st.phase = insts[iid], "join"
                st.cur.jpos = r["entry"]
                st.cur.waits = []
                st.cur.freeline = None
                add(st.cur, r["entry"], "hJoin")
            elif kind == "R":
                st.cur.rval = (aux >> 1) if aux & 1 else None
                st.cur.rpos = r["entry"]
                st.cur, st.phase = None, None
            elif kind == "D":
                st.cur, st.phase = insts[iid], "drop"
                st.cur.jpos = r["entry"]
                st.cur.waits = []
                st.cur.freeline = None
                add(st.cur, r["entry"], "hDrop")
            elif kind == "d":
                st.cur.rpos = r["entry"]
                st.cur, st.phase = None, None
            continue
        if st.cur is None:
            if st.iid is None and r["name"] in ("mmap", "munmap", "mremap", "brk") and not is_heap(r):
                stats["other_vm"] += 1         # (a spawned owner's own system calls outside a spawn / join / drop: pass 2)
            continue
        if st.phase == "spawn":
            if is_heap(r):
                ptr, size, al, op = r["args"][1], r["args"][2], r["args"][3] >> 1, r["args"][3] & 1
                if op == 0:
                    st.nalloc += 1
                    if st.nalloc == 1:
                        st.cur.tsm = (ptr, size, al, r["entry"])
                        word_of[ptr + 4] = st.cur
                        add(st.cur, r["entry"], "hAllocTsm")
                    elif st.nalloc == 2:
                        st.cur.box = (ptr, size, al, r["entry"])
                        add(st.cur, r["entry"], "hBox")
                    elif st.nalloc == 3 and st.cur.stack is not None:
                        st.cur.tls = (ptr, size, al, r["entry"])
                        add(st.cur, r["entry"], "hAllocTls")
                    else:
                        problems.append(("model-map", "unexpected allocation #%d inside spawn of %d" % (st.nalloc, st.cur.id)))
                else:
                    if st.cur.tls and ptr == st.cur.tls[0]:
                        st.cur.undo.append((r["entry"], "hUndoTls"))
                    elif st.cur.box and ptr == st.cur.box[0]:
                        st.cur.undo.append((r["entry"], "hUndoBox"))
                    elif st.cur.tsm and ptr == st.cur.tsm[0]:
                        st.cur.undo.append((r["entry"], "hUndoTsm"))
                    else:
                        problems.append(("model-map", "unexpected free inside spawn of %d" % st.cur.id))
            elif r["name"] == "mmap":
                h_vm.add(r["entry"])
                if st.nalloc == 2 and st.cur.stack is None and not st.cur.mmap_fail and len(r["args"]) >= 2 and r["args"][1] == STACK_LEN:
                    st.cur.stack_flags = r["args"][3] if len(r["args"]) > 3 else None
                    if not fixed_extent(st.cur.stack_flags):
                        problems.append(("mapping-flags", "the stack of id %d is mapped with flags %#x: %s is outside the fixed-extent set — the kernel may map more (or "
                                         "elsewhere) than the (addr, len) the thread will munmap" % (st.cur.id, st.cur.stack_flags or 0, flag_names(st.cur.stack_flags or 0))))
                    if r["ret"] is not None and r["err"] is None:
                        st.cur.stack = (r["ret"], r["args"][1], r["entry"])
                        stack_ranges[r["ret"]] = st.cur
                        add(st.cur, r["entry"], "hMmap=1")
                    else:
                        st.cur.mmap_fail = True
                        add(st.cur, r["entry"], "hMmap=0")
                else:
                    stats["alloc_mmap"] += 1
            elif r["name"] == "munmap":
                if st.cur.stack and r["args"][:2] == [st.cur.stack[0], st.cur.stack[1]]:
                    st.cur.stack_unmapped_by = (r["pid"], r["entry"])
                    h_vm.add(r["entry"])
                    st.cur.undo.append((r["entry"], "hUndoStack"))
                else:
                    stats["alloc_munmap"] += 1
            elif r["name"] in ("clone", "clone3"):
                if r["err"] is None and r["ret"] is not None and r["ret"] > 0:
                    st.cur.tid = r["ret"]
                    by_tid[st.cur.tid] = st.cur
                    if st.cur.id in has_children:
                        owners[st.cur.tid] = Owner(st.cur.id)
                    st.cur.clone_args = r["args"]
                    add(st.cur, r["entry"], "hClone=1")
                else:
                    st.cur.clone_fail = True
                    add(st.cur, r["entry"], "hClone=0")
            elif r["name"] in ("mremap", "brk"):
                stats["other_vm"] += 1
        elif st.phase in ("join", "drop"):
            if is_heap(r):
                ptr, op = r["args"][1], r["args"][3] & 1
                if op == 1 and st.cur.tsm and ptr == st.cur.tsm[0]:
                    st.cur.freeline = r["entry"]
            elif r["name"] == "futex" and r["args"][0] == futex_word(st.cur):
                st.cur.waits.append(r)
            elif r["name"] in ("mmap", "munmap", "mremap", "brk"):
                stats["other_vm"] += 1
    # ---- pass 2: spawned threads
    for r in window:
        inst = by_tid.get(r["pid"])
        if inst is None or r["pid"] == main:
            continue
        inst.trecs = getattr(inst, "trecs", [])
        inst.trecs.append(r)
    for inst in insts.values():
        sp = inst.spec
        trecs = getattr(inst, "trecs", [])
        inst.t_settid = inst.t_free_tsm = inst.t_free_tls = inst.t_free_box = inst.t_munmap = None
        inst.t_begin = inst.t_end = inst.t_panic = None
        inst.t_all = []                            # every observed operation of the thread, in order: (pos, model token)
        nb = 0
        after_munmap = False
        for r in trecs:
            if after_munmap and r["name"] not in ("exit",):
                problems.append(("stack-use-after-unmap", "thread %d of id %d issued %s after unmapping its own stack" % (inst.tid, inst.id, r["name"])))
            if is_marker(r):
                kind, iid, aux = chr(r["args"][1] & 0xff), r["args"][2], r["args"][3]
                if kind in "SsJRDd":
                    continue            # this thread as the handle side of its script children: pass 1
                if iid != inst.id:
                    problems.append(("runs-once", "thread %d created for id %d ran the closure of id %d" % (inst.tid, inst.id, iid)))
                if kind == "B":
                    nb += 1
                    inst.t_begin = r["entry"]
                    if inst.stack and not (inst.stack[0] <= aux < inst.stack[0] + inst.stack[1]):
                        problems.append(("stack", "closure of id %d runs on %#x, outside its stack mapping" % (inst.id, aux)))
                elif kind == "E":
                    inst.t_end = r["entry"]
                    inst.edigest = aux
                elif kind == "P":
                    inst.t_panic = r["entry"]
                elif kind == "G":
                    inst.grew = aux            # pages just below its stack mapping the thread could touch (0: EFAULT at once; 0x1000: window not free)
            elif is_heap(r):
                ptr, op = r["args"][1], r["args"][3] & 1
                if op == 1:
                    # scalars: the first occurrence (a second release is the heap oracle's business); t_all: every one
                    if inst.tsm and ptr == inst.tsm[0]:
                        inst.t_free_tsm = r["entry"] if inst.t_free_tsm is None else inst.t_free_tsm
                        inst.t_all.append((r["entry"], "tFreeTsm"))
                    elif inst.tls and ptr == inst.tls[0]:
                        inst.t_free_tls = r["entry"] if inst.t_free_tls is None else inst.t_free_tls
                        inst.t_all.append((r["entry"], "tFreeTls"))
                    elif inst.box and ptr == inst.box[0]:
                        inst.t_free_box = r["entry"] if inst.t_free_box is None else inst.t_free_box
                        inst.t_all.append((r["entry"], "tFreeBox"))
            elif r["name"] == "set_tid_address":
                if r["args"][0] == 0:
                    inst.t_settid = r["entry"] if inst.t_settid is None else inst.t_settid
                    inst.t_all.append((r["entry"], "tSetTid"))
            elif r["name"] == "munmap":
                if inst.stack and r["args"][:2] == [inst.stack[0], inst.stack[1]]:
                    if inst.t_munmap is not None:
                        problems.append(("stack", "stack of id %d unmapped twice" % inst.id))
                    inst.t_munmap = r["entry"]
                    inst.t_all.append((r["entry"], "tMunmap"))
                    after_munmap = True
                elif r["entry"] in h_vm:
                    pass                           # the error path of a spawn this thread made itself (pass 1)
                elif r["args"][0] in stack_ranges:
                    problems.append(("stack", "thread of id %d unmapped the stack of id %d" % (inst.id, stack_ranges[r["args"][0]].id)))
                else:
                    stats["other_vm"] += 1         # the allocator gave memory back while a spawned thread held its lock
            elif r["name"] == "mmap" and r["entry"] in h_vm:
                pass                               # inside a spawn this thread made itself: a child's stack / the allocator (counted there)
            elif r["name"] in ("mmap", "mremap", "brk"):
                stats["other_vm"] += 1
            elif r["name"] == "exit":
                inst.t_exit = r["entry"]
                inst.t_all.append((r["entry"], "tExit"))
        inst.nbegin = nb
        # set_tid_address acts on the CALLING thread: a spawned thread may reset its clear-tid address only on its way to freeing its
        # own join state (it lost the hand-over).  Any other reset — made on behalf of another thread's join state, say — and the
        # kernel will never clear and wake this thread's exit word: whoever joins or drops its handle waits for ever
        own_frees = [p_ for p_, t_ in inst.t_all if t_ == "tFreeTsm"]
        for p_, t_ in inst.t_all:
            if t_ == "tSetTid" and not any(q_ > p_ for q_ in own_frees) and (inst.t_exit is not None or hi < len(recs)):
                problems.append(("clear-tid-wiped", "the thread of id %d (tid %d) reset its own clear-tid address (set_tid_address(0), trace line %d) "
                                 "without freeing its own join state afterwards%s: its exit will not clear / wake its exit word" % (
                                     inst.id, inst.tid, p_, " — it did so as the handle side of its script children" if inst.id in has_children else "")))
                break
        if inst.tid is not None:
            inst.t_exited = exited.get(inst.tid)
            if faults and inst.tid in faults:
                sig, line, info = faults[inst.tid]
                last = [t_ for _, t_ in inst.t_all][-4:]
                marks = "".join(k_ for _, k_, pid_ in inst.dmarks if pid_ == inst.tid)
                problems.append(("crash", "the thread of id %d (tid %d) was killed by %s {%s} (trace line %d)%s; its last observed operations: %s" % (
                    inst.id, inst.tid, sig, info, line,
                    ", in the panic handler entered from the destructor of its unread result" if "X" in marks else "", last or "none")))
    if faults and main in faults and window and window[0]["entry"] <= faults[main][1] and hi >= len(recs):
        if True:
            problems.append(("crash", "the main thread was killed by %s {%s} during this batch (trace line %d)" % (faults[main][0], faults[main][2], faults[main][1])))
    # ---- events of T, CAS placement, K placement; H's wait events
    for inst in insts.values():
        sp = inst.spec
        act = sp["action"]
        joined = act == "join"
        has_handle = inst.tid is not None or (inst.clone_fail and not cfg["checkClone"])
        # H side after the spawn
        h_need_zero = None   # position before which the kernel's clear must have happened
        if has_handle and hasattr(inst, "waits"):
            expect = cfg["joinExpect"] if joined else cfg["dropExpect"]
            if not joined:
                inst.hwon = inst.freeline is None and not inst.waits
            nxt = inst.waits[0]["entry"] if inst.waits else (inst.freeline if inst.freeline is not None else getattr(inst, "rpos", nlines))
            if not joined:
                if inst.hwon:
                    add(inst, inst.jpos + 0.1, "hCas=1")
                    inst.path = "drop:handle-first"
                else:
                    add(inst, nxt - 0.4, "hCas=0")
            if joined or not inst.hwon:
                returned = False
                recheck = bool(cfg.get("recheck"))
                for wi, w in enumerate(inst.waits):
                    last = wi == len(inst.waits) - 1
                    op = (w["args"][1] or 0) & 0x7f
                    if op != 0:
                        problems.append(("model-map", "futex op %d on the join word" % op))
                        continue
                    # a record printed on one line (entry == exit) entered the kernel before that line
                    add(inst, w["entry"] - 0.3, "hLoad=%d" % w["args"][2])
                    if w["exit"] is None:
                        add(inst, w["entry"] - 0.2, "hFwait=1")
                        inst.hung = "parked"
                        returned = True
                        break
                    if w["err"] is None and w["ret"] == 0:
                        add(inst, w["entry"] - 0.2, "hFwait=1")
                        if last:
                            h_need_zero = w["exit"] - 0.1      # parked first, then the kernel's clear + wake, then the return
                            inst.path = ("join:" if joined else "drop:thread-first:") + "parked"
                            returned = True
                            break
                        # the wait returned 0 and the code waited again: a wake that was not the kernel's
                        add(inst, w["exit"], "hSpur")
                        inst.spurious = getattr(inst, "spurious", 0) + 1
                        continue
                    if w["err"] == "EAGAIN":
                        add(inst, w["exit"] - 0.1, "hFwait=0")
                        h_need_zero = w["exit"] - 0.3
                        inst.path = ("join:" if joined else "drop:thread-first:") + "eagain"
                        returned = True
                        break
                    if w["err"] == "EINTR":
                        add(inst, w["entry"] - 0.2, "hFwait=1")
                        add(inst, w["exit"], "hEintr")
                        continue
                    problems.append(("model-map", "futex wait returned %s" % w["err"]))
                if inst.freeline is not None and (recheck or not returned) and inst.hung is None:
                    # the load that ends the wait: `wait_for_exit`'s re-check, or the fast path
                    v = 0 if expect != 0 else 1
                    add(inst, inst.freeline - 0.3, "hLoad=%d" % v)
                    h_need_zero = min(h_need_zero, inst.freeline - 0.35) if h_need_zero is not None else inst.freeline - 0.35
                    if not returned:
                        inst.path = ("join:" if joined else "drop:thread-first:") + "fast"
                if inst.freeline is not None:
                    if joined:
                        add(inst, inst.freeline - 0.2, "hReadSlot")
                    add(inst, inst.freeline, "hFreeTsm")
                elif inst.hung is None and not hasattr(inst, "rpos"):
                    inst.hung = "no-return"
        # T side
        if inst.tid is None:
            continue
        twon = joined or (inst.hwon is False) or (inst.hwon is None)
        if inst.hwon is None and not joined:
            twon = inst.t_settid is None and inst.t_free_tsm is None
        # the destructor of this id's result, entered on the spawned thread itself (classes 13 / 14)
        own = [(p_, k_) for p_, k_, pid_ in inst.dmarks if pid_ == inst.tid]
        inst.t_dmark = own[0] if own else None
        inst.dpanic = bool(own and own[0][1] == "X")
        if inst.t_end is not None:
            add(inst, inst.t_end, "tRet=%d" % inst.edigest)
            add(inst, inst.t_end + 0.1, "tWrite")
            if twon:
                add(inst, inst.t_end + 0.2, "tCas=1")
            else:
                nxt = inst.t_settid if inst.t_settid is not None else (inst.t_free_tsm if inst.t_free_tsm is not None else inst.t_end + 0.2)
                add(inst, nxt - 0.3, "tCas=0")
                if inst.dpanic:
                    # the destructor panicked: #[panic_handler] starts here — tls read, tls freed, the CAS (lost again), ...
                    dpos = inst.t_dmark[0]
                    add(inst, dpos, "tDropPanic")
                    add(inst, dpos + 0.1, "tPanicRead")
                    tl = [p_ for p_, t_ in inst.t_all if t_ == "tFreeTls" and p_ > dpos]
                    if tl:
                        later = [p_ for p_, t_ in inst.t_all if t_ in ("tSetTid", "tFreeTsm") and p_ > tl[0]]
                        add(inst, max((later[0] - 0.3) if later else tl[0] + 0.2, tl[0] + 0.1), "tCas=0")
                elif inst.t_dmark is not None:
                    # observed, returned normally.  Its order against the clear-tid reset is not something the model relies on
                    # (both precede the release of the block): handed over in the model's order
                    dpos = inst.t_dmark[0]
                    if inst.t_settid is not None and dpos < inst.t_settid and (inst.t_free_tsm is None or inst.t_settid < inst.t_free_tsm):
                        dpos = inst.t_settid + 0.05
                    add(inst, dpos, "tDropVal")
                elif inst.t_free_tsm is not None and cfg.get("dropValT"):
                    # a result type whose destructor (if any) the probe cannot see: the model's step, right before the release
                    add(inst, inst.t_free_tsm - 0.05, "tDropVal")
        elif inst.t_panic is not None:
            add(inst, inst.t_panic, "tPanic")
            add(inst, inst.t_panic + 0.1, "tPanicRead")
            if inst.t_free_tls is not None:
                if twon:
                    add(inst, inst.t_free_tls + 0.2, "tCas=1")
                else:
                    nxt = inst.t_settid if inst.t_settid is not None else (inst.t_free_tsm if inst.t_free_tsm is not None else inst.t_free_tls + 0.2)
                    add(inst, max(nxt - 0.3, inst.t_free_tls + 0.1), "tCas=0")
        for pos, tok in inst.t_all:
            add(inst, pos, tok)
        if inst.t_exit is not None:
            kpos = inst.t_exited if inst.t_exited is not None else inst.t_exit + 0.5
            if h_need_zero is not None:
                kpos = min(kpos, h_need_zero) if h_need_zero > inst.t_exit else h_need_zero
            inst.kpos = kpos
            add(inst, kpos, "kExit")
    return insts, problems, stats, heap_live


def model_line(cfg, insts, base):
    evs = []
    for inst in insts.values():
        for pos, seq, tok in inst.ev:
            evs.append((pos, seq, base + inst.id, tok))
    evs.sort()
    # the topology: who executes the handle side of whom (nested scripts); replayed by `stepN`, which lets a handle-side event of i
    # happen only while its owner's thread is inside its closure
    owners = ["%d own=%d" % (base + inst.id, base + inst.spec["parent"]) for inst in insts.values() if inst.spec.get("parent") is not None]
    return "thrn %d %d %d %d %d %d %d 1 %d %d %d %d %d %d : %s" % (
        cfg["checkClone"], cfg["mmapCleanup"], cfg["initWord"], cfg["joinExpect"], cfg["dropExpect"], cfg["setTidRet"], cfg["setTidPanic"],
        1, cfg["dropValH"], cfg["dropValT"], cfg["recheck"], cfg.get("hTidDrop", 0), cfg.get("hTidDealloc", 0),
        " ; ".join(owners + ["%d %s" % (i, t) for _, _, i, t in evs])), len(evs)


def expected_digest(cls, token, edigest):
    """the digest of the value `T::make(token)` the closure returns (the probe's `Val` impls, restated)"""
    if cls == 0:
        return 0
    if cls == 1:
        return token & 0xff
    if cls in (2, 4, 5) + BOMBS:
        return token
    k = token >> 1
    if cls in (6, 12):
        return k & 1                                   # bool / Flagged(bool)
    if cls == 7:
        return k % 0xD800                              # char (scalar values below the surrogates), '\0' included
    if cls in (8, 9):
        return k % 3                                   # Ordering: Less/Equal/Greater -> 0/1/2; Colour: Red/Green/Blue -> 0/1/2
    if cls == 10:
        return 0 if k % 3 == 0 else 1 + ((token >> 8) & 0xffffffff)      # None -> 0, Some(v) -> 1 + v
    if cls == 11:
        return ((k & 1) << 8) | ((token >> 8) & 0xff)   # Ok(v) -> 0x100 | v, Err(v) -> v
    return edigest     # [u8;4096]: the closure's own digest of what it built


def judge_batch(bno, specs, insts, problems, stats, heap_before, heap_live, tb, classes, fault, timed_out):
    """the property, evaluated on what the implementation did. -> list of (kind, why)"""
    bad = list(problems)
    if tb is None:
        # the process did not survive the batch (killed by the watchdog or by a signal): what was seen until then still counts
        for sp in specs:
            inst = insts[sp["id"]]
            if inst.hung:
                bad.append(("hang", "%s of id %d did not return within the watchdog (%s); thread created: %s; closure: %s" % (
                    sp["action"], sp["id"], inst.hung, inst.tid is not None,
                    ("panics " + SITES[sp.get("site", "")]) if sp["panic"] else "returns")))
            elif timed_out and inst.tid is not None and inst.t_exit is None and (inst.t_end is not None or inst.t_panic is not None):
                bad.append(("thread-leak", "the thread of id %d (closure %s) had not exited when the watchdog ended the run" % (
                    sp["id"], ("panics " + SITES[sp.get("site", "")]) if sp["panic"] else "returns")))
        return bad + [("probe", "no text record for batch %d" % bno)]
    leaked_expect = []
    for sp in specs:
        inst = insts[sp["id"]]
        iid = sp["id"]
        st = tb["spawn"].get(iid)
        par = sp.get("parent")
        if par is not None and par in insts and insts[par].tid is None:
            if st is not None or inst.tsm is not None:
                bad.append(("runs-once", "id %d was spawned although its script parent %d was never created" % (iid, par)))
            continue                                   # the thread that would have spawned it does not exist (its own spawn failed)
        failed_call = inst.mmap_fail or inst.clone_fail
        if inst.hung:
            bad.append(("hang", "%s of id %d did not return within the watchdog (%s); thread created: %s; closure: %s" % (
                sp["action"], iid, inst.hung, inst.tid is not None, ("panics " + SITES[sp.get("site", "")]) if sp["panic"] else "returns")))
            continue
        if st is None:
            if not timed_out:
                bad.append(("probe", "no spawn record for id %d" % iid))
            continue
        if failed_call:
            if st[0] != "err":
                bad.append(("spawn-failure-not-error", "id %d: %s failed but spawn returned Ok(handle)" % (iid, "mmap" if inst.mmap_fail else "clone")))
            if inst.nbegin:
                bad.append(("runs-once", "id %d: closure ran although the thread could not be created" % iid))
            continue
        if st[0] != "ok":
            bad.append(("spawn", "id %d: spawn returned Err(%d) although mmap and clone succeeded" % (iid, st[1])))
            continue
        runs = tb["runs"].get(iid)
        if tb["ended"]:
            if runs is None or runs["count"] != 1 or inst.nbegin != 1:
                bad.append(("runs-once", "id %d: closure side effect seen %s times (marker %d times)" % (iid, runs and runs["count"], inst.nbegin)))
        if sp["action"] == "join":
            j = tb["join"].get(iid)
            if j is None:
                if tb["ended"]:
                    bad.append(("join", "id %d: no join record" % iid))
            else:
                token = runs["token"] if runs else None
                if sp["panic"]:
                    if j["val"] is not None:
                        bad.append(("join-value", "id %d panicked but join returned Some(%d)" % (iid, j["val"])))
                else:
                    want = expected_digest(sp["class"], token, inst.edigest) if token is not None else inst.edigest
                    if j["val"] is None:
                        bad.append(("join-value", "id %d returned a value but join returned None" % iid))
                    elif j["val"] != want or (inst.edigest is not None and j["val"] != inst.edigest):
                        bad.append(("join-value", "id %d: join returned %d, closure returned %s" % (iid, j["val"], want)))
                if j["effect"] != 1:
                    bad.append(("join-visibility", "id %d: the closure's memory write was not visible after join" % iid))
                # join returned only after the thread's exit
                if inst.t_exit is not None and hasattr(inst, "rpos") and inst.rpos < inst.t_exit:
                    bad.append(("join-early", "id %d: join returned (line %d) before the thread issued exit (line %d)" % (iid, inst.rpos, inst.t_exit)))
        # resources (C06)
        if tb["ended"]:
            if inst.stack:
                if inst.t_munmap is None:
                    bad.append(("stack-leak", "id %d: stack %#x never unmapped by its thread" % (iid, inst.stack[0])))
                if inst.clone_args and not (inst.stack[0] <= inst.clone_args[1] <= inst.stack[0] + inst.stack[1]):
                    bad.append(("stack", "id %d: clone's child stack outside the mapping" % iid))
            if inst.t_free_tsm is not None and (inst.t_settid is None or inst.t_settid > inst.t_free_tsm):
                bad.append(("tid-not-reset", "id %d: thread freed the shared block without resetting its clear-tid address first" % iid))
            # the handle side (join or a drop that lost the CAS) frees the block only after the thread has issued its exit:
            # until then the kernel still owes the block its clear-tid write
            fl = getattr(inst, "freeline", None)
            if fl is not None and inst.tid is not None and (inst.t_exit is None or fl < inst.t_exit):
                bad.append(("free-before-exit", "id %d: %s freed the shared block (line %d) %s" % (
                    iid, sp["action"], fl, "before the thread issued exit (line %d)" % inst.t_exit if inst.t_exit is not None else "of a thread that never issued exit")))
            if (sp["panic"] or getattr(inst, "dpanic", False)) and inst.box:
                leaked_expect.append(inst.box[0])      # a thread that panicked (closure, or destructor of its unread result) never drops its closure
            if sp["class"] in BOMBS and inst.tid is not None and not any(k == "hang" for k, _ in bad):
                # the returned value's destructor: exactly one run (none for a panicked closure, none for a joined class-13 value,
                # which the probe forgets), and on the side that releases the shared block
                nd = len(inst.dmarks)
                want = 0 if (sp["panic"] or (sp["class"] == 13 and sp["action"] == "join")) else 1
                if nd != want:
                    bad.append(("value-drop", "id %d (class %d, %s, %s): the destructor of the returned value ran %d times, expected %d" % (
                        iid, sp["class"], "panic" if sp["panic"] else "ret", sp["action"], nd, want)))
                elif nd == 1 and sp["action"] != "join" and inst.hwon is not None:
                    on_thread = inst.dmarks[0][2] == inst.tid
                    if on_thread != bool(inst.hwon):
                        bad.append(("value-drop", "id %d: handle %s the flag but the unread result was dropped by %s" % (
                            iid, "won" if inst.hwon else "lost", "the thread" if on_thread else "the handle side")))
                if sp["class"] == 13 and sp["action"] == "join" and not sp["panic"] and inst.forgot != 1 and tb["join"].get(iid, {}).get("val") is not None:
                    bad.append(("probe", "id %d: joined class-13 value not forgotten exactly once (%d)" % (iid, inst.forgot)))
        ca = getattr(inst, "clone_args", None)
        if inst.tsm and ca and len(ca) > 3 and inst.tid is not None:
            off = ca[3] - inst.tsm[0]
            if not (0 <= off and off + 4 <= inst.tsm[1]) or ca[3] % 4:
                bad.append(("layout", "id %d: the clear-tid address %#x the thread was cloned with is not an aligned word inside its shared block %#x+%d" % (
                    iid, ca[3], inst.tsm[0], inst.tsm[1])))
            elif off != 4:
                bad.append(("layout-model", "id %d: the exit futex word is at offset %d of the shared block, the model's layout arithmetic puts it at 4" % (iid, off)))
        if inst.tsm and sp["class"] in classes:
            want = layout(*classes[sp["class"]])
            if (inst.tsm[1], inst.tsm[2]) != want[:2]:
                vs, va = classes[sp["class"]]
                size, al = inst.tsm[1], inst.tsm[2]
                # what any sound layout needs, whatever the order of its members: room for the flag, the futex word and the value,
                # aligned for the futex word and for the value
                if al < max(4, va) or al & (al - 1) or size < 1 + 4 + vs:
                    bad.append(("layout", "id %d class %d: block allocated as (size %d, align %d) cannot hold flag + futex word + a value of size %d align %d" % (
                        iid, sp["class"], size, al, vs, va)))
                else:
                    # a different, possibly sound, layout: the model's arithmetic no longer describes the code (not a failing input)
                    bad.append(("layout-model", "id %d class %d: block allocated as %s, the model's layout arithmetic gives %s" % (iid, sp["class"], inst.tsm[1:3], want[:2])))
    if tb["ended"] and tb.get("drops") and tb["drops"][0] != tb["drops"][1] and not any(k == "hang" for k, _ in bad):
        made, dropped = tb["drops"]
        bad.append(("value-drop", "%d values with a destructor were returned by closures of this batch, their destructor ran %d times (a value nobody made was "
                    "dropped, or a returned value never was); panicked threads of that class: %s" % (
                        made, dropped, [sp["id"] for sp in specs if sp["class"] == 12 and sp["panic"]])))
    if tb["ended"] and tb.get("bombs") and not any(k == "hang" for k, _ in bad):
        made, ran, forgot, refused = tb["bombs"]
        if made != ran + forgot:
            bad.append(("value-drop", "%d values with a panicking destructor were returned in this batch, the destructor was entered %d times (%d joined values "
                        "forgotten by the probe)" % (made, ran, forgot)))
        if refused:
            bad.append(("double-free", "the allocator wrapper refused %d release(s) of a block that was already released (still in its quarantine)" % refused))
    if tb["ended"] and not any(k == "hang" for k, _ in bad):
        new_live = sorted(p for p in heap_live if p not in heap_before)
        gone = sorted(p for p in heap_before if p not in heap_live)
        if sorted(new_live) != sorted(leaked_expect) or gone:
            bad.append(("heap-baseline", "blocks live after the batch beyond the baseline: %s; expected only the closures of panicked threads (closure panic, or panic of the destructor of the unread result on the thread) %s; baseline blocks freed: %s" % (
                [hex(p) for p in new_live], [hex(p) for p in leaked_expect], [hex(p) for p in gone])))
        b, a = tb["before"], tb["after"]
        if b and a:
            if a["threads"] != 1:
                bad.append(("thread-leak", "%d threads still alive 10 s after the batch" % a["threads"]))
            if a["blocks"] - b["blocks"] != len(leaked_expect):
                bad.append(("heap-baseline", "live heap blocks %d -> %d, %d closures of panicked threads" % (b["blocks"], a["blocks"], len(leaked_expect))))
            quiet = stats["alloc_mmap"] == 0 and stats["alloc_munmap"] == 0 and stats["other_vm"] == 0
            if quiet and a["threads"] == 1 and (a["vm"] != b["vm"] or a["maps"] != b["maps"] or a["maphash"] != b["maphash"]):
                # which ranges: the probe's range-by-range comparison of /proc/self/maps after the batch with the snapshot before it
                what = []
                for sign, lo_, hi_, perms in tb.get("mapdiff", [])[:12]:
                    rel = ""
                    for i_ in insts.values():
                        if i_.stack and sign == "+":
                            if hi_ == i_.stack[0]:
                                rel = " — directly below the stack of id %d [%#x, %#x) that its thread unmapped at exit (flags %#x%s): the part by which the kernel " \
                                      "extended that mapping (the thread could touch %s pages below it), never released" % (
                                          i_.id, i_.stack[0], i_.stack[0] + i_.stack[1], getattr(i_, "stack_flags", 0) or 0,
                                          "" if fixed_extent(getattr(i_, "stack_flags", None)) else ": " + flag_names(getattr(i_, "stack_flags", 0) or 0),
                                          getattr(i_, "grew", "?"))
                            elif lo_ < i_.stack[0] + i_.stack[1] and hi_ > i_.stack[0]:
                                rel = " — inside the stack mapping of id %d [%#x, %#x)" % (i_.id, i_.stack[0], i_.stack[0] + i_.stack[1])
                    what.append("%s [%#x, %#x) %d KiB perms=%s%s" % ("left behind" if sign == "+" else "gone", lo_, hi_, (hi_ - lo_) >> 10,
                                                                  "".join(c if perms >> k & 1 else "-" for k, c in enumerate("rwxp")), rel))
                bad.append(("vm-baseline", "address space not back at baseline: VmSize %d -> %d pages, mappings %d -> %d; %s" % (
                    b["vm"], a["vm"], b["maps"], a["maps"], "; ".join(what) or "(no range-level difference recorded)")))
    return bad


# ------------------------------------------------------------------ scenarios

DELAYS = [0, 0, 20, 100, 300, 1000, 3000]


def gen_batch(r, nmax):
    k = r.below(10)
    n = 1 if k == 0 else r.range(2, 4) if k < 5 else r.range(5, 12) if k < 8 else r.range(13, nmax)
    ids = r.shuffle(list(range(64)))[:n]
    specs = []
    style = r.below(5)
    for iid in ids:
        d = r.choice(DELAYS)
        act = r.choice(["join", "join", "join", "drop", "drop", "dropnow"])
        d2 = r.choice(DELAYS)
        if style == 0:          # handle action races the closure's end
            d2 = d if act != "dropnow" else 0
        elif style == 1:        # thread long gone
            d, d2 = 0, r.choice([1000, 3000])
        elif style == 2:        # thread still running
            d, d2 = r.choice([1000, 3000]), 0
        # half of the threads return one of the niche classes; panics are as frequent there as anywhere
        cls = r.below(6) if r.chance(1, 2) else r.range(6, NCLASS - 1)
        pan = r.chance(1, 4) if cls < 6 else r.chance(1, 2)
        specs.append({"id": iid, "panic": pan, "d": d, "class": cls, "action": act, "d2": d2,
                      "site": (r.choice(["", "", "", "m", "e", "o", "d"]) if pan else "")})
    return specs


def script_of(batches):
    out = []
    for specs in batches:
        for sp in specs:
            verb = ("panic_" + sp["site"] if sp.get("site") else "panic") if sp["panic"] else "ret"
            if sp.get("deep"):
                verb = "deep_panic" if sp["panic"] else "deep"
            head = "t" if sp.get("parent") is None else "c %d" % sp["parent"]
            out.append("%s %d %s %d %d %s %d" % (head, sp["id"], verb, sp["d"], sp["class"], sp["action"], sp["d2"]))
        out.append("go")
    return "\n".join(out) + "\n"


def watchdog_of(batches):
    tot = 0.0
    for specs in batches:
        tot += sum(sp["d"] + sp["d2"] for sp in specs) / 1e6 + 0.05 * len(specs) + 0.2
    return 5.0 + 3.0 * tot


def process_run(run, batches, cfg, base0=0):
    """-> list of per-batch results {bno, specs, insts, judge(list), line, nev}"""
    recs, exited = parse_trace(run["trace"])
    textb, classes = parse_out(run["out"])
    if not recs:
        return [], classes, "no trace"
    main = recs[0]["pid"]
    faults = fatal_signals(run["trace"])
    marks = {}
    for i, r in enumerate(recs):
        if r["pid"] == main and is_marker(r):
            k = chr(r["args"][1] & 0xff)
            if k in "be":
                marks.setdefault(r["args"][2], {})[k] = i
    results = []
    heap_before = {}
    for bno, specs in enumerate(batches):
        m = marks.get(bno)
        if not m or "b" not in m:
            results.append({"bno": bno, "specs": specs, "missing": True})
            continue
        lo, hi = m["b"], m.get("e", len(recs))
        insts, problems, stats, heap_live = analyze_batch(recs, exited, lo, hi, main, specs, cfg, classes, textb.get(bno),
                                                          len(run["trace"]), heap_before, faults)
        tb = textb.get(bno)
        jd = judge_batch(bno, specs, insts, problems, stats, heap_before, heap_live, tb, classes, None, run["timed_out"])
        line, nev = model_line(cfg, insts, 0)
        results.append({"bno": bno, "specs": specs, "insts": insts, "judge": jd, "line": line, "nev": nev, "stats": stats, "tb": tb})
        heap_before = heap_live
    return results, classes, None


def cfg_of(table):
    d = table["derived"]       # after thread_extract.emit: open parameters resolved from the running code (None -> false / no such value)
    return {"checkClone": int(bool(d["checkClone"])), "mmapCleanup": int(bool(d["mmapCleanup"])),
            "initWord": d["initWord"] if d["initWord"] is not None else 4294967295,
            "joinExpect": d["joinExpect"] if d["joinExpect"] is not None else 4294967295,
            "dropExpect": d["dropExpect"] if d["dropExpect"] is not None else 4294967295,
            "setTidRet": int(bool(d["setTidRet"])), "setTidPanic": int(bool(d["setTidPanic"])),
            "dropValH": int(bool(d["dropValH"])), "dropValT": int(bool(d["dropValT"])), "recheck": int(bool(d["recheck"])),
            # topology parameters (Model/Thread Part 3, Props/C05 `genTopo`): does handle-side code — which runs on the thread that
            # owns the handle, possibly a spawned one — issue set_tid_address(0)?  Read off the same paths, the same way.
            "hTidDrop": int(any("set_tid_0" in p for p in table["paths"].get("drop", []) if "cas_lost" in p)),
            "hTidDealloc": int(any("set_tid_0" in p for p in table["paths"].get("join", [])) or
                               any("set_tid_0" in p for p in table["paths"].get("spawn", []) if "ret_err" in p))}


def model_verdicts(ctx, items):
    """items: list of result dicts with 'line'. Adds 'model' to each."""
    lines = [it["line"] for it in items]
    if not lines:
        return True
    rc, out, err = C.run_filter([C.driver_path("drv_c05")], lines, timeout=1200)
    if len(out) != len(lines):
        ctx.violation({"kind": "driver-failed"}, {"rc": rc, "stderr": err[-400:]}, no_input=True)
        return False
    for it, o in zip(items, out):
        it["model"] = o
    return True


def check_model(it):
    """-> None if the model accepted the history, ended clean and predicted every join; else reason"""
    m = it.get("model", "")
    if not m.startswith("accept"):
        return "model does not accept the observed history: " + m
    f = dict(x.split("=", 1) for x in m.split()[1:] if "=" in x)
    ndp = sum(1 for sp in it["specs"] if getattr(it["insts"][sp["id"]], "dpanic", False))
    npanic = sum(1 for sp in it["specs"] if sp["panic"] and it["insts"][sp["id"]].tid is not None) + ndp
    if f.get("bad") != "false":
        return "model: a touch of a released resource on this history (" + m + ")"
    if f.get("raced") != "false":
        return "model: slot read / free not ordered after the thread's writes (" + m + ")"
    if f.get("complete") != "true":
        return "model: not every instance complete at the end of the batch (" + m + ")"
    if f.get("maps") != "0" or f.get("heap") != str(npanic) or f.get("leaked") != str(npanic):
        return "model ledger not at baseline + panicked closures (" + m + ")"
    if f.get("dpanics", "0") != str(ndp):
        return "model: %s destructor panics, observed %d (%s)" % (f.get("dpanics"), ndp, m)
    pred = {}
    if f.get("joins"):
        for x in f["joins"].split(","):
            i, v = x.split(":")
            pred[int(i)] = None if v == "none" else int(v.split()[-1]) if " " in v else None
    # joins field is "i:some v" — re-split accounting for the space
    pred = {}
    mm = re.search(r"joins=(.*?) complete=", m)
    if mm and mm.group(1):
        for x in mm.group(1).split(","):
            i, v = x.split(":")
            pred[int(i)] = None if v == "none" else int(v.replace("some", "").strip())
    for sp in it["specs"]:
        inst = it["insts"][sp["id"]]
        if sp["action"] == "join" and inst.tid is not None:
            if sp["id"] not in pred:
                return "model predicts no join result for id %d" % sp["id"]
            if inst.rval != "unset" and pred[sp["id"]] != inst.rval:
                return "model predicts join(%d) = %s, implementation returned %s" % (sp["id"], pred[sp["id"]], inst.rval)
    return None


def sig_of(kind):
    return {"kind": kind}


def trace_excerpt(it):
    """for a history the model rejects: the strace lines of the instance concerned"""
    m = re.search(r"inst=(\d+)", it.get("model", ""))
    if not m or "trace" not in it or int(m.group(1)) not in it.get("insts", {}):
        return None
    inst = it["insts"][int(m.group(1))]
    keys = [hex(inst.tsm[0]), hex(inst.tsm[0] + 4)] if inst.tsm else []
    out = []
    for i, l in enumerate(it["trace"]):
        if any(k in l for k in keys) or (inst.tid is not None and l.split()[:1] == [str(inst.tid)] and ("exit" in l or "munmap" in l or "set_tid" in l)):
            out.append("%d: %s" % (i, l))
    return {"events": sorted(inst.ev), "lines": out[-80:]}


def replay_of(it, script, exe, inject=None):
    return {"trace_excerpt": trace_excerpt(it) if it.get("model", "").startswith("reject") else None,"batch": it["bno"], "specs": it["specs"], "script": script, "inject": inject,
            "how_to_replay": "printf %r | strace -f -e raw=all -e trace=%s %s%s" % (script, TRACE, ("-e inject=%s " % inject) if inject else "", exe),
            "judge": it.get("judge"), "model": it.get("model"), "model_input": it.get("line", "")[:6000]}


def destructor_sweep(r, rounds):
    """batches around a result whose destructor panics (classes 13 / 14): every order of {joined, handle dropped before the closure
    returns, while it finishes, after the thread is gone} (class 13: joined / dropped before — anything else would run the
    destructor on the main thread and end the probe), alone and among other threads, so that the panic handler is entered from
    the middle of the thread's epilogue many times per run whatever the random stream does"""
    out = []
    for k in range(rounds):
        ids = r.shuffle(list(range(64)))
        one = [(13, "join", 0, 0), (13, "join", 1000, 0), (13, "dropnow", 0, 0), (13, "drop", 0, r.choice([0, 300, 3000])),
               (14, "join", 0, 1000), (14, "join", 1000, 0), (14, "dropnow", 3000, 0), (14, "dropnow", 1000, 0), (14, "dropnow", 0, 0),
               (14, "drop", 0, 3000), (14, "drop", 1000, 0), (14, "drop", 300, 300), (14, "drop", r.choice(DELAYS), r.choice(DELAYS))]
        # alone
        for cls, act, d, d2 in one:
            out.append([{"id": ids[0], "panic": False, "d": d, "class": cls, "action": act, "d2": d2}])
        # all of them live together, with ordinary threads (returning and panicking) in between
        mixed = []
        for j, (cls, act, d, d2) in enumerate(r.shuffle(one)):
            mixed.append({"id": ids[1 + 2 * j], "panic": False, "d": d, "class": cls, "action": act, "d2": d2})
            mixed.append({"id": ids[2 + 2 * j], "panic": r.chance(1, 3), "d": r.choice(DELAYS), "class": r.choice([0, 2, 3, 5, 12, 13, 14]),
                          "action": r.choice(["join", "drop", "dropnow"]), "d2": r.choice(DELAYS)})
        out.append(mixed)
        # many destructor panics at once: the handlers' releases interleave
        out.append([{"id": i, "panic": False, "d": r.choice([300, 1000, 3000]), "class": r.choice(BOMBS), "action": "dropnow", "d2": 0}
                    for i in ids[:r.range(8, 24)]])
    return out


def panic_site_sweep(r, rounds):
    """scripts (one probe process each) in which a closure panics while its thread holds one of the library's own locks: inside an
    eprintln! / println! / dbg! argument, or holding its own Mutex / RwLock guards — joined, dropped at once, dropped later, alone and
    followed (same process) by ordinary returning and panicking threads, whose panic handler / join must not be affected either"""
    jobs = []
    for k in range(rounds):
        for site in ("e", "o", "d", "m"):
            for act, d, d2 in (("join", 0, 0), ("join", 1000, 0), ("dropnow", 300, 0), ("drop", 0, 1000)):
                ids = r.shuffle(list(range(64)))
                first = [{"id": ids[0], "panic": True, "site": site, "d": d, "class": r.choice([0, 2, 3, 5, 12, 14]), "action": act, "d2": d2}]
                if r.chance(1, 2):
                    first.append({"id": ids[1], "panic": False, "site": "", "d": r.choice(DELAYS), "class": r.choice([0, 2, 5]), "action": "join", "d2": 0})
                # afterwards, in the same process: a plain panic and a return, joined (the dead thread may still own a print lock)
                second = [{"id": ids[2], "panic": True, "site": r.choice(["", "m"]), "d": 0, "class": 2, "action": "join", "d2": 300},
                          {"id": ids[3], "panic": False, "site": "", "d": 0, "class": r.choice([2, 14]), "action": r.choice(["join", "dropnow"]), "d2": 0}]
                jobs.append(one_per_print_lock([first, second]))
    return jobs


def deep_sweep(r, rounds):
    """the kernel-side EXTENT of the stack mapping against the extent the code records: one thread per batch (nothing else may map memory
    meanwhile) that reaches a little below its stack mapping before it returns / panics — joined, dropped at once, dropped later.
    Where the mapping cannot grow every touch is refused (EFAULT) and nothing changes; where it can, what grew must be gone afterwards."""
    out = []
    for _ in range(rounds):
        for pan in (False, True):
            for act, d, d2 in (("join", 0, 0), ("dropnow", 300, 0), ("drop", 0, 3000)):
                out.append([{"id": r.below(64), "panic": pan, "deep": True, "site": "", "d": d, "class": r.choice([0, 2, 3, 5]), "action": act, "d2": d2}])
    return out


NESTED_CLASSES = [0, 1, 2, 3, 4, 5, 6, 10, 12]     # a child's value may be dropped by its parent, a spawned thread: no panicking destructors there


def gen_nested_batch(r, small=False):
    """thread TOPOLOGY: threads that are themselves the handle side of other threads.  1..3 spawners started by main, each spawning
    1..4 children inside its closure and joining / dropping-at-once / dropping-later each of them (so that the drop meets a running, an
    exiting or a long gone child), then returning or panicking, and being joined or dropped by main in turn; some children spawn a
    third level; ordinary threads of main in between.  `small`: few threads, no big results (fault runs: no allocator growth)."""
    ids = r.shuffle(list(range(64)))
    k = [0]

    def nid():
        k[0] += 1
        return ids[k[0] - 1]

    def leaf(parent, depth):
        pan = r.chance(1, 4)
        style = r.below(4)
        d, d2 = r.choice(DELAYS), r.choice(DELAYS)
        act = r.choice(["join", "join", "drop", "drop", "dropnow"])
        if style == 0:
            d, d2 = 0, r.choice([300, 1000, 3000])        # long gone when the parent gets to it
        elif style == 1:
            d, d2 = r.choice([1000, 3000]), 0              # still running
        elif style == 2:
            d2 = d                                          # the parent's join / drop races the child's end
        cls = r.choice([0, 1, 2, 4, 12] if small else NESTED_CLASSES)
        return {"id": nid(), "panic": pan, "site": (r.choice(["", "", "m"]) if pan else ""), "d": d, "class": cls, "action": act, "d2": d2,
                "parent": parent, "depth": depth}
    specs = []
    for _ in range(1 if small else r.range(1, 3)):
        pan = r.chance(1, 3)
        top = {"id": nid(), "panic": pan, "site": (r.choice(["", "m"]) if pan else ""), "d": r.choice([0, 0, 100, 1000]),
               "class": r.choice([0, 2, 4, 12] if small else [0, 2, 3, 5, 12, 13, 14]), "action": r.choice(["join", "join", "drop", "dropnow"]),
               "d2": r.choice(DELAYS + [6000]), "parent": None, "depth": 0}
        specs.append(top)
        for _ in range(r.range(2, 3) if small else r.range(1, 4)):
            c = leaf(top["id"], 1)
            specs.append(c)
            if r.chance(1, 4):
                for _ in range(r.range(1, 2)):
                    specs.append(leaf(c["id"], 2))
        if not small and r.chance(1, 2):
            specs.append({"id": nid(), "panic": r.chance(1, 4), "site": "", "d": r.choice(DELAYS), "class": r.below(13), "action": r.choice(["join", "drop", "dropnow"]),
                          "d2": r.choice(DELAYS), "parent": None, "depth": 0})
    # script order = spawn order of each owner: parents first, then level by level
    specs.sort(key=lambda sp: sp["depth"])
    return specs


def nested_sweep(r, rounds):
    """fixed two-level shapes, one per way a spawned thread can be the handle side of a finished / running child — joins it, drops its
    handle after it finished (the handle loses the hand-over), drops it at once (wins), spawns and forgets nothing — followed by main
    joining or dropping the spawner before / after it finished"""
    out = []
    for _ in range(rounds):
        for cact, cd, cd2 in (("join", 0, 0), ("join", 1000, 0), ("drop", 0, 1000), ("drop", 0, 3000), ("drop", 1000, 0), ("dropnow", 1000, 0), ("dropnow", 0, 0)):
            for pact, pd2 in (("join", 0), ("join", 6000), ("drop", 8000), ("dropnow", 0)):
                ids = r.shuffle(list(range(64)))
                ppan = r.chance(1, 4)
                out.append([{"id": ids[0], "panic": ppan, "site": "", "d": 0, "class": r.choice([0, 2, 5, 12]), "action": pact, "d2": pd2, "parent": None},
                            {"id": ids[1], "panic": r.chance(1, 4), "site": "", "d": cd, "class": r.choice([0, 2, 3, 5, 12]), "action": cact, "d2": cd2, "parent": ids[0]},
                            {"id": ids[2], "panic": False, "site": "", "d": r.choice([0, 300]), "class": 2, "action": r.choice(["join", "drop"]), "d2": 300, "parent": ids[0]}])
    return out


def run_scenarios(ctx, exe, cfg, nproc, batches_per_proc, nmax, label, jobs=None):
    """runs nproc probe processes of batches_per_proc batches each; returns list of (result item, script)"""
    r = ctx.rng
    if jobs is None:
        jobs = []
        for _ in range(nproc):
            bs = one_per_print_lock([gen_batch(r, nmax) for _ in range(batches_per_proc)])
            jobs.append(bs)

    def work(bs):
        script = script_of(bs)
        run = run_probe(exe, script, timeout=watchdog_of(bs))
        res, classes, err = process_run(run, bs, cfg)
        return bs, script, run, res, classes, err
    items = []
    with cf.ThreadPoolExecutor(12) as ex:
        for bs, script, run, res, classes, err in ex.map(work, jobs):
            for it in res:
                it["script"], it["timed_out"], it["label"] = script, run["timed_out"], label
                it["trace"] = run["trace"]
                items.append(it)
            if err:
                ctx.violation({"kind": "probe-died"}, {"script": script, "status": run["status"], "stderr": run["stderr"]})
    return items


def account(ctx, items, exe, pid_kinds=None, inject=None):
    """judge + model verdicts of a list of items -> violations; fills histograms"""
    live = [it for it in items if not it.get("missing")]
    model_verdicts(ctx, live)
    nbad = 0
    for it in items:
        ctx.evaluations += 1
        if it.get("missing"):
            if not it.get("timed_out"):
                ctx.violation(sig_of("probe-died"), {"script": it["script"], "batch": it["bno"]})
            continue
        for sp in it["specs"]:
            inst = it["insts"][sp["id"]]
            if inst.path:
                ctx.hist("wait_paths", inst.path)
            if getattr(inst, "undo_order", None):
                ctx.hist("spawn_error_release_order_observed", ">".join(t[5:] for t in inst.undo_order))
            if sp["action"] != "join" and inst.hwon is not None and inst.tid is not None:
                ctx.hist("flag_cas_winner", "handle" if inst.hwon else "thread")
            depth, q = 0, sp
            while q.get("parent") is not None and depth < 8:
                depth, q = depth + 1, it["insts"][q["parent"]].spec
            nkids = sum(1 for x in it["specs"] if x.get("parent") == sp["id"])
            ctx.count((sp["panic"], sp.get("site", ""), sp["class"], sp["action"], inst.path, inst.mmap_fail, inst.clone_fail, getattr(inst, "dpanic", False),
                       depth, min(nkids, 2)))
            if inst.tid is not None or inst.mmap_fail or inst.clone_fail:
                ctx.hist("topology", "depth %d, %s" % (depth, "spawns threads itself" if nkids else "leaf"))
                if depth:
                    ctx.hist("handle_side_on_a_spawned_thread", "%s%s" % (inst.path or ("spawn failed" if (inst.mmap_fail or inst.clone_fail) else sp["action"]),
                                                                          "" if not sp["panic"] else ", child panicked"))
            if sp["panic"] and inst.tid is not None:
                ctx.hist("panic_sites", "%s, %s" % (SITES[sp.get("site", "")].split(" (")[0], "joined" if sp["action"] == "join" else "dropped"))
            if sp["class"] in BOMBS and inst.tid is not None and not sp["panic"]:
                where = "forgotten by the probe" if inst.forgot else ("none" if not inst.dmarks else
                        ("thread" if inst.dmarks[0][2] == inst.tid else "handle side") + (":panics" if inst.dmarks[0][1] == "X" else ":returns"))
                ctx.hist("panicking_destructor_runs", "class%d %s -> %s" % (sp["class"], sp["action"], where))
        ctx.hist("threads_per_batch", min(64, 1 << (len(it["specs"]) - 1).bit_length()))
        kinds = sorted({k for k, _ in it["judge"]})
        # `model-map`: the observation could not be mapped onto the model's events (an allocation / futex operation the mapping
        # does not know); `layout-model`: the shared block has another (not unsound) size than the model computes.
        # Both are a broken correspondence, not a failing input: reported as such, below.
        mmk = sorted({k for k, _ in it["judge"] if k in ("model-map", "layout-model", "mapping-flags")})
        mm = [w for k, w in it["judge"] if k in ("model-map", "layout-model", "mapping-flags")]
        kinds = [k for k in kinds if k not in ("model-map", "layout-model", "mapping-flags")]
        if pid_kinds is not None:
            kinds_rel = [k for k in kinds if k in pid_kinds or k in ("probe", "heap")]
        else:
            kinds_rel = kinds
        # the most specific finding first: "probe" (a missing record: the process did not survive the batch) says least
        kinds_rel.sort(key=lambda k: (k in ("probe", "heap"), k))
        if kinds_rel:
            nbad += 1
            ctx.violation(sig_of(kinds_rel[0]), replay_of(it, it["script"], exe, inject))
            continue
        if mm and not kinds:
            nbad += 1
            ctx.violation({"kind": mmk[0]}, dict(replay_of(it, it["script"], exe, inject), why=mm[:4],
                          note="every oracle is satisfied on this run; the observed operations could not be mapped onto the model's events"), no_input=True)
            continue
        why = check_model(it)
        if why and not kinds:
            nbad += 1
            ctx.violation({"kind": "model-disagreement"}, dict(replay_of(it, it["script"], exe, inject), why=why,
                          note="the implementation's behaviour satisfies the Python oracle on this history; the model does not describe it"),
                          no_input=True)
    return nbad


C05_KINDS = {"clear-tid-wiped", "crash", "hang", "spawn-failure-not-error", "runs-once", "spawn", "join", "join-value", "join-visibility", "join-early", "layout", "value-drop"}
C06_KINDS = {"clear-tid-wiped", "crash", "double-free", "use-after-free", "stack-use-after-unmap", "stack", "stack-leak", "tid-not-reset", "heap-baseline", "thread-leak", "vm-baseline",
             "free-before-exit", "value-drop"}


def fault_positions(exe, script):
    """dry run: 1-based indices (per main thread) of the stack mmaps and of the clones"""
    run = run_probe(exe, script, timeout=20)
    recs, _ = parse_trace(run["trace"])
    if not recs:
        return [], []
    main = recs[0]["pid"]
    mm, cl, nm, nc = [], [], 0, 0
    for r in recs:
        if r["pid"] != main:
            continue
        if r["name"] == "mmap":
            nm += 1
            if len(r["args"]) > 1 and r["args"][1] == STACK_LEN:
                mm.append(nm)
        elif r["name"] == "clone":
            nc += 1
            cl.append(nc)
    return mm, cl


def run_faults(ctx, exe, cfg, nscripts, nthreads):
    r = ctx.rng
    items = []
    jobs = []
    for _ in range(nscripts):
        specs = one_per_print_lock([gen_batch(r, nthreads)])[0]
        for sp in specs:
            if sp["class"] == 5:
                sp["class"] = 2       # keep the spawned threads from allocating: the mmap numbering stays that of the dry run
        script = script_of([specs])
        mm, cl = fault_positions(exe, script)
        for k in mm:
            jobs.append((specs, script, "mmap:error=ENOMEM:when=%d" % k))
        for k in cl:
            jobs.append((specs, script, "clone:error=EAGAIN:when=%d" % k))

    # faults on the spawns a SPAWNED thread makes: strace counts per thread, and main (2 start-up mmaps + 1 stack, 1 clone) has no 4th
    # mmap / 2nd clone, so `when=k` for larger k hits only the k-th spawn of the spawner (its mmaps are its children's stacks: no big
    # results, the allocator does not grow)
    for _ in range(max(2, nscripts // 2)):
        specs = [sp for sp in gen_nested_batch(r, small=True)]
        top = specs[0]
        have = sum(1 for sp in specs if sp.get("parent") == top["id"])
        ids = [i for i in range(64) if i not in {sp["id"] for sp in specs}]
        for j in range(5 - have):
            specs.append({"id": ids[j], "panic": r.chance(1, 4), "site": "", "d": r.choice(DELAYS), "class": r.choice([0, 1, 2, 4, 12]),
                          "action": r.choice(["join", "drop", "dropnow"]), "d2": r.choice(DELAYS), "parent": top["id"], "depth": 1})
        specs.sort(key=lambda sp: sp["depth"])
        script = script_of([specs])
        for k in (4, 5):
            jobs.append((specs, script, "mmap:error=ENOMEM:when=%d" % k))
        for k in (2, 3, 5):
            jobs.append((specs, script, "clone:error=EAGAIN:when=%d" % k))

    # a FUTEX_WAIT made to return 0 although nobody woke the word (the futex contract allows it): join's first wait
    for k in range(max(2, nscripts // 3)):
        specs = [{"id": r.below(64), "panic": r.chance(1, 4), "d": r.choice([60000, 120000]), "class": r.choice([0, 1, 2, 3, 4]),
                  "action": r.choice(["join", "join", "drop"]), "d2": r.choice([0, 1000])}]
        jobs.append((specs, script_of([specs]), "futex:retval=0:when=1"))

    def work(job):
        specs, script, inj = job
        run = run_probe(exe, script, inject=inj, timeout=watchdog_of([specs]))
        res, classes, err = process_run(run, [specs], cfg)
        return job, run, res
    with cf.ThreadPoolExecutor(12) as ex:
        for (specs, script, inj), run, res in ex.map(work, jobs):
            for it in res:
                it["script"], it["timed_out"], it["label"], it["inject"] = script, run["timed_out"], "fault", inj
                it["trace"] = run["trace"]
                if not it.get("missing"):
                    nf = sum(1 for i in it["insts"].values() if i.mmap_fail or i.clone_fail or getattr(i, "spurious", 0))
                    ctx.hist("fault_runs", inj.split(":")[0] + (":hit" if nf else ":missed"))
                items.append(it)
    return items


def stock_crosscheck(ctx, nproc, per):
    """the same scripts on a probe built with tiny-std's *own* global allocator (no wrapper, no heap markers): values,
    exactly-once, stack mmap/munmap pairing and VmSize / mapping list back at baseline must not depend on the wrapper"""
    exe, err = build_probe(ctx, "dyn", stock=True)
    if exe is None:
        ctx.extra["stock_probe"] = "unavailable: " + err[-200:]
        return
    r = ctx.rng
    jobs = [one_per_print_lock([gen_batch(r, 32) for _ in range(per)]) for _ in range(nproc)]

    def work(bs):
        script = script_of(bs)
        return bs, script, run_probe(exe, script, timeout=watchdog_of(bs))
    n = 0
    with cf.ThreadPoolExecutor(12) as ex:
        for bs, script, run in ex.map(work, jobs):
            textb, classes = parse_out(run["out"])
            recs, _ = parse_trace(run["trace"])
            maps = sorted((x["ret"], x["args"][1]) for x in recs if x["name"] == "mmap" and len(x["args"]) > 1 and x["args"][1] == STACK_LEN and x["err"] is None)
            unmaps = sorted((x["args"][0], x["args"][1]) for x in recs if x["name"] == "munmap" and len(x["args"]) > 1 and x["args"][1] == STACK_LEN)
            bad = []
            if run["timed_out"]:
                bad.append("watchdog")
            if maps != unmaps:
                bad.append("stack mmaps %d vs munmaps %d do not pair up" % (len(maps), len(unmaps)))
            for bno, specs in enumerate(bs):
                tb = textb.get(bno)
                n += 1
                ctx.evaluations += 1
                if tb is None or not tb["ended"]:
                    bad.append("batch %d did not finish" % bno)
                    continue
                for sp in specs:
                    ru = tb["runs"].get(sp["id"])
                    if tb["spawn"].get(sp["id"], ("?",))[0] != "ok" or ru is None or ru["count"] != 1:
                        bad.append("id %d: spawn/run record %s %s" % (sp["id"], tb["spawn"].get(sp["id"]), ru))
                        continue
                    if sp["action"] == "join":
                        j = tb["join"].get(sp["id"])
                        want = None if sp["panic"] else (expected_digest(sp["class"], ru["token"], None) if sp["class"] != 3 else "any")
                        if j is None or j["effect"] != 1 or (want != "any" and j["val"] != want) or (want == "any" and j["val"] is None):
                            bad.append("id %d: join %s, expected %s" % (sp["id"], j, want))
                b, a = tb["before"], tb["after"]
                if a["threads"] != 1 or (a["vm"], a["maps"], a["maphash"]) != (b["vm"], b["maps"], b["maphash"]):
                    # the allocator may legitimately have grown its heap in this batch
                    grew = any(x["name"] in ("mmap", "mremap", "brk") and not (len(x["args"]) > 1 and x["args"][1] == STACK_LEN) for x in recs)
                    if a["threads"] != 1 or not grew:
                        bad.append("batch %d: VmSize/mappings %s -> %s" % (bno, b, a))
            if bad:
                ctx.violation({"kind": "stock-allocator-crosscheck"}, {"script": script, "problems": bad[:6],
                              "how_to_replay": "printf %r | strace -f -e trace=%s %s" % (script, TRACE, exe)})
    ctx.extra["stock_allocator_batches"] = n


ASSUMPTIONS = [
    "kernel: at thread exit, if the clear-tid address is non-null, the kernel writes 0 to it and FUTEX_WAKEs it (CLONE_CHILD_CLEARTID); this happens after everything the thread did and is the synchronisation join/drop rely on (exercised on every probe run, not proved)",
    "FUTEX_WAIT compares and enqueues atomically and may return 0 spuriously (allowed by the model: spurious = true); the kernel's clear-tid write is treated as a release of everything the exited thread did, observed by the Acquire re-check load of wait_for_exit / by the futex system call",
    "flag CAS = atomic RMW reading the latest value (exactly one winner); its AcqRel/Relaxed orderings are pinned from the source but the proofs do not need them (the freed block is protected by the kernel-exit edge and by set_tid_address(0))",
    "strace -f reports causally ordered events of different threads in causal order (each ptrace stop is processed before the tracee continues); invisible steps (loads, the two CASes, the kernel's clear) are placed inside their observation windows by the stated rules before the model replays the history",
    "the `__clone` trampoline, the stack-unmap epilogue asm and `_start` are single modelled steps observed through strace, not verified",
    "a panic inside the thread's epilogue is modelled at the one point where the epilogue runs user code, the destructor of the unread result "
    "(Model/Thread `tDropPanic`; proved: nothing has been released at that point, so the panic handler's releases are the only ones). "
    "A destructor that panics on the HANDLE's thread (Drop for JoinHandle after a lost CAS, or the caller dropping what join returned) is the "
    "caller's panic, not the runtime's: it ends that thread (the process, on the main thread) before the shared block is freed; observed, not modelled",
    "thread topology: the handle side of an instance is attributed to the thread that executes it (Model/Thread Part 3 `stepN`: a handle-side step of "
    "a nested instance needs its owner's thread inside its closure; replayed for every nested history); for the source as it is no handle-side code "
    "issues set_tid_address (gen_handle_side_never_resets_tid), so nested families reduce to flat ones (reachableN_reachable). A closure is one "
    "model step: a spawner that panics while it still owns handles (they are never dropped: no unwinding) is the caller leaking handles, not "
    "exercised — scripted spawners panic only after they have joined / dropped every child; children's results have no panicking destructor "
    "(it would run on the parent, a spawned thread, and end it)",
    "a thread that panics inside an argument of eprintln! / println! / dbg! dies holding that print lock (nothing unwinds; observation, outside "
    "C05/C06): later prints to the stream from any thread would block, so the scenarios carry at most one such thread per lock per probe process "
    "and the probe itself never prints through the library",
    "fixed-extent mappings: the model's ledger treats the stack as one resource released by munmap(addr, len) of exactly what mmap returned; that is "
    "the kernel's behaviour only for private anonymous mappings at a kernel-chosen address without MAP_GROWSDOWN / MAP_HUGETLB / MAP_HUGE_* / MAP_FIXED / "
    "MAP_FIXED_NOREPLACE (accepted: MAP_PRIVATE|MAP_ANONYMOUS plus MAP_STACK, MAP_NORESERVE, MAP_POPULATE, MAP_NONBLOCK, MAP_LOCKED). Checked three ways: the "
    "flag word extracted from the source (Gen stackMapFlags, Props/C06 gen_stack_mapping_fixed_extent), the flag word of every stack mmap in the strace "
    "stream (mapping-flags), no mremap / MAP_FIXED mmap over a live stack and munmap with exactly the mmap's (addr, len); and searched for a failing "
    "input on every run: `deep` threads touch the pages just below their stack mapping (read(/dev/zero, addr): EFAULT where the mapping cannot grow) and "
    "/proc/self/maps after the batch is compared range by range with the snapshot before it (mapdiff)",
    "reads through dangling pointers are not observable as such: the allocator wrapper fills released blocks with 0xDD and quarantines them, so that "
    "such a read yields garbage that shows up as a wrong release / system-call argument or a crash; releases and futex calls on released blocks are observed directly",
]


GOOD_CFG = {"checkClone": 1, "mmapCleanup": 1, "initWord": 1, "joinExpect": 1, "dropExpect": 1, "setTidRet": 1, "setTidPanic": 1,
            "dropValH": 1, "dropValT": 1, "recheck": 1, "hTidDrop": 0, "hTidDealloc": 0}


def calibrate(exe, cfg0, want):
    """Parameters of the model the static extraction could not decide (the source there is in a form it does not understand):
    take them from what the running code does, on runs made for the purpose.  -> ({param: value | None}, {param: what was observed}).
    Only *how the parameter is obtained* changes: `gen_cfg_good` still demands the good value, every history is still replayed."""
    out, how = {}, {}

    def one(script, inject=None, timeout=12.0):
        bs = batches_of_script(script)
        run = run_probe(exe, script, inject=inject, timeout=timeout)
        res, _, _ = process_run(run, bs, cfg0)
        return [it for it in res if not it.get("missing")], run

    def toks(inst):
        return [t for _, _, t in sorted(inst.ev)]
    if "checkClone" in want:
        obs = []
        for errno in ("EAGAIN", "ENOMEM", "EPERM"):
            its, run = one("t 1 ret 0 2 join 0\ngo\n", "clone:error=%s:when=1" % errno)
            if not its or not its[0]["insts"][1].clone_fail:
                continue
            inst, tb = its[0]["insts"][1], its[0]["tb"]
            tk = toks(inst)
            obs.append(bool(tb and tb["spawn"].get(1, ("?",))[0] == "err" and inst.nbegin == 0 and not run["timed_out"]
                            and all(tk.count(x) == 1 for x in ("hUndoTls", "hUndoStack", "hUndoBox", "hUndoTsm"))))
        out["checkClone"] = all(obs) if len(obs) == 3 else None
        how["checkClone"] = "clone made to fail with EAGAIN / ENOMEM / EPERM: spawn returned Err and released tls, stack, closure, block once each: %s" % obs
    if "mmapCleanup" in want:
        script = "t 1 ret 0 2 join 0\ngo\n"
        mm, _ = fault_positions(exe, script)
        obs = []
        for k in mm[:1]:
            its, run = one(script, "mmap:error=ENOMEM:when=%d" % k)
            if its and its[0]["insts"][1].mmap_fail:
                inst, tb = its[0]["insts"][1], its[0]["tb"]
                tk = toks(inst)
                obs.append(bool(tb and tb["spawn"].get(1, ("?",))[0] == "err" and tk.count("hUndoBox") == 1 and tk.count("hUndoTsm") == 1))
        out["mmapCleanup"] = all(obs) if obs else None
        how["mmapCleanup"] = "stack mmap made to fail with ENOMEM: spawn returned Err and released closure and block: %s" % obs
    for key, verb in (("setTidRet", "ret"), ("setTidPanic", "panic")):
        if key in want:
            obs = []
            for d in (3000, 20000, 100000):
                its, _ = one("t 1 %s %d 2 dropnow 0\ngo\n" % (verb, d))
                if its and its[0]["insts"][1].hwon and its[0]["insts"][1].t_free_tsm is not None:
                    i = its[0]["insts"][1]
                    obs.append(i.t_settid is not None and i.t_settid < i.t_free_tsm)
                    break
            out[key] = obs[0] if obs else None
            how[key] = "handle dropped first, the thread (%s) lost the CAS: set_tid_address(0) seen before its free of the block: %s" % (verb, obs)
    for key, script, hwon in (("dropValT", "t 1 ret 20000 5 dropnow 0\ngo\n", True), ("dropValH", "t 1 ret 0 5 drop 20000\ngo\n", False)):
        if key in want:
            its, _ = one(script)
            v = None
            if its and its[0]["tb"] and its[0]["tb"]["ended"] and its[0]["insts"][1].hwon is hwon:
                v = not any(k in ("heap-baseline", "hang") for k, _ in its[0]["judge"])
            out[key] = v
            how[key] = "a Box result nobody joined (%s side frees the block): heap back at its baseline after the batch: %s" % ("thread" if hwon else "handle", v)
    if "recheck" in want:
        its, _ = one("t 1 ret 60000 2 join 0\ngo\n", "futex:retval=0:when=1")
        v = None
        if its:
            i = its[0]["insts"][1]
            w = getattr(i, "waits", [])
            if w and w[0]["ret"] == 0 and w[0]["exit"] is not None and i.t_end is not None and w[0]["exit"] < i.t_end:
                # the first wait returned 0 while the closure was still running (nobody had woken the word)
                v = len(w) >= 2 and not any(k in ("join-early", "free-before-exit") for k, _ in its[0]["judge"])
        out["recheck"] = v
        how["recheck"] = "first FUTEX_WAIT of join made to return 0 while the thread still ran: join loaded the word again and waited again: %s" % v
    if want & {"joinExpect", "initWord", "waitPrivate"}:
        its, _ = one("t 1 ret 40000 2 join 0\ngo\n")
        je = iw = wp = None
        if its:
            w = getattr(its[0]["insts"][1], "waits", [])
            if w and len(w[0]["args"]) > 2:
                je, wp = w[0]["args"][2], bool((w[0]["args"][1] or 0) & 128)
                if w[0]["err"] is None and w[0]["ret"] == 0:
                    iw = je        # the kernel compared the word with this value and parked: the word held it while the thread ran
        for k, v in (("joinExpect", je), ("initWord", iw), ("waitPrivate", wp)):
            if k in want:
                out[k] = v
                how[k] = "join on a running thread: futex(word, op=%s, val=%s) parked" % ("FUTEX_WAIT|PRIVATE" if wp else "FUTEX_WAIT", je)
    if "stackMapFlags" in want:
        its, _ = one("t 1 ret 0 2 join 0\ngo\n")
        v = getattr(its[0]["insts"][1], "stack_flags", None) if its else None
        out["stackMapFlags"] = v
        how["stackMapFlags"] = "the flag word of the stack mmap spawn issued: %s" % (hex(v) if v is not None else None)
    if "dropExpect" in want:
        # one thread per batch, handle dropped after the same delay the closure sleeps: some of them meet the thread between its
        # CAS and its exit
        its, _ = one("".join("t %d ret %d 2 drop %d\ngo\n" % (i % 64, d, d) for i, d in enumerate(list(range(0, 1500, 40)) * 2)), timeout=30.0)
        vals = set()
        for it in its:
            for inst in it["insts"].values():
                for w in getattr(inst, "waits", []):
                    if len(w["args"]) > 2:
                        vals.add(w["args"][2])
        out["dropExpect"] = vals.pop() if len(vals) == 1 else None
        how["dropExpect"] = "handles dropped while their threads were exiting: futex wait values seen: %s" % (out["dropExpect"],)
    return out, how


def setup(ctx, exe=None):
    """tie T: static extraction; what it leaves open is taken from the running code (needs the probe)"""
    table = thread_extract.analyse()
    d = table["derived"]
    want = {k for k in thread_extract.PARAMS + thread_extract.NUMS if d[k] is None}
    if table["wait_private"] is None:
        want.add("waitPrivate")
    resolved, how = {}, {}
    if want:
        if exe is None:
            exe, err = build_probe(ctx, "dyn")
        if exe is not None:
            cfg0 = dict(GOOD_CFG)
            for k in cfg0:
                if d.get(k) is not None:
                    cfg0[k] = int(d[k])
            resolved, how = calibrate(exe, cfg0, want)
    table = thread_extract.emit(table, resolved)
    cfg = cfg_of(table)
    ctx.extra["extracted_cfg"] = cfg
    unk = {}
    for fn, ps in table["paths"].items():
        u = sorted({o for p in ps for o in p if o not in thread_extract.VOCAB})
        if u or not ps:
            unk[fn] = u or ["(function not found)"]
    ctx.extra["tie_T"] = {
        "paths": {k: [" ".join(p) for p in v] for k, v in table["paths"].items()},
        "parameter_source": table["src"],
        "taken_from_running_code": {k: {"value": resolved.get(k), "observation": how.get(k)} for k in sorted(want)},
        "not_understood": unk, "notes": table["notes"], "clone_asm": table["clone_asm"],
        "partial_orders_checked_statically": [k for k in table["paths"] if k not in unk],
    }
    ctx.trusted += ["checks/thread_extract.py (semantic, role-based extractor for tiny-std/src/thread.rs + thread/*.rs pooled into one unit: follows calls across the "
                    "files, identifies private items by what they are, evaluates constants and asm const operands, enumerates paths; its output is re-checked by "
                    "gen_shape_ok / gen_params_from_paths / gen_cfg_good / gen_cas_orderings)",
                    "strace 6.1 (observation and fault injection), the probe's marker system calls and counting allocator wrapper"]
    ctx.assumptions += ASSUMPTIONS
    if want or unk:
        ctx.assumptions.append(
            "tie T fell back to the running code: the extractor did not understand %s; the model parameters %s are what fault-injected / scheduled probe runs "
            "showed (see coverage.tie_T.taken_from_running_code), and for those functions the order of operations is checked only on the observed histories "
            "(every one replayed by the model), not on the source text" % (unk or "(everything understood)", sorted(want)))
    return table, cfg


def layout_tie(ctx, classes):
    """layout arithmetic: Lean defs vs the Python spec vs what the real code allocated (judge compares the latter two)"""
    cases = [(s, a) for s in (0, 1, 2, 3, 7, 8, 9, 16, 24, 31, 4096, 4097, 65536) for a in (1, 2, 4, 8, 16, 64, 4096)]
    cases += list(classes.values())
    lines = ["layout %d %d" % c for c in cases]
    rc, out, err = C.run_filter([C.driver_path("drv_c05")], lines)
    ctx.evaluations += len(lines)
    for (s, a), o in zip(cases, out):
        size, al, off = layout(s, a)
        want = "layout %d %d %d futex=4 sz=8 al=16" % (size, al, off)
        if o != want:
            ctx.violation({"kind": "layout-model"}, {"case": [s, a], "model": o, "spec": want}, no_input=True)
    ctx.extra["layout_cases"] = len(lines)


def run(ctx, which="C05"):
    quick = ctx.tier == "quick"
    ctx.rule = ("a case = one batch of 1..64 concurrently live threads, each with (closure returns | panics after d us [plain panic! | inside an "
                "eprintln! / println! / dbg! argument, i.e. holding the library's print lock | holding its own Mutex + RwLock guards], result class "
                "zst/u8/u64/[u8;4096]/align64/Box | bool/char/Ordering/field-less enum/Option<u32>/Result<u8,u8>/struct(bool)+Drop [None is not all-zero] | "
                "a value whose destructor panics (always / on a spawned thread only) [the panic handler starts inside the thread's epilogue], "
                "handle joined | dropped after d' us | dropped at once), run on the real tiny-std threads under "
                "strace -f, plus fault runs (every stack-mmap and every clone position of a script made to fail); "
                "distinct_nontrivial = distinct (panic, class, handle action, wait path taken [fast load | EAGAIN | parked | handle won the CAS], "
                "injected failure, destructor of the unread result panicked on the thread, panic site, depth in the spawn tree, spawns threads itself) "
                "combinations observed; thread TOPOLOGY is a dimension: nested scripts in which spawned threads spawn, join, drop-early and drop-late "
                "threads themselves (depth 2 and 3), with faults on their own spawns, then return or panic and are joined or dropped in turn")
    table, cfg = setup(ctx)
    ok = C.lean_prove(ctx, "TinyVerif.Props." + which, drivers=["drv_c05"])
    exes = {}
    for mode in (["dyn", "static", "spie"]):
        exe, err = build_probe(ctx, mode)
        if exe is None:
            if mode == "dyn":
                ctx.broken.append({"probe_build_failed": err})
                ctx.violation({"kind": "probe-build-failed"}, {"error": err}, no_input=True)
                return
            ctx.extra.setdefault("probe_modes_unavailable", {})[mode] = err[-300:]
        else:
            exes[mode] = exe
    ctx.extra["probe_modes"] = sorted(exes)
    kinds = C05_KINDS if which == "C05" else C06_KINDS
    items = []
    if which == "C05":
        n_dyn, per, nmax = (48, 8, 32) if quick else (600, 10, 64)
    else:
        n_dyn, per, nmax = (40, 6, 64) if quick else (500, 8, 64)
    t = time.time()
    items += run_scenarios(ctx, exes["dyn"], cfg, n_dyn, per, nmax, "dyn")
    for mode in ("static", "spie"):
        if mode in exes:
            items += run_scenarios(ctx, exes[mode], cfg, 4 if quick else 40, per, 16, mode)
    # results whose destructor panics: the panic handler entered from the middle of the epilogue, every handle order
    sweep = destructor_sweep(ctx.rng, 2 if quick else 12)
    per_proc = 5
    sjobs = [sweep[i:i + per_proc] for i in range(0, len(sweep), per_proc)]
    sitems = run_scenarios(ctx, exes["dyn"], cfg, 0, 0, 0, "destructor-sweep", jobs=sjobs)
    ctx.extra["destructor_sweep_batches"] = len(sitems)
    ctx.extra["destructor_panics_on_thread_observed"] = sum(1 for it in items + sitems if not it.get("missing")
                                                            for i in it["insts"].values() if getattr(i, "dpanic", False))
    items += sitems
    # closures that panic while their thread holds one of the library's own locks (print locks, its own Mutex / RwLock)
    pitems = run_scenarios(ctx, exes["dyn"], cfg, 0, 0, 0, "panic-site-sweep", jobs=panic_site_sweep(ctx.rng, 1 if quick else 6))
    ctx.extra["panic_site_sweep_batches"] = len(pitems)
    items += pitems
    # extent of the stack mapping: threads that reach below it
    ditems = run_scenarios(ctx, exes["dyn"], cfg, 0, 0, 0, "deep-stack", jobs=[[b] for b in deep_sweep(ctx.rng, 1 if quick else 4)])
    ctx.extra["deep_stack_batches"] = len(ditems)
    ctx.extra["deep_stack_pages_touched_below_the_mapping"] = sorted({getattr(i, "grew", None) for it in ditems if not it.get("missing")
                                                                      for i in it["insts"].values() if getattr(i, "grew", None) is not None})
    items += ditems
    # thread topology: spawned threads that spawn, join and drop threads themselves (depth 2 and 3)
    nb = [gen_nested_batch(ctx.rng) for _ in range(60 if quick else 700)] + nested_sweep(ctx.rng, 1 if quick else 6)
    njobs = [one_per_print_lock(nb[i:i + 6]) for i in range(0, len(nb), 6)]
    nitems = run_scenarios(ctx, exes["dyn"], cfg, 0, 0, 0, "nested", jobs=njobs)
    ctx.extra["nested_batches"] = len(nitems)
    items += nitems
    ctx.extra["scenario_s"] = round(time.time() - t, 1)
    nbad = account(ctx, items, exes["dyn"], pid_kinds=kinds)
    # fault runs
    t = time.time()
    fitems = run_faults(ctx, exes["dyn"], cfg, 6 if quick else 60, 6 if quick else 16)
    ctx.extra["fault_s"] = round(time.time() - t, 1)
    for it in fitems:
        if it.get("missing"):
            continue
    # violations of fault runs carry their injection
    by_inj = {}
    for it in fitems:
        by_inj.setdefault(it.get("inject"), []).append(it)
    for inj, its in by_inj.items():
        nbad += account(ctx, its, exes["dyn"], pid_kinds=kinds, inject=inj)
    stock_crosscheck(ctx, 3 if quick else 30, 6)
    _, classes = parse_out(run_probe(exes["dyn"], "", timeout=10)["out"])
    ctx.extra["result_classes"] = {CLASSES[k]: v for k, v in classes.items()}
    layout_tie(ctx, classes)
    ctx.extra["batches"] = len(items)
    ctx.extra["fault_batches"] = len(fitems)
    ctx.extra["threads_run"] = sum(len(it["specs"]) for it in items + fitems if not it.get("missing"))
    ctx.extra["model_events_replayed"] = sum(it.get("nev", 0) for it in items + fitems)
    ctx.extra["histories_accepted_by_model"] = sum(1 for it in items + fitems if it.get("model", "").startswith("accept"))
    for it in items[:3]:
        if not it.get("missing"):
            ctx.sample({"specs": it["specs"][:4], "model": it.get("model", "")[:300], "judge": it["judge"][:3]})
    if not ok and not ctx.violations:
        ctx.violation({"kind": "proof-broken"}, {"broken": ctx.broken,
                      "note": "Props/%s.lean no longer checks against the regenerated Gen/ThreadSites.lean and no explored scenario fails an oracle" % which},
                      no_input=True)


def batches_of_script(script):
    out, cur = [], []
    for l in script.splitlines():
        w = l.split()
        if not w:
            continue
        if w[0] == "go":
            out.append(cur)
            cur = []
        elif w[0] in ("t", "c"):
            par = None
            if w[0] == "c":
                par, w = int(w[1]), [w[0]] + w[2:]
            cur.append({"id": int(w[1]), "panic": w[2].startswith("panic") or w[2] == "deep_panic", "deep": w[2].startswith("deep"),
                        "site": w[2][6:] if w[2].startswith("panic_") else "",
                        "d": int(w[3]), "class": int(w[4]), "action": w[5], "d2": int(w[6]), "parent": par})
    return out


def replay(ctx, rp):
    """bin/check C05 --replay <file>: re-run the recorded script (with its fault injection) on the current tree"""
    table, cfg = setup(ctx)
    exe, err = build_probe(ctx, "dyn")
    if exe is None:
        print("probe build failed:\n" + err)
        return 2
    r = rp.get("replay", rp)
    script, inject = r.get("script"), r.get("inject")
    if not script:
        print("replay file carries no script (a broken proof obligation, not a run)")
        return 2
    bs = batches_of_script(script)
    run = run_probe(exe, script, inject=inject, timeout=watchdog_of(bs))
    res, classes, e = process_run(run, bs, cfg)
    model_verdicts(ctx, [it for it in res if not it.get("missing")])
    rc = 0
    for it in res:
        if it.get("missing"):
            print("batch %d: did not run%s" % (it["bno"], " (watchdog)" if run["timed_out"] else ""))
            rc = 1
            continue
        why = check_model(it)
        print("batch %d: judge=%s model=%s%s" % (it["bno"], it["judge"] or "ok", it.get("model", "")[:200], (" MODEL: " + why) if why else ""))
        if it["judge"] or why:
            rc = 1
    return rc
