"""C08 — memcpy/memmove/memset/memcmp/bcmp of tiny-start/src/symbols/mem.rs (+ symbols/mem/**) match C for every
length, alignment and overlap, never write outside the destination range and never READ outside
`[s, s+n)` of any operand (source of the copies, both operands of the compares)."""
from . import common as C

P = 2**55 - 55          # hash modulus shared with Model/MemFns.lean and harness/c08
RZ = 32                 # red zone kept free on both sides of every region
_pat = {}


def arena(size, seed):
    """initial arena content: period 251, all bytes of one period distinct"""
    p = _pat.get(seed)
    if p is None:
        p = _pat[seed] = bytes(((j * 7 + seed * 13 + 3) % 256) for j in range(251))
    return bytearray((p * (size // 251 + 1))[:size])


_pow2 = {}


def H(b):
    """little-endian integer of the bytes, mod P.  Large inputs are folded in halves first
    (x = hi * 2^k + lo = hi * (2^k mod P) + lo (mod P)): same value, without a long division per case"""
    x = int.from_bytes(bytes(b), "little")
    n = len(b) * 8
    while n > 512:
        k = n // 2
        c = _pow2.get(k)
        if c is None:
            c = _pow2[k] = pow(2, k, P)
        x = (x >> k) * c + (x & ((1 << k) - 1))
        n = max(n - k + 56, k) + 1
    return x % P


PAGE = 4096


def parse(case):
    """-> op, size, seed, a, b, n, setups; a setup is ("@", off, val) poke, ("~", to, frm, len) copy done by the
    harness, ("!", k) page k of the arena inaccessible while the function under test runs"""
    w = case.split()
    op, size, seed, a, b, n = w[0], int(w[1]), int(w[2]), int(w[3]), int(w[4]), int(w[5])
    setups = []
    for t in w[6:]:
        if t[0] == "@":
            o, v = t[1:].split("=")
            setups.append(("@", int(o), int(v)))
        elif t[0] == "~":
            to, frm, ln = t[1:].split(":")
            setups.append(("~", int(to), int(frm), int(ln)))
        else:
            setups.append(("!", int(t[1:])))
    return op, size, seed, a, b, n, setups


def setup_arena(size, seed, setups):
    ar = arena(size, seed)
    for st in setups:
        if st[0] == "@":
            ar[st[1]] = st[2]
        elif st[0] == "~":
            ar[st[1]:st[1] + st[3]] = bytes(ar[st[2]:st[2] + st[3]])
    return ar


def judge(case, out):
    """the C standard's semantics, computed with Python bytes operations on the same arena"""
    op, size, seed, a, b, n, setups = parse(case)
    ar = setup_arena(size, seed, setups)
    f = dict(t.split("=", 1) for t in out.split() if "=" in t)
    extra = [t for t in out.split() if "=" not in t]
    if extra or "h" not in f:
        return "abnormal: " + out[:60]
    if "fault" in f:
        # C: the call may access s[0..n) of its operands and nothing else.  The case put an inaccessible page right
        # next to an operand (no operand byte lies in it) and the function under test touched it.
        kind, off = f["fault"].split("@")
        off = int(off)
        ops = [("dest", a)] if op == "set" else ([("s1", a), ("s2", b)] if op in ("cmp", "bcm") else [("dest", a), ("src", b)])
        near = min(ops, key=lambda o: min(abs(off - o[1]), abs(off - (o[1] + n))))
        rel = off - near[1]
        return "%s outside the operands: %s accesses arena offset %d = %s%+d with %s = [%d, %d) (n=%d), an inaccessible page; a process would die with SIGSEGV" % (
            "store" if kind == "wr" else "load", op, off, near[0], rel, near[0], near[1], near[1] + n, n)
    if op in ("cmp", "bcm"):
        if int(f["h"]) != H(ar):
            return "%s modified memory" % op
        x, y = bytes(ar[a:a + n]), bytes(ar[b:b + n])
        exp = (x > y) - (x < y)          # lexicographic on unsigned bytes = C's memcmp order
        v = int(f.get("val", "x") if f.get("val", "x").lstrip("-").isdigit() else 99999)
        if not -2**31 <= v < 2**31:
            return "not an i32"
        if op == "bcm":
            return None if (v == 0) == (exp == 0) else "bcmp zero/non-zero wrong: expected %s" % ("0" if exp == 0 else "non-zero")
        got = (v > 0) - (v < 0)
        return None if got == exp else "memcmp sign wrong: expected sign %d" % exp
    exp = bytearray(ar)
    if op == "set":
        exp[a:a + n] = bytes([b & 0xFF]) * n
    else:
        exp[a:a + n] = bytes(ar[b:b + n])
    ret = "-" if op in ("fwd", "bwd") else str(a)
    if int(f["h"]) != H(exp):
        return "memory after %s differs from C semantics: expected h=%d" % (op, H(exp))
    if f.get("ret") != ret:
        return "return value wrong: expected %s" % ret
    return None


def sig_of(case, out, why):
    return {"op": case.split()[0], "kind": why.split(":")[0]}


def ovl(d, s, n):
    if n == 0 or d + n <= s or s + n <= d:
        return "disjoint"
    return "same" if d == s else ("dest<src" if d < s else "dest>src")


def ncls(n):
    return n if n <= 48 else "2^%d" % (n.bit_length() - 1)


def gen_mid(ctx, quick):
    """mid-range sweep: EVERY length in a mid range (where block / cache-line fast paths and their thresholds live) and
    lengths around every multiple of 64 up to 1 KiB, x EVERY destination position inside a 128-byte line (the arena base
    is page aligned) x a few source misalignments, for memcpy, forward- and backward-overlapping memmove and memset"""
    ns = set(range(41, 161 if quick else 321))
    for m in range(64, 1025, 64):
        for dlt in (-9, -8, -7, -2, -1, 0, 1, 2, 7, 8, 9):
            ns.add(m + dlt)
    cases = []
    line = 64 if quick else 128
    base = 256           # multiple of 128: dest position within the line is exactly dm
    for n in sorted(ns):
        for dm in range(line):
            d = base + dm
            sm = (dm * 5 + n) % 16
            src = 16 * ((d + n + RZ) // 16 + 2) + sm          # disjoint, above dest
            seed = 1 + ((n + dm) & 3)
            k = (n + dm) % 4
            if k == 0:
                cases.append("cpy %d %d %d %d %d" % (src + n + RZ, seed, d, src, n))
            elif k == 1:
                delta = [1, 7, 8, 9, 63, 64, 65][(n // 4 + dm) % 7]      # forward copy with overlap: dest below src
                cases.append("mov %d %d %d %d %d" % (d + delta + n + RZ, seed, d, d + delta, n))
            elif k == 2:
                delta = [1, 7, 8, 9, 63, 64, 65][(n // 4 + dm) % 7]      # backward copy with overlap: dest above src
                cases.append("mov %d %d %d %d %d" % (d + n + RZ, seed, d, d - delta, n))
            else:
                cases.append("set %d %d %d %d %d" % (d + n + RZ, seed, d, [0, 0xFF, 0x5A, -2][(n + dm) // 4 % 4], n))
    return cases


def guard_layout(n):
    """arena of 3 data regions of R pages separated by two inaccessible pages: [R pages][hole][R pages][hole][R pages].
    -> size, setup tokens, tight-end end offset, loose-end end offset, tight-start offset, loose-start offset"""
    R = (n + 15) // PAGE + 1
    h1, h2 = R, 2 * R + 1
    return (3 * R + 2) * PAGE, " !%d !%d" % (h1, h2), h1 * PAGE, h2 * PAGE, (h1 + 1) * PAGE, (h2 + 1) * PAGE


def guard_place(n, s, role, placement):
    """X = the TIGHT operand: ends flush against an inaccessible page (placement 'end') or starts right after one
    ('start'); Y = the other operand, `s` bytes away from its own inaccessible page (so its misalignment relative to
    X is s and an over-read of more than s bytes still faults).  role 0: X is the first argument (dest / s1),
    role 1: X is the second (src / s2).  -> size, holes, first argument offset, second argument offset"""
    size, holes, te, le, ts, ls = guard_layout(n)
    if placement == "end":
        x, y = te - n, le - s - n
    else:
        x, y = ts, ls + s
    return (size, holes, x, y) if role == 0 else (size, holes, y, x)


def guard_cmp(r, op, n, s, role, placement, variant, seed):
    size, holes, a, b = guard_place(n, s, role, placement)
    tok = " ~%d:%d:%d" % (b, a, n)                 # second operand := first operand
    if n and variant != "eq":
        p = {"last": n - 1, "first": 0}.get(variant)
        if p is None:
            p = r.below(n)
        cur = arena(size, seed)[a + p]
        tok += " @%d=%d" % (b + p, (cur + r.choice([1, 255, 128])) % 256)
    return "%s %d %d %d %d %d%s%s" % (op, size, seed, a, b, n, tok, holes)


def gen_guard(ctx, quick, nmax):
    """READS (and writes) outside the operands: every operand in turn — destination and source of the copies, first
    and second operand of the compares — ends flush against an inaccessible page or starts right after one, the other
    operand at every relative misalignment, for every n of the exhaustive range and of the mid sweep.  An access
    outside [s, s+n) towards the page faults; the harness reports it with the case as the concrete input."""
    r = ctx.rng
    cases = []
    DELTAS = [1, 7, 8, 9, 63, 64, 65]
    mid = set(range(nmax + 1, 161 if quick else 321))
    for m in range(64, 1025, 64):
        for dlt in (-9, -8, -7, -2, -1, 0, 1, 2, 7, 8, 9):
            mid.add(m + dlt)
    for n in list(range(nmax + 1)) + sorted(mid):
        small = n <= nmax
        for placement in ("end", "start"):
            for role in (0, 1):
                for s in range(16 if small else 8):
                    seed = 1 + ((n + s) & 3)
                    size, holes, a, b = guard_place(n, s, role, placement)
                    alt = (n + s + role) & 1
                    cases.append("cpy %d %d %d %d %d%s" % (size, seed, a, b, n, holes))
                    if small:
                        cases.append(guard_cmp(r, "cmp", n, s, role, placement, "eq", seed))
                        cases.append(guard_cmp(r, "bcm", n, s, role, placement, "eq", seed))
                        cases.append(guard_cmp(r, "bcm" if alt else "cmp", n, s, role, placement, "last", seed))
                        cases.append(guard_cmp(r, "cmp" if alt else "bcm", n, s, role, placement, "rand", seed))
                        if s < 8:
                            cases.append("mov %d %d %d %d %d%s" % (size, seed, a, b, n, holes))
                    else:
                        cases.append(guard_cmp(r, "cmp" if alt else "bcm", n, s, role, placement, "eq", seed))
                        cases.append(guard_cmp(r, "bcm" if alt else "cmp", n, s, role, placement, ["last", "rand", "first"][(n + s) % 3], seed))
                        if alt:
                            cases.append("mov %d %d %d %d %d%s" % (size, seed, a, b, n, holes))
                # memmove with overlap: the other operand `delta` bytes away on the side that has room
                size, holes, te, le, ts, ls = guard_layout(n)
                x = te - n if placement == "end" else ts
                for delta in (range(1, n + 3) if small else [DELTAS[(n + role) % 7], DELTAS[(n // 7 + 3) % 7]]):
                    y = x - delta if placement == "end" else x + delta
                    d, sr = (x, y) if role == 0 else (y, x)
                    cases.append("mov %d %d %d %d %d%s" % (size, 1 + (n & 3), d, sr, n, holes))
            # memset: the destination tight
            size, holes, te, le, ts, ls = guard_layout(n)
            x = te - n if placement == "end" else ts
            for c in ((0, 0xA5, -1) if small else (0x5A,)):
                cases.append("set %d %d %d %d %d%s" % (size, 1 + (n & 3), x, c, n, holes))
    # a few large ones (multi-page operands)
    for i in range(12 if quick else 120):
        n = r.choice([4081, 4095, 4096, 4097, 8191, 12289, 65535, 65537, 2**18 + 3, 2**20 - 7]) if i % 2 else r.range(4096, 70000)
        s, role, placement = r.below(16), r.below(2), r.choice(["end", "start"])
        size, holes, a, b = guard_place(n, s, role, placement)
        k = i % 4
        if k == 0:
            cases.append("cpy %d %d %d %d %d%s" % (size, 1 + i % 7, a, b, n, holes))
        elif k == 1:
            cases.append("mov %d %d %d %d %d%s" % (size, 1 + i % 7, a, b, n, holes))
        else:
            cases.append(guard_cmp(r, "cmp" if k == 2 else "bcm", n, s, role, placement, "eq" if i % 8 < 4 else "last", 1 + i % 7))
    return cases


def gen_small(ctx, nmax):
    """exhaustive: n in 0..=nmax, misalignments 0..=15, every overlap distance both ways, fill bytes,
    first-difference positions"""
    r = ctx.rng
    cases = []
    # memcpy: disjoint, dest/src misalignment 0..15 each, both orders
    for n in range(nmax + 1):
        for dm in range(16):
            for sm in range(16):
                lo, hi = RZ + dm, 16 * ((RZ + 16 + nmax + RZ) // 16 + 1) + sm
                size = hi + n + RZ
                if (n + dm + sm) & 1:
                    cases.append("cpy %d %d %d %d %d" % (size, 1 + (n & 3), lo, hi, n))
                else:
                    cases.append("cpy %d %d %d %d %d" % (size, 1 + (n & 3), hi, lo, n))
    # memmove / its forward routine / its backward routine: every delta = dest - src in -(n+2)..=(n+2)
    ctr = 16 * ((RZ + nmax + 2 + 15) // 16)
    for n in range(nmax + 1):
        for dm in range(16):
            d = ctr + dm
            for delta in range(-(n + 2), n + 3):
                s = d - delta
                size = max(d, s) + n + RZ
                seed = 1 + (dm & 3)
                cases.append("mov %d %d %d %d %d" % (size, seed, d, s, n))
                if delta <= 0 or delta >= n:
                    cases.append("fwd %d %d %d %d %d" % (size, seed, d, s, n))
                if delta >= 0 or -delta >= n:
                    cases.append("bwd %d %d %d %d %d" % (size, seed, d, s, n))
    # memset: fill bytes incl. c_int values whose low byte must be taken
    fills = [0, 1, 0x7F, 0x80, 0xFF, -1, 0x141, -129]
    for n in range(nmax + 1):
        for dm in range(16):
            for c in fills:
                d = RZ + dm
                cases.append("set %d %d %d %d %d" % (d + n + RZ, 1 + (dm & 3), d, c, n))
    # memcmp / bcmp: s2 = s1 + 251*k holds the same bytes (pattern period); poke the first difference at p
    for n in range(nmax + 1):
        for m1 in range(8):
            for k in (1, 3):
                s1 = RZ + m1
                s2 = s1 + 251 * k
                size = s2 + n + RZ
                for p in list(range(n)) + [None, "past", "before"]:
                    seed = 1 + (m1 & 3)
                    base = arena(size, seed)
                    pk = ""
                    if p == "past":          # a difference just outside the compared range must be ignored
                        pk = " @%d=%d" % (s2 + n, base[s2 + n] ^ 0x80)
                    elif p == "before":
                        pk = " @%d=%d" % (s2 - 1, base[s2 - 1] ^ 0x80)
                    elif p is not None:
                        cur = base[s1 + p]
                        kind = r.below(6)
                        # unsigned extremes: 0x00 vs 0xff, 0x7f vs 0x80, +-1
                        if kind == 0:
                            pk = " @%d=0 @%d=255" % (s1 + p, s2 + p)
                        elif kind == 1:
                            pk = " @%d=128 @%d=127" % (s1 + p, s2 + p)
                        elif kind == 2:
                            pk = " @%d=127 @%d=128" % (s1 + p, s2 + p)
                        elif kind == 3:
                            pk = " @%d=%d" % (s2 + p, (cur + 1) % 256)
                        else:
                            pk = " @%d=%d" % (s2 + p, (cur + 255) % 256)
                        if p + 1 < n and r.chance(1, 2):   # a later difference of the opposite sign must not matter
                            q = r.range(p + 1, n - 1)
                            pk += " @%d=%d @%d=%d" % (s1 + q, 255 if kind in (0, 2, 3) else 0, s2 + q, 0 if kind in (0, 2, 3) else 255)
                    op = "bcm" if (n + m1 + k) % 4 == 0 else "cmp"
                    cases.append("%s %d %d %d %d %d%s" % (op, size, seed, s1, s2, n, pk))
    return cases


def gen_big(ctx, count, count_mib):
    r = ctx.rng
    cases = []
    sizes = [41, 47, 48, 49, 63, 64, 65, 127, 128, 129, 255, 256, 257, 1000, 4095, 4096, 4097, 65535, 65536, 65537]
    for i in range(count + count_mib):
        if i >= count:
            n = r.choice([2**20, 2**20 - 1, 2**20 - 7, 2**20 - r.below(64)])
        elif r.chance(1, 2):
            n = r.choice(sizes)
        else:
            n = r.range(41, r.choice([200, 5000, 70000, 300000]))
        dm, sm = r.below(16), r.below(16)
        seed = r.range(1, 9)
        op = ["cpy", "mov", "mov", "fwd", "bwd", "set", "cmp", "bcm"][i % 8]
        if op == "cpy":
            d, s = 32 + dm, 16 * ((32 + 16 + n + RZ) // 16 + 1) + sm
            if r.chance(1, 2):
                d, s = s, d
            cases.append("cpy %d %d %d %d %d" % (max(d, s) + n + RZ, seed, d, s, n))
        elif op in ("mov", "fwd", "bwd"):
            k = r.below(5)
            delta = [r.range(1, 17), r.range(1, n), n - r.below(3), n + r.below(3), r.range(1, 8) * 8][k]
            if op == "mov" and r.chance(1, 2) or op == "fwd":
                delta = -delta
            d = 16 * ((RZ + n + 40) // 16 + 1) + dm
            s = d - delta
            cases.append("%s %d %d %d %d %d" % (op, max(d, s) + n + RZ, seed, d, s, n))
        elif op == "set":
            d = RZ + dm
            cases.append("set %d %d %d %d %d" % (d + n + RZ, seed, d, r.choice([0, 1, 0x7F, 0x80, 0xFF, -1, r.range(-2**31, 2**31 - 1)]), n))
        else:
            s1 = RZ + dm
            s2 = s1 + 251 * ((n + 2 * RZ) // 251 + 1 + sm)
            size = s2 + n + RZ
            base = arena(size, seed)
            k = r.below(4)
            p = [None, n - 1, 0, r.below(n)][k]
            pk = "" if p is None else " @%d=%d" % (s2 + p, (base[s2 + p] + r.choice([1, 255, 128])) % 256)
            cases.append("%s %d %d %d %d %d%s" % (op, size, seed, s1, s2, n, pk))
    return cases


MALFORMED = [
    "cpy 100 1 90 0 20", "cpy 100 1 0 90 20", "mov 100 1 0 0 101", "set 100 1 95 0 6", "cmp 100 1 0 99 2",
    "zap 100 1 0 0 0", "cpy 100 1 0 0", "cpy x 1 0 0 0", "cpy 100 1 -1 0 0", "cpy 100 1 0 -1 0", "", "cpy",
    "set 100 1 0 4294967296 1", "cpy 100 1 0 50 10 @100=1", "cpy 100 1 0 50 10 @5=256", "cpy 100 1 0 50 10 5=1",
    "cpy 99999999 1 0 50 10", "cmp 100 1 0 50 10 @5",
    "cmp 20480 1 4000 12200 97 !1 !3", "cmp 20480 1 3000 12200 97 !1 !3", "cpy 8192 1 0 5000 10 !2", "cpy 100 1 0 50 10 ~0:95:10",
    "cpy 100 1 0 50 10 ~95:0:10", "cpy 100 1 0 50 10 !x", "cpy 100 1 0 50 10 ~1:2", "cpy 100 1 0 50 10 ~1:2:3:4", "set 8192 1 4090 0 10 !1",
    "cpy 8192 1 0 50 10 !1=3", "cpy 100 1 0 50 10 !",
]


STANDALONE_PROFILES = """
[workspace]

[profile.dev]
debug = 0
opt-level = 0
overflow-checks = true
debug-assertions = true

[profile.release]
opt-level = 2
overflow-checks = false
debug-assertions = false
"""


GLUE_LEVELS = ("all", "fns", "consts", "none")
_glue = {"level": 0}


def _build_at(ctx, release, level):
    env = {"C08_GLUE": GLUE_LEVELS[level]}
    exe, err = C.cargo_build(ctx, "c08", release=release, extra_env=env)
    if exe is not None:
        return exe, ""
    if "workspace member" in err and "/c08" not in err.split("Caused by")[0]:
        # another property's half-written crate breaks the shared workspace manifest: not ours.
        # c08 has no dependencies, so build a copy of the crate as its own workspace (same profiles).
        import os
        import shutil
        src = os.path.join(C.HARNESS, "c08")
        dst = os.path.join(C.HARNESS, "target", "standalone-c08")
        os.makedirs(os.path.join(dst, "src"), exist_ok=True)
        shutil.copy(os.path.join(src, "build.rs"), dst)
        shutil.copy(os.path.join(src, "src", "main.rs"), os.path.join(dst, "src"))
        open(os.path.join(dst, "Cargo.toml"), "w").write(open(os.path.join(src, "Cargo.toml")).read() + STANDALONE_PROFILES)
        ctx.extra["harness_built_standalone"] = err.splitlines()[0]
        env["CARGO_TARGET_DIR"] = os.path.join(dst, "target")
        return C.cargo_build(ctx, "c08", release=release, workspace=dst, extra_env=env)
    return None, err


def build(ctx, release):
    """harness/c08/build.rs copies symbols/mem.rs and symbols/mem/** and APPENDS glue that reaches the private forward /
    backward copy routines and the tuning constants (found from the bodies of memcpy / memmove resp. by name).  The glue
    is a convenience of the check, not part of the property: if a build with glue fails, retry with less of it (the `fwd` /
    `bwd` operations then go through memmove, the constants are reported as unknown) before calling the build failed."""
    first_err = None
    for level in range(_glue["level"], len(GLUE_LEVELS)):
        exe, err = _build_at(ctx, release, level)
        if exe is not None:
            if level != _glue["level"]:
                ctx.extra["harness_glue_degraded"] = {"level": GLUE_LEVELS[level], "because": (first_err or "").splitlines()[-12:]}
            _glue["level"] = level
            return exe, ""
        first_err = first_err or err
    return None, first_err


# the property's anchored files, and the crate around them (scanned for target features only)
ANCHORED = ["tiny-start/src/symbols"]
WIDER = ["tiny-start/src"]
_model_cache = {}


def build_variant(ctx, v):
    """the harness built another way (C.build_variants: target features the anchored files mention, mixed
    debug-assertion settings, the standing `-C target-cpu=native`), at the glue level the default build settled on"""
    first_err, how = None, ""
    for level in range(_glue["level"], len(GLUE_LEVELS)):
        exe, err, how = C.variant_build(ctx, "c08", v, extra_env={"C08_GLUE": GLUE_LEVELS[level]})
        if exe is not None:
            return exe, "", how.replace("RUSTFLAGS=", "C08_GLUE=%s RUSTFLAGS=" % GLUE_LEVELS[level])
        first_err = first_err or err
    return None, first_err, how


SYMS = ("memcpy", "memmove", "memset", "memcmp", "bcmp")


def exported_symbols(ctx):
    """The real exported symbols (feature mem-symbols, #![no_builtins] crate): present in tiny-start's object code and
    none of them reaches a mem symbol again through a call (the 'memcpy implemented by calling memcpy' regression).
    A static observation on the compiled rlib; the behaviour of the functions is what the correspondence checks."""
    import os
    import re
    tdir = os.path.join(C.HARNESS, "target", "tiny-start-syms")
    rc, out = C.sh(["cargo", "build", "--offline", "-q", "--release", "-p", "tiny-start", "--features", "mem-symbols",
                    "--target-dir", tdir], cwd=C.REPO, timeout=1200)
    rlib = os.path.join(tdir, "release", "libtiny_start.rlib")
    if rc != 0 or not os.path.exists(rlib):
        ctx.violation({"kind": "tiny-start-build-failed"}, {"error": out.splitlines()[-20:]}, no_input=True)
        return
    rc, nm = C.sh(["nm", rlib])
    rc2, dis = C.sh(["objdump", "-dr", "--no-show-raw-insn", rlib])
    if rc != 0 or rc2 != 0:
        ctx.extra["exported_symbols"] = "nm/objdump unavailable: not observed"
        return
    have = set(re.findall(r"^[0-9a-f]+ T (\w+)$", nm, re.M))
    missing = [s_ for s_ in SYMS if s_ not in have]
    calls = []
    cur = None
    for line in dis.splitlines():
        m = re.match(r"^[0-9a-f]+ <(\w+)>:", line)
        if m:
            cur = m.group(1)
            continue
        m = re.search(r"R_X86_64_(?:PLT32|PC32|GOTPCREL\w*)\s+(\w+)", line)
        if m and m.group(1) in SYMS and cur in SYMS and not (cur == "bcmp" and m.group(1) == "memcmp"):
            calls.append("%s -> %s" % (cur, m.group(1)))
    ctx.extra["exported_symbols"] = {"defined": sorted(have & set(SYMS)), "calls_between_mem_symbols": calls}
    ctx.evaluations += 1
    if missing:
        ctx.violation({"kind": "exported-symbol-missing"}, {"missing": missing}, no_input=True)
    if calls:
        ctx.violation({"kind": "exported-symbol-recursion"}, {"calls": calls,
                      "note": "a mem symbol's body calls a mem symbol: in a no-libc binary that is unbounded recursion"}, no_input=True)


def run(ctx):
    quick = ctx.tier == "quick"
    nmax = 40 if quick else 72
    ctx.rule = ("cases = exhaustive n in 0..=%d x destination misalignment 0..=15 x (memcpy: source misalignment 0..=15, both orders; "
                "memmove and the forward / backward copy routine it dispatches to (identified from the bodies of memcpy / memmove, not by name; where the forward resp. backward direction is safe): every distance dest-src in -(n+2)..=n+2; memset: 8 fill values incl. negative and >255 c_int; "
                "memcmp/bcmp: every first-difference position, none, and a difference just outside the range, with unsigned-extreme byte pairs) "
                "plus a mid-range sweep (every n in 41..=%d and around every multiple of 64 up to 1 KiB x every destination position inside a %d-byte line: memcpy, memmove overlapping either way, memset) "
                "plus sizes sampled up to 1 MiB from VERIF_SEED, each in a pattern-filled arena with >=32-byte red zones, whole arena hashed; "
                "plus guard placements (accesses OUTSIDE the operands): each operand in turn - dest and src of memcpy/memmove, s1 and s2 of memcmp/bcmp, dest of memset - "
                "ends flush against an inaccessible (PROT_NONE) page or starts right after one, the other operand at every relative misalignment (0..=15 for n<=%d, 0..=7 above) "
                "and, for memmove, at every overlap distance, for every n of the exhaustive range and of the mid sweep, compares with equal operands and with the first difference "
                "at the last / first / a random byte, plus multi-page operands sampled from VERIF_SEED; a load or store in such a page is reported with the case; "
                "the small / big / guard streams also run on each build variant of coverage.cfg_dimensions.variants (standing: -C target-cpu=native, release; one per target feature / mixed debug-assertion setting the anchored files mention); "
                "distinct_nontrivial = distinct (op, n (bucketed above 48), dest mod 8, src mod 8, overlap class, guard placement) classes" % (nmax, 160 if quick else 320, 64 if quick else 128, nmax))
    ctx.assumptions += [
        "the model Model/MemFns.lean describes tiny-start/src/symbols/mem.rs and the files below tiny-start/src/symbols/mem/ (checked by the correspondence streams of this run: debug and release builds of a textual copy of those files, and every build variant of coverage.cfg_dimensions.variants - value / guard-page streams only, the store and load traces run on the dev build)",
        "a word access is 8 byte reads then 8 byte writes; misaligned word reads through read_usize_unaligned are allowed (x86-64/aarch64)",
        "C's preconditions: the objects do not wrap the address space (dest+n, src+n <= 2^64); memcpy's ranges do not overlap",
        "reads outside the operands: PROVED for the model (every load of memcpy/memmove lies in [src, src+n), of memcmp/bcmp in [s1, s1+n) or [s2, s2+n), memset loads nothing; every store lies in [dest, dest+n)) and "
        "OBSERVED on the compiled code, debug and release: an operand is put flush against a PROT_NONE page (before / after) and any access to that page is caught by a SIGSEGV handler and reported (an over- or "
        "under-read of up to a page next to an operand is seen, for the explored n, alignments and contents); in addition the START address of every load is recorded (PROT_NONE arena, single-stepped, debug build, "
        "a sample) and must lie inside a source operand.  Loads further than a page away that also start inside an operand are not observable this way",
        "the harness strips #[no_mangle] so the functions are called by path; for the exported symbols themselves only a static observation is made (tiny-start built with feature mem-symbols defines the five symbols and none of their bodies calls a mem symbol)",
    ]
    ctx.trusted.append("python oracle in checks/c08.py (C semantics by bytes slicing), arena hash = little-endian integer mod 2^55-55")
    ctx.trusted.append("harness/c08 guard pages and access tracing: mprotect(PROT_NONE) on pages next to the operands / on the arena, SIGSEGV (+SIGTRAP single-step) handlers recording address and load/store (x86-64 page-fault error code)")
    ok = C.lean_prove(ctx, "TinyVerif.Props.C08", drivers=["drv_c08"])
    drv = [C.driver_path("drv_c08")]
    small = gen_small(ctx, nmax) + gen_mid(ctx, quick)
    big = gen_big(ctx, 96, 8) if quick else gen_big(ctx, 1600, 80)
    guard = gen_guard(ctx, quick, nmax)
    for c in small + big + guard:
        op, size, seed, a, b, n, st = parse(c)
        s = a if op == "set" else b
        holes = [PAGE * h[1] for h in st if h[0] == "!"]
        # which operand end touches an inaccessible page: a/b = first/second argument, E/S = its end / its start
        tight = "".join(t for t, x in (("aE", a + n), ("aS", a - PAGE), ("bE", s + n), ("bS", s - PAGE)) if x in holes and (t[0] == "a" or op != "set"))
        ctx.count((op, ncls(n), a % 8, s % 8, "-" if op in ("set", "cmp", "bcm") else ovl(a, s, n), tight))
        if holes:
            ctx.hist("guard_placement", tight or "loose-only")
        ctx.hist("ops", op)
        ctx.hist("n_class", "n<16" if n < 16 else ("16<=n<=%d" % nmax if n <= nmax else "n>%d" % nmax))
    for release in (False, True):
        exe, err = build(ctx, release)
        if exe is None:
            ctx.broken.append({"harness_build_failed": err})
            ctx.violation({"kind": "harness-build-failed"}, {"error": err}, no_input=True)
            return
        mode = "release" if release else "debug"
        rc, outs, _ = C.run_filter([exe], ["consts"])
        ctx.extra.setdefault("constants_in_code", {})[mode] = outs[0] if outs else "?"
        kv = dict(t.split("=", 1) for t in (outs[0].split() if outs else []) if "=" in t)
        consts = " ".join("%s=%s" % (k, kv.get(k, "?")) for k in ("word_size", "word_mask", "threshold"))
        # constants of these names no longer exist (renamed / inlined): nothing to compare, the behaviour streams decide
        if consts != "word_size=unknown word_mask=unknown threshold=unknown" and consts != "word_size=8 word_mask=7 threshold=16":
            ctx.violation({"kind": "constants-changed"}, {"implementation": outs[:1], "model": "word_size=8 word_mask=7 threshold=16"}, no_input=True)
        # what the `fwd` / `bwd` operations reach: the routine memcpy / memmove call (by whatever name, in whatever file),
        # or memmove itself when no such routine could be identified
        ctx.extra.setdefault("direct_copy_routines", {})[mode] = {"fwd": kv.get("fwd", "?"), "bwd": kv.get("bwd", "?"), "glue": kv.get("glue", "?")}
        C.correspond(ctx, "small-" + mode, small, [exe], drv, judge, sig_of, model_cache=_model_cache)
        C.correspond(ctx, "big-" + mode, big, [exe], drv, judge, sig_of, model_cache=_model_cache)
        C.correspond(ctx, "guard-" + mode, guard, [exe], drv, judge, sig_of, model_cache=_model_cache)
        C.correspond(ctx, "malformed-" + mode, MALFORMED, [exe], drv,
                     lambda c, o: None if o == "bad-op" else "harness accepted a malformed case", sig_of)
    # the same source built the other ways it can be built here: same lines, same oracle, the model's answers reused
    _, vs = C.build_variants(ctx, ANCHORED, native_quick=True, wider=WIDER)
    for v in vs:
        exe, err, how = build_variant(ctx, v)
        if exe is None:
            ctx.broken.append({"harness_build_failed": err, "variant": v["tag"]})
            ctx.violation({"kind": "harness-build-failed", "variant": v["tag"]},
                          {"error": err, "build_variant": {"tag": v["tag"], "RUSTFLAGS": v["rustflags"]}, "how_to_replay": how,
                           "note": "the same source does not build in this configuration"}, no_input=True)
            continue
        vv = dict(v, how=how)
        C.correspond(ctx, "small-" + v["tag"], small, [exe], drv, judge, sig_of, variant=vv, model_cache=_model_cache)
        C.correspond(ctx, "big-" + v["tag"], big, [exe], drv, judge, sig_of, variant=vv, model_cache=_model_cache)
        C.correspond(ctx, "guard-" + v["tag"], guard, [exe], drv, judge, sig_of, variant=vv, model_cache=_model_cache)
    # write-set oracle (implementation vs the property, no model involved): the arena is read-only, every store of
    # the code under test faults and is recorded by address.  A store outside [dest, dest+n) is a violation even when
    # it rewrites the value that was there (invisible to every value comparison, visible to a concurrent observer).
    exe, _ = build(ctx, False)
    tr_cases = [c for k, c in enumerate(small) if k % (3 if quick else 1) == 0 and not c.startswith(("cmp", "bcm"))]
    tr_cases += [c for k, c in enumerate(small) if c.startswith(("cmp", "bcm")) and k % 40 == 0] + big[: (16 if quick else 200)]
    rc, outs, _ = C.run_filter([exe, "--trace"], tr_cases, timeout=2400)
    st = ctx.extra.setdefault("streams", {})
    st["store-trace"] = {"cases": len(tr_cases), "stores_traced": 0, "outside": 0}
    ctx.evaluations += len(tr_cases)
    if len(outs) != len(tr_cases):
        idx = len(outs)
        ctx.violation({"stream": "store-trace", "kind": "impl-crash"}, {"case": tr_cases[idx] if idx < len(tr_cases) else None, "rc": rc})
    for c, o in zip(tr_cases, outs):
        kv = dict(x.split("=", 1) for x in o.split() if "=" in x)
        st["store-trace"]["stores_traced"] += int(kv.get("stores", 0))
        if int(kv.get("outside", 0)) != 0:
            st["store-trace"]["outside"] += 1
            ctx.violation({"op": c.split()[0], "kind": "store outside the destination range"},
                          {"stream": "store-trace", "case": c, "implementation": o,
                           "why": "%s stores outside [dest, dest+n), the first at dest%+d" % (kv["outside"], int(kv.get("first_outside_rel_dest", 0))),
                           "how_to_replay": "echo '%s' | %s --trace" % (c, exe)})
    # load-trace oracle (implementation vs the property): the arena is PROT_NONE, every load and store faults and is
    # recorded; the START of every load must lie inside a source operand (src of the copies, s1/s2 of the compares;
    # memset must not load at all).  How far a load extends is what the guard placements above observe.
    la_cases = [c for k, c in enumerate(small) if k % (23 if quick else 5) == 0] + [c for c in big if int(c.split()[5]) <= 5000][: (12 if quick else 100)]
    rc, outs, _ = C.run_filter([exe, "--trace-all"], la_cases, timeout=2400)
    st["load-trace"] = {"cases": len(la_cases), "loads_traced": 0, "outside": 0}
    ctx.evaluations += len(la_cases)
    if len(outs) != len(la_cases):
        idx = len(outs)
        ctx.violation({"stream": "load-trace", "kind": "impl-crash"}, {"case": la_cases[idx] if idx < len(la_cases) else None, "rc": rc})
    for c, o in zip(la_cases, outs):
        kv = dict(x.split("=", 1) for x in o.split() if "=" in x)
        st["load-trace"]["loads_traced"] += int(kv.get("loads", 0))
        if int(kv.get("loads_outside", 0)) != 0 or int(kv.get("outside", 0)) != 0 or "trace-truncated" in o:
            st["load-trace"]["outside"] += 1
            ctx.violation({"op": c.split()[0], "kind": "load outside the operands" if int(kv.get("loads_outside", 0)) else "store outside the destination range"},
                          {"stream": "load-trace", "case": c, "implementation": o,
                           "why": "%s loads start outside the source operand(s), the first at arena offset %s; %s stores outside [dest, dest+n)" % (
                               kv.get("loads_outside"), kv.get("first_load_outside_at"), kv.get("outside")),
                           "how_to_replay": "echo '%s' | %s --trace-all" % (c, exe)})
    exported_symbols(ctx)
    exe, _ = build(ctx, False)
    picks = [small[0], small[len(small) // 3], small[len(small) // 2], small[-1], big[0], big[-1], guard[len(guard) // 3], guard[-1]]
    _, outs, _ = C.run_filter([exe], picks)
    for c, o in zip(picks, outs):
        ctx.sample({"case": c, "implementation": o})
    if not ok and not ctx.violations:
        ctx.violation({"kind": "proof-broken"}, {"broken": ctx.broken}, no_input=True)


def replay(ctx, rp):
    case = rp.get("replay", {}).get("case")
    if not case:
        print("replay file has no concrete case (broken obligation): %s" % rp.get("replay"))
        return 2
    exe, err = build(ctx, False)
    if exe is None:
        print(err)
        return 2
    _, impl, _ = C.run_filter([exe], [case])
    _, model, _ = C.run_filter([C.driver_path("drv_c08")], [case])
    why = judge(case, impl[0]) if impl else "implementation crashed"
    print("case: %s\nimplementation: %s\nmodel: %s\noracle: %s" % (case, impl[:1], model[:1], why or "satisfied"))
    return 1 if why or impl[:1] != model[:1] else 0
